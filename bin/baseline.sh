#!/bin/bash
# runs the repository's pinned suite with the verification guard OFF and reports baseline tests that no longer pass
unset JAMMY2211_PYAUTOARRAY_VERIF
cd /repo && X=$(mktemp --suffix=.xml) && /venv/bin/python -m pytest -ra -q -p no:cacheprovider --timeout=900 --continue-on-collection-errors --junitxml=$X >/dev/null 2>&1
python3 - "$X" <<'PY'
import json,sys,xml.etree.ElementTree as ET
base=json.load(open('/root/.vp/BASELINE.json'))['stable_pass']
ok=set()
for tc in ET.parse(sys.argv[1]).getroot().iter('testcase'):
    if not any(c.tag in('failure','error','skipped') for c in tc):
        ok.add(tc.get('classname')+'::'+tc.get('name'))
bad=[t for t in base if t not in ok]
print('baseline tests:',len(base),'passing:',len(base)-len(bad))
for t in bad: print('FAILING:',t)
sys.exit(1 if bad else 0)
PY
rc=$?; rm -f "$X"; git -C /repo checkout -- test_autoarray 2>/dev/null; exit $rc
