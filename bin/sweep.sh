#!/bin/bash
# usage: sweep.sh <tier> [ids...]  -- runs the registered command of every check sequentially, prints one line per check
tier=$1; shift
ids="$@"; [ -z "$ids" ] && ids=$(seq -f "C%02g" 1 20)
for c in $ids; do
  t0=$(date +%s)
  out=$(timeout 3600 python3 /verif/bin/check.py $c --tier $tier 2>&1); rc=$?
  t1=$(date +%s)
  echo "$c $tier rc=$rc wall=$((t1-t0))s $(echo "$out" | grep -E "^$c $tier:" | sed 's/^.*: //')"
  echo "$out" | grep -E "VIOLATION|KNOWN-FINDING|HARNESS-ERROR|ENCODING" | cut -c1-200 | head -5
done
