#!/bin/bash
# usage: mutant.sh <patch.diff> <ID> [tier]  -- apply a seeded change to /repo, run the check, always revert.
set -u
P=$(readlink -f "$1"); ID=$2; TIER=${3:-quick}
cd /repo || exit 9
if ! git diff --quiet; then echo "repo dirty, refusing"; exit 9; fi
{ git apply "$P" 2>/dev/null || git apply -C1 --recount "$P" 2>/dev/null || patch -p1 -s -F3 --binary < "$P"; } || { echo "patch does not apply"; git checkout -- .; exit 9; }
trap 'git -C /repo checkout -- .' EXIT INT TERM
cd /verif
timeout 3600 python3 bin/check.py "$ID" --tier "$TIER" 2>&1 | grep -v "^\*\*\*\|^Numba\|^\. \|^$\|^https" | tail -${TAIL:-8}
rc=${PIPESTATUS[0]}
git -C /repo checkout -- .
echo "exit=$rc"
exit $rc
