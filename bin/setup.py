#!/usr/bin/env python3
"""Create /verif/.venv: overlay on /venv (repo deps) + z3-solver, cvc5, crosshair-tool
from the offline wheelhouse. Idempotent. Nothing under /tmp is needed afterwards."""
import os, subprocess, sys, shutil

ROOT = os.path.dirname(os.path.dirname(os.path.abspath(__file__)))
VENV = os.path.join(ROOT, ".venv")
PY = os.path.join(VENV, "bin", "python")
WHEELS = "/opt/veriftools/wheels"
MARK = os.path.join(VENV, ".ok")


def ok():
    if not (os.path.exists(MARK) and os.path.exists(PY)):
        return False
    r = subprocess.run([PY, "-c", "import z3, numpy, scipy"], capture_output=True)
    return r.returncode == 0


def main():
    if ok():
        print("setup: overlay venv present")
        return 0
    if os.path.exists(VENV):
        shutil.rmtree(VENV)
    subprocess.check_call(["/venv/bin/python", "-m", "venv", VENV])
    sp = os.path.join(VENV, "lib", "python3.12", "site-packages")
    with open(os.path.join(sp, "_base.pth"), "w") as f:
        f.write("import site; site.addsitedir('/venv/lib/python3.12/site-packages')\n")
        f.write("/repo\n")
    env = dict(os.environ, PIP_NO_INDEX="1", PIP_DISABLE_PIP_VERSION_CHECK="1")
    subprocess.check_call(
        [PY, "-m", "pip", "install", "-q", "--no-index", "--find-links", WHEELS,
         "z3-solver", "cvc5", "crosshair-tool"], env=env)
    subprocess.check_call([PY, "-c", "import z3, cvc5, crosshair, autoarray; print('setup: z3', z3.get_version_string())"],
                          env=dict(env, PYTHONDONTWRITEBYTECODE="1"))
    open(MARK, "w").write("ok\n")
    return 0


if __name__ == "__main__":
    sys.exit(main())
