#!/usr/bin/env python3
"""Consolidates known_findings.d/*.json (one file per property, written by whoever built the harness) into the single
committed known_findings.json. Never run by a check; checks only read."""
import json, os, glob
ROOT = os.path.dirname(os.path.dirname(os.path.abspath(__file__)))
main = os.path.join(ROOT, "known_findings.json")
cur = json.load(open(main))
byid = {(f["property"], f["id"]): f for f in cur.get("findings", [])}
for p in sorted(glob.glob(os.path.join(ROOT, "known_findings.d", "*.json"))):
    for f in json.load(open(p)).get("findings", []):
        byid[(f["property"], f["id"])] = f
out = {"_doc": cur.get("_doc", ""), "findings": [byid[k] for k in sorted(byid)]}
out["_doc"] = ("Committed list of genuine defects of Jammy2211/PyAutoArray found by the checks. status=known: still present - the check "
               "prints KNOWN-FINDING for it (restricted to its region predicate, re-confirmed by solver + replay on every run) and reports "
               "anything outside the region as a VIOLATION. status=fixed: repaired by the named 'fix:' commit in /repo - suppresses nothing. "
               "Generated from known_findings.d/<ID>.json by bin/mkknown.py; never written at check time.")
out["summary_lines"] = [("fixed: property=%s %s %s - %s" % (f["property"], f.get("commit"), f["id"], " ".join(str(f.get("what", "")).split())[:240]))
                        if f.get("status") == "fixed" else
                        ("known: property=%s %s - %s" % (f["property"], f["id"], " ".join(str(f.get("what", "")).split())[:240]))
                        for f in out["findings"]]
json.dump(out, open(main, "w"), indent=1)
print("known_findings.json:", len(out["findings"]), "findings;", sum(1 for f in out["findings"] if f.get("status") == "known"), "known")
for f in out["findings"]:
    if f.get("status") == "fixed":
        print("fixed: property=%s %s %s" % (f["property"], f.get("commit"), f["id"]))
    else:
        print("known: property=%s %s" % (f["property"], f["id"]))
