#!/usr/bin/env python3
"""Confirm a sub-agent's seeded change independently (scratch worktree outside /repo and /verif) and keep it
under /verif/seeded/<id>/: patch applies, baseline suite still passes, demo passes without / fails with it."""
import json, os, shutil, subprocess, sys, time

SRC = sys.argv[1]          # e.g. /tmp/wt/out/C01/a
SID = sys.argv[2]          # e.g. C01-a
PROP = SID.split("-")[0]
WT = "/tmp/wt/verify_" + SID
DST = "/verif/seeded/" + SID


def sh(cmd, cwd=None, timeout=1800):
    r = subprocess.run(cmd, cwd=cwd, shell=True, capture_output=True, text=True, timeout=timeout,
                       env=dict(os.environ, PYTHONDONTWRITEBYTECODE="1"))
    return r.returncode, (r.stdout + r.stderr)[-1500:]


def main():
    log = {}
    subprocess.run("git -C /repo worktree remove --force %s" % WT, shell=True, capture_output=True)
    rc, out = sh("git -C /repo worktree add -q --detach %s HEAD" % WT)
    assert rc == 0, out
    try:
        shutil.copy(os.path.join(SRC, "demo.py"), os.path.join(WT, "demo_seed.py"))
        rc0, out0 = sh("/venv/bin/python demo_seed.py", cwd=WT)
        log["demo_pristine_exit"] = rc0
        rc, out = sh("git apply %s" % os.path.join(SRC, "patch.diff"), cwd=WT)
        log["patch_applies"] = rc == 0
        if rc != 0:
            log["apply_err"] = out
        rc1, out1 = sh("/venv/bin/python demo_seed.py", cwd=WT)
        log["demo_patched_exit"] = rc1
        log["demo_patched_tail"] = out1[-400:]
        rct, outt = sh("python3 /tmp/wt/run_tests.py %s" % WT)
        log["suite_exit"] = rct
        log["suite_tail"] = outt[-300:]
        if rct != 0:   # flaky fits tests under -n: retry once
            sh("git checkout -- test_autoarray", cwd=WT)
            rct, outt = sh("python3 /tmp/wt/run_tests.py %s" % WT)
            log["suite_exit_retry"] = rct
            log["suite_tail"] = outt[-300:]
        ok = log["patch_applies"] and rc0 == 0 and rc1 != 0 and rct == 0
        log["confirmed"] = ok
        if ok:
            os.makedirs(DST, exist_ok=True)
            shutil.copy(os.path.join(SRC, "patch.diff"), DST)
            shutil.copy(os.path.join(SRC, "demo.py"), DST)
            notes = open(os.path.join(SRC, "notes.md")).read() if os.path.exists(os.path.join(SRC, "notes.md")) else ""
            meta = {"id": SID, "property": PROP, "needs_to_manifest": notes,
                    "confirmed_by": "bin/seedkeep.py in scratch worktree: git apply ok; demo.py exit %d pristine / %d patched; "
                                    "pinned suite: all 699 baseline tests still pass with the patch" % (rc0, rc1),
                    "confirmed_at": time.strftime("%Y-%m-%dT%H:%M:%SZ", time.gmtime()), "detected_by": None}
            json.dump(meta, open(os.path.join(DST, "meta.json"), "w"), indent=1)
    finally:
        subprocess.run("git -C /repo worktree remove --force %s" % WT, shell=True, capture_output=True)
    print(SID, json.dumps(log))
    return 0 if log.get("confirmed") else 1


if __name__ == "__main__":
    sys.exit(main())
