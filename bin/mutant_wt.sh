#!/bin/bash
# usage: mutant_wt.sh <patch.diff> <ID> [tier]  -- run a check against a scratch worktree of /repo with a seeded change applied
# (never touches /repo's working tree; safe to run concurrently). Evidence of the mutant run goes to the scratch worktree, not to /verif/evidence.
set -u
P=$(readlink -f "$1"); ID=$2; TIER=${3:-quick}
WT=/tmp/wt/mt_$$_$RANDOM
git -C /repo worktree add -q --detach "$WT" HEAD || exit 9
trap 'git -C /repo worktree remove --force "$WT" >/dev/null 2>&1' EXIT INT TERM
( cd "$WT" && { git apply "$P" 2>/dev/null || git apply -C1 --recount "$P" 2>/dev/null || patch -p1 -s -F3 --binary < "$P"; } ) || { echo "patch does not apply"; exit 9; }
cd /verif
SYMX_REPO="$WT" SYMX_EVIDENCE_DIR="$WT/.symx_evidence" timeout ${TIMEOUT:-1500} python3 bin/check.py "$ID" --tier "$TIER" 2>&1 | grep -v "^\*\*\*\|^Numba\|^\. \|^$\|^https" | tail -${TAIL:-8}
rc=${PIPESTATUS[0]}
echo "exit=$rc"
exit $rc
