#!/usr/bin/env python3
"""Regenerates the derived artefacts (known_findings.json, registry notes, MANIFEST.json, DESIGN.md AUTO section) from the
committed sources. Run by hand before a commit; never by a check."""
import json, os, subprocess, sys, glob
ROOT = os.path.dirname(os.path.dirname(os.path.abspath(__file__)))
subprocess.run([sys.executable, os.path.join(ROOT, "bin", "mkknown.py")], check=True, stdout=subprocess.DEVNULL)
kf = json.load(open(os.path.join(ROOT, "known_findings.json")))["findings"]
nfix = sum(1 for f in kf if f.get("status") == "fixed"); known = [f for f in kf if f.get("status") == "known"]
metas = [json.load(open(p)) for p in glob.glob(os.path.join(ROOT, "seeded", "*", "meta.json"))]
det = sum(1 for m in metas if (m.get("check_result") or {}).get("detected"))
rounds = len({("abcdefghijklmnop".index(m["id"].split("-")[1][0]) // 2) for m in metas})
rp = os.path.join(ROOT, "registry.json")
r = json.load(open(rp))
r["_notes"] = ("All 20 properties are claimed with bounded solver-based checks (symx: symbolic execution of the repository's own Python on z3-backed proxies; fork explorer + merge interpreter; CrossHair additionally for C19). "
               "Within the bounds recorded in each evidence file the SMT solver's unsat covers every value of the symbolic inputs under exact real arithmetic; nothing is claimed outside the bounds (see each check's level_note / evidence 'outside_bounds' and DESIGN.md section 0). "
               "Every sat verdict is replayed on the untouched float64 code before a VIOLATION is printed; unknown / non-reproducing verdicts exit 3. "
               "%d genuine defects found by the checks were repaired by unguarded 'fix:' commits in /repo (pinned suite 699/699), %d remain as known findings (known_findings.json): %s, because the repair breaks a pinned test. "
               "seeded/ holds %d independently produced and confirmed seeded changes (%d rounds) with the kill matrix (seeded/RESULTS.md): %d end with exit 1 + VIOLATION under the final harnesses, the other %d are explained in their meta.json (no longer faults after a fix: commit, or outside the property as stated). No source hooks were needed."
               % (nfix, len(known), " and ".join("%s %s" % (f["property"], f["id"]) for f in known), len(metas), rounds, det, len(metas) - det))
json.dump(r, open(rp, "w"), indent=1)
subprocess.run([sys.executable, os.path.join(ROOT, "bin", "seedrun.py"), "NONE"], check=True, stdout=subprocess.DEVNULL)
subprocess.run([sys.executable, os.path.join(ROOT, "bin", "mkmanifest.py")], check=True)
subprocess.run([sys.executable, os.path.join(ROOT, "bin", "mkdesign.py")], check=True)
