#!/usr/bin/env python3
"""usage: check.py <ID> [--tier quick|thorough] [--only substr] [--jobs N]   |   check.py --replay <file>
Exit 0: every obligation inside the stated bounds discharged; 1: reproduced VIOLATION; 3: harness error / inconclusive."""
import os, subprocess, sys

ROOT = os.path.dirname(os.path.dirname(os.path.abspath(__file__)))
PY = os.path.join(ROOT, ".venv", "bin", "python")


def main():
    if os.environ.get("SYMX_INNER") != "1":
        r = subprocess.run([sys.executable, os.path.join(ROOT, "bin", "setup.py")], stdout=subprocess.DEVNULL, stderr=subprocess.PIPE)
        if r.returncode != 0:
            sys.stderr.write(r.stderr.decode()[-2000:])
            print("HARNESS-ERROR: setup failed")
            return 3
        env = dict(os.environ, SYMX_INNER="1", PYTHONDONTWRITEBYTECODE="1", PYTHONPATH=ROOT,
                   NUMBA_DISABLE_JIT="1", OMP_NUM_THREADS="1", OPENBLAS_NUM_THREADS="1", MKL_NUM_THREADS="1",
                   PYTHONWARNINGS="ignore", PYTHONHASHSEED="0")
        os.chdir(ROOT)
        return subprocess.call([PY, os.path.abspath(__file__)] + sys.argv[1:], env=env)
    sys.path.insert(0, ROOT)
    if os.environ.get("SYMX_REPO"):
        sys.path.insert(0, os.environ["SYMX_REPO"])   # analyse a scratch copy of the repository (mutant runs); default is /repo
    if len(sys.argv) > 1 and (sys.argv[1] == "C13" or (sys.argv[1] == "--replay" and "C13" in os.path.basename(sys.argv[2]))):
        sys.path.insert(0, os.path.join(ROOT, "stubs_c13"))     # stand-in `pylops` base class (see DESIGN.md C13)
    import warnings
    warnings.filterwarnings("ignore")
    import io, contextlib
    import logging.config as _lc
    _dict_config = _lc.dictConfig

    def _no_file_handlers(cfg):
        # the repository's logging.yaml appends every INFO line to ./root.log; checks must not grow a file in /verif
        cfg = dict(cfg)
        cfg["handlers"] = {k: ({"class": "logging.NullHandler"} if "FileHandler" in str(h.get("class")) else h)
                           for k, h in cfg.get("handlers", {}).items()}
        return _dict_config(cfg)
    _lc.dictConfig = _no_file_handlers
    with contextlib.redirect_stdout(io.StringIO()):
        import autoarray  # noqa  (prints a numba banner)
    from symx import driver
    args = sys.argv[1:]
    if args and args[0] == "--replay":
        return driver.run_replay(args[1])
    hid = args[0]
    tier = os.environ.get("VERIF_TIER", "quick")
    only, jobs = None, None
    i = 1
    while i < len(args):
        if args[i] == "--tier":
            tier = args[i + 1]; i += 2
        elif args[i] == "--only":
            only = args[i + 1]; i += 2
        elif args[i] == "--jobs":
            jobs = int(args[i + 1]); i += 2
        else:
            i += 1
    seed = int(os.environ.get("VERIF_SEED", "0") or 0)
    return driver.run_check(hid, tier, seed=seed, jobs=jobs, only=only)


if __name__ == "__main__":
    sys.exit(main())
