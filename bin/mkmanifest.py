#!/usr/bin/env python3
"""Regenerate MANIFEST.json from harness modules present + registry below (kept valid at all times)."""
import json, os, sys
ROOT = os.path.dirname(os.path.dirname(os.path.abspath(__file__)))
sys.path.insert(0, ROOT)
REG = json.load(open(os.path.join(ROOT, "registry.json")))
for fn in sorted(os.listdir(os.path.join(ROOT, "registry.d"))):
    if fn.endswith(".json"):
        REG[fn[:-5]] = json.load(open(os.path.join(ROOT, "registry.d", fn)))
props = [json.loads(l) for l in open(os.path.join(ROOT, "properties.jsonl"))]
checks, na = [], []
for p in props:
    pid = p["id"]
    r = REG.get(pid)
    if r and r.get("claimed") and pid in REG.get("_ready", []) and os.path.exists(os.path.join(ROOT, "harness", pid + ".py")):
        c = {"property_id": pid,
             "quick_cmd": "python3 bin/check.py %s --tier quick" % pid,
             "thorough_cmd": "python3 bin/check.py %s --tier thorough" % pid,
             "evidence_file": "evidence/%s.json" % pid,
             "replay_cmd_template": "python3 bin/check.py --replay {path}",
             "engine": r.get("engine", "symx"),
             "level_claimed": {"category": "model_checking", "text": r["level_text"], "design_ref": r.get("design_ref", "DESIGN.md §4 " + pid)},
             "level_note": r["level_note"],
             "technique": r["technique"]}
        checks.append(c)
    else:
        na.append({"property_id": pid, "reason": (r or {}).get("na_reason", "check not built yet in this round (see DESIGN.md); no claim is made")})
m = {"version": 1,
     "setup_cmd": "python3 bin/setup.py",
     "hooks": {"guard": "JAMMY2211_PYAUTOARRAY_VERIF", "enable": "no source hooks are needed: the engine rebinds module globals of /repo's working tree at run time (DESIGN.md §2.4)",
               "baseline_off_cmd": "bash bin/baseline.sh", "source_commits": [], "add_only": True},
     "engines": [{"name": "symx", "path": "symx/", "serves_properties": [c["property_id"] for c in checks if c["engine"] == "symx"],
                  "kind_free_text": "symbolic execution of the repository's own Python (proxy values holding z3 terms run through the real functions/classes, path forking by re-execution), obligations and feasibility decided by z3; counterexamples replayed on the untouched code"},
                 {"name": "crosshair", "path": "harness/C19_crosshair.py", "serves_properties": [c["property_id"] for c in checks if c["engine"] == "crosshair"],
                  "kind_free_text": "CrossHair (symbolic execution of Python with z3) on contracts over the real layout functions"}],
     "checks": checks,
     "notes": REG.get("_notes", ""),
     "not_applicable": na}
json.dump(m, open(os.path.join(ROOT, "MANIFEST.json"), "w"), indent=1)
print("manifest: %d checks, %d not claimed" % (len(checks), len(na)))
