"""Minimal stand-in for the optional `pylops` package: TransformerDFT only needs it as a base class
(property C13 prescribes exactly this stand-in). Put on sys.path by bin/check.py for C13 only."""


class LinearOperator:
    def __init__(self, *args, **kwargs):
        pass
