"""NumPy / builtins facades that make the repository's modules accept proxy values.

Nothing in /repo is edited: after `import autoarray` the module globals `np`
(and the numpy inside `autoarray.numpy_wrapper`), plus the builtin names
int/float/abs/max/min/round/type, are rebound in every `autoarray.*` module.
Facades pass straight through to the real library unless ENABLED and proxies
(or float allocations, which must be able to hold proxies) are involved.
"""
import builtins
import math as _math
import sys
import types

import numpy as _np
import z3

from . import values as V
from .values import SymBool, SymInt, SymReal, is_sym

ENABLED = [True]


def has_sym(x, depth=0):
    if is_sym(x):
        return True
    if isinstance(x, _np.ndarray):
        if x.dtype != object:
            return False
        for e in x.ravel():
            if is_sym(e):
                return True
        return False
    if isinstance(x, (list, tuple)) and depth < 4:
        return any(has_sym(e, depth + 1) for e in x)
    arr = getattr(x, "_array", None)
    if arr is not None and isinstance(arr, _np.ndarray):
        return has_sym(arr)
    return False


def unwrap(x):
    arr = getattr(x, "_array", None)
    if arr is not None and isinstance(arr, _np.ndarray):
        return arr
    return x


def normalise(a):
    """object array without proxies -> float64 array (library boundary)"""
    a = unwrap(a)
    if isinstance(a, _np.ndarray) and a.dtype == object:
        if not has_sym(a):
            try:
                return a.astype(_np.float64)
            except (TypeError, ValueError):
                return a
    return a


def _is_float_dtype(dtype):
    if dtype is None:
        return True
    if dtype is SFloat or dtype is builtins.float:
        return True
    if dtype is SInt or dtype is builtins.int or dtype is builtins.bool:
        return False
    if dtype is builtins.complex:
        return False
    try:
        return _np.dtype(dtype).kind == "f"
    except TypeError:
        return False


def _real_dtype(dtype):
    if dtype is SInt:
        return builtins.int
    if dtype is SFloat:
        return builtins.float
    return dtype


def obj_full(shape, value):
    a = _np.empty(shape, dtype=object)
    a.fill(value)
    return a.view(V.SymArray)


def as_obj(a):
    """float array -> object array with np.float64 entries"""
    a = _np.asarray(a)
    if a.dtype == object:
        return a
    out = _np.empty(a.shape, dtype=object)
    flat = out.reshape(-1)
    src = a.reshape(-1)
    for i in range(src.shape[0]):
        flat[i] = src[i]
    return out


def _map(fn_sym, fn_np, x):
    """element-wise map over scalar / array that may hold proxies"""
    x = unwrap(x)
    if is_sym(x):
        return fn_sym(x)
    if isinstance(x, _np.ndarray) and x.dtype == object:
        out = _np.empty(x.shape, dtype=object)
        fo, fx = out.reshape(-1), x.reshape(-1)
        for i in range(fx.shape[0]):
            e = fx[i]
            fo[i] = fn_sym(e) if is_sym(e) else fn_np(e)
        return out.view(V.SymArray)
    if isinstance(x, (list, tuple)) and has_sym(x):
        return _map(fn_sym, fn_np, _np.array(x, dtype=object))
    return fn_np(x)


def _ite(c, a, b):
    """If over proxies/concretes"""
    if isinstance(c, (bool, _np.bool_)):
        return a if c else b
    if not isinstance(c, SymBool):
        c = c != 0
        if isinstance(c, (bool, _np.bool_)):
            return a if c else b
    if isinstance(a, (SymInt, builtins.int, _np.integer)) and isinstance(b, (SymInt, builtins.int, _np.integer)) \
            and not isinstance(a, (bool, _np.bool_)) and not isinstance(b, (bool, _np.bool_)):
        return SymInt(z3.If(c.t, V.to_int_term(a), V.to_int_term(b)))
    if isinstance(a, (SymBool, bool, _np.bool_)) and isinstance(b, (SymBool, bool, _np.bool_)):
        return SymBool(z3.If(c.t, V.to_bool_term(a), V.to_bool_term(b)))
    return SymReal(z3.If(c.t, V.to_real_term(a), V.to_real_term(b)))


def sym_max2(a, b):
    if not (is_sym(a) or is_sym(b)):
        return builtins.max(a, b)
    return _ite(a >= b, a, b)


def sym_min2(a, b):
    if not (is_sym(a) or is_sym(b)):
        return builtins.min(a, b)
    return _ite(a <= b, a, b)


def _fold(x, f2, axis=None):
    x = unwrap(x)
    x = _np.asarray(x, dtype=object) if not isinstance(x, _np.ndarray) else x
    if axis is None:
        it = x.reshape(-1)
        r = it[0]
        for e in it[1:]:
            r = f2(r, e)
        return r
    x = _np.moveaxis(x, axis, 0)
    out = _np.empty(x.shape[1:], dtype=object)
    for idx in _np.ndindex(*x.shape[1:]):
        col = x[(slice(None),) + idx]
        r = col[0]
        for e in col[1:]:
            r = f2(r, e)
        out[idx] = r
    return out


class Angle:
    """unit-vector angle domain: an angle is the pair (cos, sin); sums are complex products (exact in real arithmetic)"""

    def __init__(self, c, s):
        self.c, self.s = c, s

    @staticmethod
    def of(x):
        if isinstance(x, Angle):
            return x
        if is_sym(x):
            raise V.Unsupported("symbolic angle in radians")
        return Angle(_np.float64(_math.cos(x)), _np.float64(_math.sin(x)))

    def __add__(self, o):
        o = Angle.of(o)
        return Angle(self.c * o.c - self.s * o.s, self.s * o.c + self.c * o.s)

    __radd__ = __add__

    def __sub__(self, o):
        o = Angle.of(o)
        return Angle(self.c * o.c + self.s * o.s, self.s * o.c - self.c * o.s)

    def __neg__(self):
        return Angle(self.c, -self.s)


class SymQuot(SymReal):
    """num/den kept factored so that den * (num/den) cancels syntactically (den = sqrt(x^2+y^2) of arctan2).
    At den == 0 (x = y = 0) numpy yields r*cos = r*sin = 0 and num (a linear form in x, y) is 0 too."""
    __slots__ = ("num", "den")

    def __init__(self, num, den):
        self.num, self.den = num, den
        SymReal.__init__(self, z3.If(den == 0, z3.RealVal(0), num / den))

    def _same(self, o):
        return isinstance(o, SymQuot) and o.den.eq(self.den)

    def __add__(self, o):
        if self._same(o):
            return SymQuot(self.num + o.num, self.den)
        return SymReal.__add__(self, o)

    __radd__ = __add__

    def __sub__(self, o):
        if self._same(o):
            return SymQuot(self.num - o.num, self.den)
        return SymReal.__sub__(self, o)

    def __neg__(self):
        return SymQuot(-self.num, self.den)

    def __mul__(self, o):
        if isinstance(o, _np.ndarray):
            return NotImplemented
        if isinstance(o, SymReal) and not isinstance(o, SymQuot) and o.t.eq(self.den):
            return SymReal(self.num)
        if isinstance(o, SymQuot):
            return SymReal.__mul__(self, o)
        if isinstance(o, (SymReal, SymInt)) or V._is_num(o):
            if V._is_num(o) and o == 0:
                return _np.float64(0.0)
            return SymQuot(self.num * V.to_real_term(o), self.den)
        return SymReal.__mul__(self, o)

    __rmul__ = __mul__


class AngleDeg:
    """a symbolic angle in degrees, known only through its (cos, sin) pair"""

    def __init__(self, c, s):
        self.angle = Angle(c, s)


def sym_arctan2(y, x):
    r = (V.sym_float(x) * x + V.sym_float(y) * y)
    r = r.sqrt() if is_sym(r) else _math.sqrt(r)
    rt, xt, yt = V.to_real_term(r), V.to_real_term(x), V.to_real_term(y)
    # numpy: arctan2(0, 0) = 0
    return Angle(SymQuot(xt, rt), SymQuot(yt, rt))


_NOWRAP = {"errstate", "printoptions", "vectorize", "frompyfunc", "nditer", "ndindex", "ndenumerate", "dtype", "iinfo", "finfo"}


class _ResultView:
    """a numpy function reached through the facade: object-dtype ndarray results are viewed as V.SymArray (so that a later
    `.astype(float)` keeps proxies); attributes (ufunc.at / .reduce / .outer ...) are delegated"""
    __slots__ = ("_f",)

    def __init__(self, f):
        self._f = f

    def __call__(self, *a, **kw):
        r = self._f(*a, **kw)
        if type(r) is _np.ndarray and r.dtype == object:
            return r.view(V.SymArray)
        if type(r) is tuple:
            return tuple(V.as_symarray(e) for e in r)
        return r

    def __getattr__(self, name):
        return getattr(self._f, name)


class NPFacade:
    """stands in for the `np` global of autoarray modules"""

    def __init__(self, real):
        object.__setattr__(self, "_real", real)

    def __getattr__(self, name):
        v = getattr(self._real, name)
        if ENABLED[0] and callable(v) and not isinstance(v, type) and name not in _NOWRAP:
            return _ResultView(v)
        return v

    # ---- allocation: float arrays must be able to hold proxies
    def zeros(self, shape, dtype=None, **kw):
        if ENABLED[0] and _is_float_dtype(dtype):
            return obj_full(shape, _np.float64(0.0))
        return _np.zeros(shape, dtype=_real_dtype(dtype) or builtins.float, **kw)

    def ones(self, shape, dtype=None, **kw):
        if ENABLED[0] and _is_float_dtype(dtype):
            return obj_full(shape, _np.float64(1.0))
        return _np.ones(shape, dtype=_real_dtype(dtype) or builtins.float, **kw)

    def empty(self, shape, dtype=None, **kw):
        if ENABLED[0] and _is_float_dtype(dtype):
            return obj_full(shape, _np.float64(0.0))
        return _np.empty(shape, dtype=_real_dtype(dtype) or builtins.float, **kw)

    def full(self, shape, fill_value, dtype=None, **kw):
        if ENABLED[0] and (is_sym(fill_value) or (dtype is None and isinstance(fill_value, (builtins.float, _np.floating)))
                           or (dtype is not None and _is_float_dtype(dtype))):
            fv = fill_value if is_sym(fill_value) else _np.float64(fill_value)
            return obj_full(shape, fv)
        return _np.full(shape, fill_value, dtype=_real_dtype(dtype), **kw)

    def zeros_like(self, a, dtype=None, **kw):
        a = unwrap(a)
        aa = _np.asarray(a) if not isinstance(a, _np.ndarray) else a
        if ENABLED[0] and dtype is None and (aa.dtype == object or aa.dtype.kind == "f"):
            return obj_full(aa.shape, _np.float64(0.0))
        return _np.zeros_like(aa, dtype=_real_dtype(dtype), **kw)

    def ones_like(self, a, dtype=None, **kw):
        a = unwrap(a)
        aa = _np.asarray(a) if not isinstance(a, _np.ndarray) else a
        if ENABLED[0] and dtype is None and (aa.dtype == object or aa.dtype.kind == "f"):
            return obj_full(aa.shape, _np.float64(1.0))
        return _np.ones_like(aa, dtype=_real_dtype(dtype), **kw)

    def full_like(self, a, fill_value, dtype=None, **kw):
        a = unwrap(a)
        aa = _np.asarray(a) if not isinstance(a, _np.ndarray) else a
        if ENABLED[0] and dtype is None and (aa.dtype == object or aa.dtype.kind == "f"):
            return obj_full(aa.shape, fill_value if is_sym(fill_value) else _np.float64(fill_value))
        return _np.full_like(aa, fill_value, dtype=_real_dtype(dtype), **kw)

    def array(self, obj, dtype=None, **kw):
        if dtype is not None and _is_float_dtype(dtype) and has_sym(obj):
            return V.as_symarray(_np.array(unwrap(obj), dtype=object, **kw))
        if dtype is not None:
            dtype = _real_dtype(dtype)
        return V.as_symarray(_np.array(obj, dtype=dtype, **kw))

    def asarray(self, obj, dtype=None, **kw):
        if dtype is not None and _is_float_dtype(dtype) and has_sym(obj):
            return V.as_symarray(_np.asarray(unwrap(obj), dtype=object, **kw))
        if dtype is not None:
            dtype = _real_dtype(dtype)
        return V.as_symarray(_np.asarray(obj, dtype=dtype, **kw))

    # ---- element-wise maths
    def sqrt(self, x, **kw):
        return _map(lambda e: e.sqrt(), _np.sqrt, x)

    def square(self, x, **kw):
        return _map(lambda e: e * e, _np.square, x)

    def abs(self, x, **kw):
        return _map(lambda e: builtins.abs(e), _np.abs, x)

    absolute = abs
    fabs = abs

    def exp(self, x, **kw):
        return _map(lambda e: V.sym_float(e).exp(), _np.exp, x)

    def log(self, x, **kw):
        return _map(lambda e: V.sym_float(e).log(), _np.log, x)

    def log10(self, x, **kw):
        return _map(lambda e: V.sym_float(e).log10(), _np.log10, x)

    def cos(self, x, **kw):
        if isinstance(x, Angle):
            return x.c
        return _map(lambda e: V.sym_float(e).cos(), _np.cos, x)

    def sin(self, x, **kw):
        if isinstance(x, Angle):
            return x.s
        return _map(lambda e: V.sym_float(e).sin(), _np.sin, x)

    def radians(self, x, **kw):
        if isinstance(x, AngleDeg):
            return x.angle
        return _np.radians(x, **kw)

    def arctan2(self, y, x, **kw):
        if is_sym(y) or is_sym(x):
            return sym_arctan2(y, x)
        if has_sym(y) or has_sym(x):
            return _binary_map(lambda a, b: sym_arctan2(a, b) if (is_sym(a) or is_sym(b)) else Angle.of(_np.arctan2(a, b)), y, x)
        return _np.arctan2(y, x)

    def isnan(self, x, **kw):
        return _asbool(_map(lambda e: False, _np.isnan, x))

    def isinf(self, x, **kw):
        return _asbool(_map(lambda e: False, _np.isinf, x))

    def isfinite(self, x, **kw):
        return _asbool(_map(lambda e: True, _np.isfinite, x))

    def real(self, x):
        x = unwrap(x)
        if isinstance(x, _np.ndarray) and x.dtype == object:
            return x
        return _np.real(x)

    def floor(self, x, **kw):
        return _map(lambda e: SymReal(z3.ToReal(z3.ToInt(V.to_real_term(e)))), _np.floor, x)

    def where(self, cond, *args):
        cond = unwrap(cond)
        if not args:
            if has_sym(cond):
                cond = V.ctx().concrete_bools(_np.asarray(cond, dtype=object))
            return _np.where(cond)
        a, b = args
        a, b = unwrap(a), unwrap(b)
        if has_sym(cond):
            cond_o = _np.asarray(cond, dtype=object)
            a_b, b_b, c_b = _np.broadcast_arrays(_np.asarray(a, dtype=object), _np.asarray(b, dtype=object), cond_o)
            out = _np.empty(c_b.shape, dtype=object)
            for idx in _np.ndindex(*c_b.shape):
                out[idx] = _ite(c_b[idx], a_b[idx], b_b[idx])
            return out
        return _np.where(cond, a, b)

    def max(self, x, axis=None, **kw):
        if has_sym(x):
            return _fold(x, sym_max2, axis)
        return _np.max(normalise(x), axis=axis, **kw)

    amax = max

    def min(self, x, axis=None, **kw):
        if has_sym(x):
            return _fold(x, sym_min2, axis)
        return _np.min(normalise(x), axis=axis, **kw)

    amin = min

    def maximum(self, a, b, **kw):
        if has_sym(a) or has_sym(b):
            return _binary_map(sym_max2, a, b)
        return _np.maximum(a, b, **kw)

    def minimum(self, a, b, **kw):
        if has_sym(a) or has_sym(b):
            return _binary_map(sym_min2, a, b)
        return _np.minimum(a, b, **kw)

    def clip(self, a, lo, hi, **kw):
        if has_sym(a) or has_sym(lo) or has_sym(hi):
            r = unwrap(a)
            if lo is not None:
                r = _binary_map(sym_max2, r, lo)
            if hi is not None:
                r = _binary_map(sym_min2, r, hi)
            return r
        return _np.clip(a, lo, hi, **kw)

    def isclose(self, a, b, rtol=1e-05, atol=1e-08, **kw):
        if has_sym(a) or has_sym(b):
            return _binary_map(lambda x, y: builtins.abs(x - y) <= atol + rtol * builtins.abs(y), a, b)
        return _np.isclose(normalise(a), normalise(b), rtol=rtol, atol=atol, **kw)

    def allclose(self, a, b, rtol=1e-05, atol=1e-08, **kw):
        if has_sym(a) or has_sym(b):
            r = self.isclose(a, b, rtol=rtol, atol=atol)
            acc = True
            for e in _np.asarray(r, dtype=object).reshape(-1):
                acc = acc & e if not isinstance(acc, bool) or not isinstance(e, bool) else (acc and e)
            return acc
        return _np.allclose(normalise(a), normalise(b), rtol=rtol, atol=atol, **kw)


def _asbool(a):
    if isinstance(a, _np.ndarray) and a.dtype == object:
        return a.astype(bool)
    return a


def _binary_map(f2, a, b):
    a, b = unwrap(a), unwrap(b)
    if not isinstance(a, _np.ndarray) and not isinstance(b, _np.ndarray) and not isinstance(a, (list, tuple)) \
            and not isinstance(b, (list, tuple)):
        return f2(a, b)
    ab, bb = _np.broadcast_arrays(_np.asarray(a, dtype=object), _np.asarray(b, dtype=object))
    out = _np.empty(ab.shape, dtype=object)
    for idx in _np.ndindex(*ab.shape):
        out[idx] = f2(ab[idx], bb[idx])
    return out


# ---------------------------------------------------------------------------- builtins

class _IntMeta(type):
    def __instancecheck__(cls, x):
        return isinstance(x, builtins.int)

    def __subclasscheck__(cls, c):
        return issubclass(c, builtins.int)

    def __call__(cls, x=0, *a):
        if is_sym(x):
            return V.sym_int(x)
        return builtins.int(x, *a)


class SInt(metaclass=_IntMeta):
    pass


class _FloatMeta(type):
    def __instancecheck__(cls, x):
        return isinstance(x, builtins.float)

    def __subclasscheck__(cls, c):
        return issubclass(c, builtins.float)

    def __call__(cls, x=0.0):
        if is_sym(x):
            return V.sym_float(x)
        return builtins.float(x)


class SFloat(metaclass=_FloatMeta):
    pass


def s_abs(x):
    return builtins.abs(x)


def s_max(*a, **kw):
    if len(a) == 1:
        items = list(a[0])
    else:
        items = list(a)
    if kw or not any(is_sym(e) for e in items):
        return builtins.max(*a, **kw)
    r = items[0]
    for e in items[1:]:
        r = sym_max2(r, e)
    return r


def s_min(*a, **kw):
    if len(a) == 1:
        items = list(a[0])
    else:
        items = list(a)
    if kw or not any(is_sym(e) for e in items):
        return builtins.min(*a, **kw)
    r = items[0]
    for e in items[1:]:
        r = sym_min2(r, e)
    return r


def s_round(x, n=None):
    if is_sym(x):
        if n is not None:
            raise V.Unsupported("round(x, n) on a proxy")
        t = V.to_real_term(x)
        # python round = half to even; model: floor(x+1/2) except exact .5 ties -> even
        fl = z3.ToInt(t + z3.RealVal("1/2"))
        tie = z3.ToReal(fl) == t + z3.RealVal("1/2")
        return SymInt(z3.If(z3.And(tie, fl % 2 != 0), fl - 1, fl))
    return builtins.round(x) if n is None else builtins.round(x, n)


def s_type(*a):
    if len(a) == 1:
        t = builtins.type(a[0])
        if t is builtins.int:
            return SInt
        if t is builtins.float:
            return SFloat
        return t
    return builtins.type(*a)


class MathFacade:
    def __getattr__(self, name):
        return getattr(_math, name)

    def sqrt(self, x):
        if is_sym(x):
            return V.sym_float(x).sqrt()
        return _math.sqrt(x)


FACADE = NPFacade(_np)
MATH = MathFacade()

_installed = []


def install(extra_modules=()):
    """rebind np / builtins in every loaded autoarray module"""
    import autoarray  # noqa
    from autoarray import numpy_wrapper
    numpy_wrapper.numpy.jnp = FACADE
    for name, mod in list(sys.modules.items()):
        if mod is None or not (name == "autoarray" or name.startswith("autoarray.")):
            continue
        d = mod.__dict__
        if d.get("np") is _np:
            d["np"] = FACADE
            _installed.append(name)
        if d.get("math") is _math:
            d["math"] = MATH
        if name.startswith("autoarray.plot") or ".plot." in name:
            continue
        d["int"] = SInt
        d["float"] = SFloat
        d["max"] = s_max
        d["min"] = s_min
        d["round"] = s_round
        d["type"] = s_type
    return len(_installed)


class native:
    """context manager: run repo code with the facades passing through (for validation runs)"""

    def __enter__(self):
        self.old = ENABLED[0]
        ENABLED[0] = False

    def __exit__(self, *a):
        ENABLED[0] = self.old
