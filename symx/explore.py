"""Fork explorer: path exploration by re-execution (DFS over a decision stack),
feasibility and obligations decided by z3.  See DESIGN.md Appendix A."""
import time
from fractions import Fraction

import numpy as np
import z3

from . import values as V
from .values import SymBool, SymInt, SymReal


class PathAbort(BaseException):
    """current path is infeasible / cut (BaseException: must not be swallowed by `except Exception`)"""


class BoundExceeded(BaseException):
    pass


class Candidate:
    """a satisfying assignment of a negated obligation = candidate counterexample"""

    def __init__(self, name, case, known=None, detail=None):
        self.name = name
        self.case = case
        self.known = known
        self.detail = detail

    def as_dict(self):
        return {"obligation": self.name, "case": self.case, "known": self.known, "detail": self.detail}


def frac_to_py(fr):
    if isinstance(fr, Fraction):
        if fr.denominator == 1:
            return int(fr.numerator)
        return float(fr)
    return fr


class Stats:
    FIELDS = ("paths", "aborted", "queries", "decisions", "obligations", "discharged", "sat", "unknown",
              "feas_unknown", "validated", "validation_mismatch", "twins", "twins_sat",
              "cvc5_checked", "cvc5_agree", "cvc5_unknown", "cvc5_disagree")

    def __init__(self):
        for f in self.FIELDS:
            setattr(self, f, 0)
        self.solver_time = 0.0
        self.samples = []
        self.errors = []
        self.candidates = []

    def as_dict(self):
        d = {f: getattr(self, f) for f in self.FIELDS}
        d["solver_time"] = self.solver_time
        d["samples"] = self.samples
        d["errors"] = self.errors
        d["candidates"] = [c.as_dict() for c in self.candidates]
        return d


class Explorer:
    def __init__(self, timeout_ms=20000, max_paths=200000, max_decisions=5000, prefix=(),
                 logic=None, margin=None, max_candidates=3, sample_every=0):
        self.timeout_ms = timeout_ms
        self.max_paths = max_paths
        self.max_decisions = max_decisions
        self.prefix = tuple(prefix)
        self.logic = logic            # e.g. "QF_NRA": fresh non-incremental solver per query
        self.margin = margin          # decision margin (Fraction) for real comparisons, or None
        self.max_candidates = max_candidates
        import os as _os
        ce = _os.environ.get("SYMX_CVC5")
        self.crosscheck_every = int(ce) if ce else (97 if _os.environ.get("VERIF_TIER") == "thorough" else 499)
        self.stats = Stats()
        self.stack = []               # entries [taken, alt_pending, payload]
        self.inputs = {}              # name -> python structure of proxies (for model extraction)
        self.case_info = {}           # concrete description of current case (json-able)
        self._uf = {}
        self.fresh_solver_threshold = None

    # ------------------------------------------------------------------ solver plumbing
    def _new_solver(self):
        s = z3.SolverFor(self.logic) if self.logic else z3.Solver()
        s.set("timeout", self.timeout_ms)
        return s

    def _begin_path(self):
        self.solver = self._new_solver()
        self.constraints = []
        self._decided = {}
        self._decided_keep = []
        self._concretized = {}
        self._int_forks = 0
        self.defs = {}                # id of constraint term -> defined fresh variable (definitional extensions)
        self.groups = {}              # id of assumption term -> group key (assumptions only relevant to one obligation group)
        self.model = None
        self.pos = 0
        self._fresh = 0
        self._sqrt_cache = {}
        self.inputs = {}
        self.case_info = {}
        self.path_notes = []
        self._domain = []

    def _add(self, c):
        self.constraints.append(c)
        if not self.logic:
            self.solver.add(c)
        if self.model is not None:
            try:
                if not z3.is_true(self.model.eval(c, model_completion=True)):
                    self.model = None
            except z3.Z3Exception:
                self.model = None

    def _check(self, *extra):
        """check path condition plus extra terms; returns ('sat', model) / ('unsat', None) / ('unknown', None)"""
        t0 = time.time()
        self.stats.queries += 1
        if self.logic:
            s = self._new_solver()
            s.add(*self.constraints)
            s.add(*extra)
            r = s.check()
        else:
            s = self.solver
            if extra:
                s.push()
                s.add(*extra)
                r = s.check()
            else:
                r = s.check()
        res = str(r)
        m = None
        if res == "sat":
            m = s.model()
        if not self.logic and extra:
            s.pop()
        self.stats.solver_time += time.time() - t0
        return res, m

    def _free_vars(self, t, acc):
        todo = [t]
        seen = set()
        while todo:
            x = todo.pop()
            i = x.get_id()
            if i in seen:
                continue
            seen.add(i)
            if z3.is_const(x):
                if x.decl().kind() == z3.Z3_OP_UNINTERPRETED:
                    acc[i] = x
            else:
                todo.extend(x.children())
        return acc

    def _check_sliced(self, *extra, group=None):
        """same verdict as _check for unsat; drops definitional constraints (fresh sqrt variables) that the query
        does not mention - a conservative extension can always be dropped. 'sat' results are re-checked in full."""
        if len(self.defs) < 3 and not self.groups:
            return self._check(*extra)
        need = {}
        for e in extra:
            self._free_vars(e, need)
        defs = [(c, self.defs.get(c.get_id())) for c in self.constraints]
        changed = True
        used = set()
        while changed:
            changed = False
            for c, dv in defs:
                if dv is not None and c.get_id() not in used and dv.get_id() in need:
                    used.add(c.get_id())
                    self._free_vars(c, need)
                    changed = True
        t0 = time.time()
        self.stats.queries += 1
        s = self._new_solver()
        for c, dv in defs:
            if dv is None:
                cg = self.groups.get(c.get_id())
                if cg is None or cg == group:
                    s.add(c)
            elif c.get_id() in used:
                s.add(c)
        s.add(*extra)
        r = str(s.check())
        self.stats.solver_time += time.time() - t0
        if r == "unsat":
            return "unsat", None
        return self._check(*extra)

    def _sample_sat(self, extra, tries=24, seed=0):
        """'unknown' fallback for bug finding: pin most input variables to random small rationals (the query usually
        becomes linear) and re-solve with a short timeout.  Only ever turns unknown into sat (a candidate that is
        then replayed on the real code); it never contributes to a 'holds' verdict."""
        import random
        rnd = random.Random(seed)
        need = {}
        for e in extra:
            self._free_vars(e, need)
        for c in self.constraints:
            self._free_vars(c, need)
        defvars = {v.get_id() for v in self.defs.values()}
        cand = [v for i, v in need.items() if i not in defvars and z3.is_real(v)]
        if not cand:
            return "unknown", None
        vals = [z3.RealVal(x) for x in ("0", "1", "-1", "2", "1/2", "-1/2", "3/2", "1/3", "3", "-2", "5/4", "7/10", "1/4", "-3/4", "5", "1/10")]
        for k in range(tries):
            free = set(rnd.sample(range(len(cand)), min(len(cand), 1 + k % 3)))
            pins = [v == rnd.choice(vals) for j, v in enumerate(cand) if j not in free]
            s = z3.Solver()
            s.set("timeout", 4000)
            s.add(*self.constraints)
            s.add(*extra)
            s.add(*pins)
            t0 = time.time()
            r = str(s.check())
            self.stats.queries += 1
            self.stats.solver_time += time.time() - t0
            if r == "sat":
                return "sat", s.model()
        return "unknown", None

    def _retry_unknown(self, extra, group=None):
        """'unknown' (usually a wall-clock timeout under machine load; nlsat run times are heavy-tailed): retry with
        fresh solvers, other seeds / logics and longer timeouts.  Only ever replaces unknown by a definite z3 answer."""
        cons = []
        for c in self.constraints:
            cg = self.groups.get(c.get_id())
            if cg is None or cg == group:
                cons.append(c)
        ladder = [("QF_NRA", 0, 2), (None, 7, 2), ("QF_NRA", 13, 4), (None, 23, 6)]
        for logic, seed, mult in ladder:
            try:
                s = z3.SolverFor(logic) if logic else z3.Solver()
                s.set("timeout", int(self.timeout_ms * mult))
                if seed:
                    try:
                        s.set("random_seed", seed)
                    except z3.Z3Exception:
                        pass
                s.add(*cons)
                s.add(*extra)
                t0 = time.time()
                r = str(s.check())
                self.stats.queries += 1
                self.stats.solver_time += time.time() - t0
            except z3.Z3Exception:
                continue
            if r == "unsat":
                return "unsat", None
            if r == "sat":
                return "sat", s.model()
        return "unknown", None

    def _cvc5_crosscheck(self, extra, group=None):
        """second solver on a sample of discharged obligations (thorough tier / SYMX_CVC5=1): the same query is
        re-decided by cvc5; 'sat' from cvc5 where z3 said unsat is a harness error, unknown is only counted."""
        try:
            import cvc5
        except ImportError:
            return
        # the FULL constraint set: a verdict obtained from the group-sliced query also holds for the full set (more
        # constraints), while a verdict obtained only by the full re-check (sliced query sat) does not hold for the slice
        cons = list(self.constraints)
        zs = z3.Solver()
        zs.add(*cons)
        zs.add(*extra)
        smt2 = zs.to_smt2()
        if "(set-logic" not in smt2:
            smt2 = "(set-logic ALL)\n" + smt2
        self.stats.cvc5_checked += 1
        t0 = time.time()
        res = None
        try:
            tm = cvc5.TermManager()
            slv = cvc5.Solver(tm)
            slv.setOption("tlimit-per", "8000")
            ip = cvc5.InputParser(slv)
            ip.setStringInput(cvc5.InputLanguage.SMT_LIB_2_6, smt2, "q")
            sm = ip.getSymbolManager()
            while True:
                cmd = ip.nextCommand()
                if cmd.isNull():
                    break
                out = str(cmd.invoke(slv, sm)).strip()
                if out in ("sat", "unsat", "unknown"):
                    res = out
        except Exception as e:  # noqa   (parse problems etc. count as unknown)
            res = "unknown"
        self.stats.solver_time += time.time() - t0
        if res == "unsat":
            self.stats.cvc5_agree += 1
        elif res == "sat":
            self.stats.cvc5_disagree += 1
            self.stats.errors.append("cvc5 DISAGREES with z3 (z3 unsat, cvc5 sat) on an obligation of %s" % (self.case_info,))
        else:
            self.stats.cvc5_unknown += 1

    def _holds_in_model(self, c):
        if self.model is None:
            return None
        try:
            v = self.model.eval(c, model_completion=True)
        except z3.Z3Exception:
            return None
        if z3.is_true(v):
            return True
        if z3.is_false(v):
            return False
        return None

    def _ensure_model(self):
        if self.model is None:
            r, m = self._check()
            if r == "sat":
                self.model = m
            elif r == "unsat":
                raise PathAbort()
            else:
                self.stats.feas_unknown += 1
        return self.model

    # ------------------------------------------------------------------ branching
    def decide(self, c, payload_fn=None):
        if isinstance(c, bool):
            return c
        c = z3.simplify(c)
        if z3.is_true(c):
            return True
        if z3.is_false(c):
            return False
        use_memo = not getattr(self, "_skip_memo_once", False)      # (a flag, not a parameter: harnesses wrap decide)
        self._skip_memo_once = False
        hit = self._decided.get(c.get_id()) if use_memo else None
        if hit is not None:
            return hit          # the same condition was already decided on this path
        self.stats.decisions += 1
        if self.pos >= self.max_decisions:
            raise BoundExceeded("more than %d decisions on one path" % self.max_decisions)
        if self.pos < len(self.stack):
            taken = self.stack[self.pos][0]
            self.pos += 1
            self._add(c if taken else z3.Not(c))
            self._decided[c.get_id()] = taken
            self._decided_keep.append(c)
            return taken
        # new decision
        hm = self._holds_in_model(c)
        if hm is True:
            t_ok = True
            r, m = self._check(z3.Not(c))
            f_ok = r != "unsat"
            if r == "unknown":
                self.stats.feas_unknown += 1
            alt_model = m
        elif hm is False:
            f_ok = True
            r, m = self._check(c)
            t_ok = r != "unsat"
            if r == "unknown":
                self.stats.feas_unknown += 1
            alt_model = m
        else:
            r, m = self._check(c)
            t_ok = r != "unsat"
            if r == "unknown":
                self.stats.feas_unknown += 1
            if r == "sat":
                self.model = m
                hm = True
            r2, m2 = self._check(z3.Not(c))
            f_ok = r2 != "unsat"
            if r2 == "unknown":
                self.stats.feas_unknown += 1
            alt_model = m2
            if not t_ok and r2 == "sat":
                self.model = m2
                hm = False
        if not t_ok and not f_ok:
            raise PathAbort()
        both = t_ok and f_ok
        if both and self.forced < len(self.prefix):
            taken = self.prefix[self.forced]
            self.forced += 1
            self.stack.append([taken, False])
        else:
            taken = t_ok
            self.stack.append([taken, both])
        self.pos += 1
        # keep a model of the new path condition when we have one
        if hm is not None and (hm is True) != taken:
            self.model = alt_model
        self._add(c if taken else z3.Not(c))
        self._decided[c.get_id()] = taken
        self._decided_keep.append(c)
        return taken

    def concretize_int(self, t):
        t = z3.simplify(t)
        if z3.is_int_value(t):
            return t.as_long()
        done = self._concretized.get(t.get_id())
        if done is not None:
            return done[1]          # the same term was already concretised on this path
        while True:
            replaying = self.pos < len(self.stack)
            if replaying:
                if len(self.stack[self.pos]) <= 2:
                    raise BoundExceeded("non-deterministic re-execution (concretize_int met a plain decision entry)")
                v = self.stack[self.pos][2]
            else:
                m = self._ensure_model()
                if m is None:
                    raise BoundExceeded("cannot concretise index: solver unknown")
                v = m.eval(t, model_completion=True).as_long()
            p = self.pos
            # use_memo=False: every iteration must consume exactly one stack entry so that re-execution stays aligned
            self._skip_memo_once = True
            taken = self.decide(t == v)
            self._skip_memo_once = False
            if self.pos == p:
                # t == v simplified to a constant
                if taken:
                    break
                if replaying:
                    raise BoundExceeded("non-deterministic re-execution (concretize_int)")
                continue
            if not replaying and len(self.stack) > p and len(self.stack[p]) == 2:
                self.stack[p].append(v)
            if taken:
                break
        self._concretized[t.get_id()] = (t, v)
        return v

    def fork_bool(self, b):
        """concretise a SymBool / bool"""
        if isinstance(b, SymBool):
            return self.decide(b.t)
        return bool(b)

    def concrete_bools(self, arr):
        """fork every entry of a SymBool object array -> real numpy bool array"""
        out = np.zeros(arr.shape, dtype=bool)
        for idx in np.ndindex(*arr.shape):
            out[idx] = self.fork_bool(arr[idx])
        return out

    # ------------------------------------------------------------------ value services
    def fresh_real(self, hint="k"):
        self._fresh += 1
        return z3.Real("%s!%d" % (hint, self._fresh))

    def sqrt(self, t):
        t = z3.simplify(t)
        if z3.is_rational_value(t):
            fr = Fraction(t.numerator_as_long(), t.denominator_as_long())
            import math
            return np.float64(math.sqrt(fr))
        key = t.get_id()
        hit = self._sqrt_cache.get(key)
        if hit is not None:
            return SymReal(hit[1])
        r = self.fresh_real("sqrt")
        self._sqrt_cache[key] = (t, r)
        dc = z3.Implies(t >= 0, z3.And(r >= 0, r * r == t))
        self.defs[dc.get_id()] = r
        self._add(dc)
        self._domain.append(("sqrt-arg>=0", t >= 0))
        return SymReal(r)

    def ufunc(self, name, t):
        f = self._uf.get(name)
        if f is None:
            f = z3.Function("uf_" + name, z3.RealSort(), z3.RealSort())
            self._uf[name] = f
        return SymReal(f(t))

    def uf(self, name, arity):
        key = (name, arity)
        f = self._uf.get(key)
        if f is None:
            f = z3.Function(name, *([z3.RealSort()] * (arity + 1)))
            self._uf[key] = f
        return f

    def note_division(self, divisor_term):
        c = z3.simplify(divisor_term != 0)
        if z3.is_true(c):
            return
        if z3.is_false(c):
            raise V.NonFinite("division by a term that is identically zero")
        from . import merge as _m
        gcur = _m.CURRENT_GUARD[0]
        if gcur is not None and not z3.is_true(gcur):
            c = z3.Implies(gcur, c)
        self._add(c)
        self._domain.append(("divisor!=0", c))

    # ------------------------------------------------------------------ harness API
    def assume(self, c, group=None):
        """harness precondition (a z3 Bool / SymBool / bool); aborts the path if infeasible.
        group: the assumption only matters for obligations of that group (sliced away for other groups: sound, weaker)"""
        if isinstance(c, SymBool):
            c = c.t
        if isinstance(c, (bool, np.bool_)):
            if not c:
                raise PathAbort()
            return
        if group is not None:
            self.groups[c.get_id()] = group
        self._add(c)
        if self._holds_in_model(c) is not True:
            self.model = None

    def require_feasible(self):
        r, m = self._check()
        if r == "unsat":
            raise PathAbort()
        if r == "sat":
            self.model = m
        return r

    def set_inputs(self, **kw):
        self.inputs.update(kw)

    def set_case(self, **kw):
        self.case_info.update(kw)

    def model_value(self, m, x):
        """concrete python value of a proxy / structure under model m"""
        if isinstance(x, np.ndarray):
            if x.dtype == object:
                out = [self.model_value(m, e) for e in x.ravel()]
                return np.array(out, dtype=object).reshape(x.shape).tolist()
            return x.tolist()
        if isinstance(x, (list, tuple)):
            return [self.model_value(m, e) for e in x]
        if isinstance(x, dict):
            return {k: self.model_value(m, e) for k, e in x.items()}
        if isinstance(x, SymBool):
            return bool(z3.is_true(m.eval(x.t, model_completion=True)))
        if isinstance(x, SymInt):
            return m.eval(x.t, model_completion=True).as_long()
        if isinstance(x, SymReal):
            v = m.eval(x.t, model_completion=True)
            if z3.is_rational_value(v):
                return float(Fraction(v.numerator_as_long(), v.denominator_as_long()))
            if z3.is_algebraic_value(v):
                a = v.approx(20)
                return float(Fraction(a.numerator_as_long(), a.denominator_as_long()))
            raise ValueError("non-numeral model value %s" % v)
        if isinstance(x, (np.floating, float)):
            return float(x)
        if isinstance(x, (np.integer,)):
            return int(x)
        if isinstance(x, np.bool_):
            return bool(x)
        return x

    def case_from_model(self, m):
        case = dict(self.case_info)
        for k, v in self.inputs.items():
            case[k] = self.model_value(m, v)
        return case

    def check(self, name, ob, known=None, detail=None, group=None):
        """obligation `ob` (z3 Bool / SymBool / bool / list of those) must hold on this path for all values.
        known: optional dict finding_id -> region term (z3 Bool) of already recorded findings."""
        obs = ob if isinstance(ob, (list, tuple)) else [ob]
        terms = []
        for o in obs:
            if isinstance(o, SymBool):
                o = o.t
            if isinstance(o, (bool, np.bool_)):
                o = z3.BoolVal(bool(o))
            terms.append(o)
        t = z3.simplify(z3.And(*terms)) if len(terms) != 1 else z3.simplify(terms[0])
        self.stats.obligations += 1
        if z3.is_true(t):
            self.stats.discharged += 1
            return True
        if sum(1 for c in self.stats.candidates if c.known is None) >= self.max_candidates:
            # enough counterexample candidates in this case: do not spend solver time on further obligations
            self.stats.skipped = getattr(self.stats, "skipped", 0) + 1
            return False
        neg = z3.Not(t)
        regions = list((known or {}).items())
        extra = [neg] + [z3.Not(r) for _, r in regions]
        r, m = self._check_sliced(*extra, group=group)
        if r == "unknown":
            r, m = self._retry_unknown(extra, group=group)
        if r == "unknown":
            r, m = self._sample_sat(extra)
        ok = True
        if r == "sat":
            ok = False
            self.stats.sat += 1
            if sum(1 for c in self.stats.candidates if c.known is None) < self.max_candidates:
                self.stats.candidates.append(Candidate(name, self.case_from_model(m), None, detail))
        elif r == "unknown":
            ok = False
            self.stats.unknown += 1
            self.stats.errors.append("unknown: %s %s" % (name, self.case_info))
        for fid, reg in regions:
            r2, m2 = self._check_sliced(neg, reg, group=group)
            if r2 == "unknown":
                r2, m2 = self._retry_unknown([neg, reg], group=group)
            if r2 == "unknown":
                r2, m2 = self._sample_sat([neg, reg])
            if r2 == "sat":
                ok = False
                if sum(1 for c in self.stats.candidates if c.known == fid) < 2:
                    self.stats.candidates.append(Candidate(name, self.case_from_model(m2), fid, detail))
            elif r2 == "unknown":
                ok = False
                self.stats.unknown += 1
                self.stats.errors.append("unknown(known-region %s): %s" % (fid, name))
        if ok:
            self.stats.discharged += 1
            if self.crosscheck_every and (self.stats.discharged % self.crosscheck_every == 1 or self.crosscheck_every == 1):
                self._cvc5_crosscheck(extra, group=group)
        if len(self.stats.samples) < 4:
            self.stats.samples.append({"obligation": name, "case": dict(self.case_info),
                                       "verdict": "unsat" if ok else r, "smt_size": len(t.sexpr())})
        return ok

    def twin(self):
        """reachability twin: the path condition (assumptions + decisions + domain constraints) must be sat"""
        self.stats.twins += 1
        r, m = self._check()
        if r == "unknown":
            r, m = self._retry_unknown([])
        if r == "sat":
            self.stats.twins_sat += 1
            self.model = m
        return r, m

    # ------------------------------------------------------------------ main loop
    def explore(self, fn):
        """run fn(self) once per feasible path"""
        old = V._CTX[0]
        V._CTX[0] = self
        try:
            self.stack = []
            self.forced = 0
            while True:
                self._begin_path()
                try:
                    fn(self)
                    self.stats.paths += 1
                except PathAbort:
                    self.stats.aborted += 1
                if self.stats.paths + self.stats.aborted > self.max_paths:
                    raise BoundExceeded("more than %d paths" % self.max_paths)
                if sum(1 for c in self.stats.candidates if c.known is None) >= self.max_candidates:
                    # enough counterexample candidates for this case: stop exploring (they are replayed by the driver;
                    # this never happens on a tree where every obligation is discharged)
                    self.stats.errors.append("note: exploration of this case stopped early after %d counterexample candidates" % self.max_candidates) if False else None
                    self.stats.stopped_early = True
                    break
                # backtrack
                del self.stack[self.pos:]
                while self.stack and not self.stack[-1][1]:
                    self.stack.pop()
                if not self.stack:
                    break
                top = self.stack[-1]
                top[0] = not top[0]
                top[1] = False
        finally:
            V._CTX[0] = old
        return self.stats
