"""Merge interpreter (if-conversion): executes the *current source* of the repository's loop kernels
(numba subset) with predicated semantics so that one solver query covers every outcome of the
symbolic branches.  See DESIGN.md Appendix B.

  result = merge.run(func, *args, **kwargs)  ->  MergeResult(value, events)

A construct outside the supported subset raises values.Unsupported (never guessed).
"""
import ast
import builtins
import inspect
import textwrap

import numpy as np
import z3

from . import values as V
from . import shim
from .values import SymBool, SymInt, SymReal, is_sym, Unsupported

TRUE = z3.BoolVal(True)
FALSE = z3.BoolVal(False)

_SRC_CACHE = {}
STATS = {"functions": set(), "calls": 0}
CURRENT_GUARD = [None]


def _and(*xs):
    xs = [x for x in xs if x is not None and not z3.is_true(x)]
    for x in xs:
        if z3.is_false(x):
            return FALSE
    if not xs:
        return TRUE
    if len(xs) == 1:
        return xs[0]
    return z3.And(*xs)


def _or(a, b):
    if z3.is_false(a):
        return b
    if z3.is_false(b):
        return a
    if z3.is_true(a) or z3.is_true(b):
        return TRUE
    return z3.Or(a, b)


def _not(a):
    if z3.is_true(a):
        return FALSE
    if z3.is_false(a):
        return TRUE
    return z3.Not(a)


class CapArray(np.ndarray):
    """object array with a symbolic logical length along axis 0 (capacity = real shape[0])"""
    symlen = None

    def astype(self, dtype, *a, **kw):
        if self.dtype == object and shim.has_sym(np.asarray(self)):
            return sym_astype(self, dtype)
        return np.asarray(self).astype(dtype, *a, **kw)

    def __array_finalize__(self, obj):
        self.symlen = getattr(obj, "symlen", None) if obj is not None and getattr(obj, "shape", None) == self.shape else None


def sym_astype(arr, dtype):
    """astype on an object array holding proxies: element-wise symbolic conversion (no forking)"""
    kind = str(dtype)
    out = np.empty(arr.shape, dtype=object)
    fo, fi = out.reshape(-1), np.asarray(arr).reshape(-1)
    for i in range(fi.shape[0]):
        e = fi[i]
        if "int" in kind:
            fo[i] = e if isinstance(e, SymInt) else (V.sym_int(e) if is_sym(e) else int(e))
        elif "bool" in kind:
            fo[i] = (e != 0) if isinstance(e, (SymInt, SymReal)) else (e if isinstance(e, SymBool) else bool(e))
        else:
            fo[i] = V.sym_float(e) if is_sym(e) else float(e)
    out = out.view(CapArray)
    out.symlen = getattr(arr, "symlen", None)
    return out


def sym_shape(a):
    if isinstance(a, CapArray) and a.symlen is not None:
        return (a.symlen,) + tuple(a.shape[1:])
    return a.shape


class GuardedVec:
    """result of a slice with symbolic bounds: elements with membership guards"""

    def __init__(self, elems, guards):
        self.elems, self.guards = elems, guards

    def sum(self):
        acc = 0
        for e, g in zip(self.elems, self.guards):
            acc = acc + shim._ite(SymBool(g), e if not isinstance(e, (bool, np.bool_)) else int(e), 0)
        return acc


class MergeResult:
    def __init__(self, value, events):
        self.value = value
        self.events = events          # list of (z3 guard, exception name, message)

    def raised(self, name=None):
        """z3 Bool: some event (of that name) fires"""
        gs = [g for (g, n, _) in self.events if name is None or n == name]
        return z3.Or(*gs) if gs else FALSE


class _ReturnSig(Exception):
    pass


class _BreakSig(Exception):
    pass


class _ContinueSig(Exception):
    pass


def ibounds(x):
    """(lo, hi) integer bounds of a value or None"""
    if isinstance(x, (bool, np.bool_)):
        return (int(x), int(x))
    if isinstance(x, (int, np.integer)):
        return (int(x), int(x))
    if isinstance(x, SymInt):
        return getattr(x, "bounds", None)
    if isinstance(x, SymBool):
        return (0, 1)
    if isinstance(x, (float, np.floating)) and float(x).is_integer():
        return (int(x), int(x))
    return None


def with_bounds(x, b):
    if isinstance(x, SymInt) and b is not None:
        x.bounds = (int(b[0]), int(b[1]))
    return x


def merge_values(g, new, old):
    """ite(g, new, old) structurally"""
    if new is old:
        return old
    if isinstance(new, tuple) and isinstance(old, tuple) and len(new) == len(old):
        return tuple(merge_values(g, a, b) for a, b in zip(new, old))
    if isinstance(new, list) and isinstance(old, list) and len(new) == len(old):
        return [merge_values(g, a, b) for a, b in zip(new, old)]
    if isinstance(new, np.ndarray) and isinstance(old, np.ndarray):
        if new.shape != old.shape:
            raise Unsupported("merge of arrays with different shapes %s %s" % (new.shape, old.shape))
        out = np.empty(new.shape, dtype=object)
        fo, fn, fl = out.reshape(-1), new.reshape(-1), old.reshape(-1)
        for i in range(fn.shape[0]):
            fo[i] = merge_values(g, fn[i], fl[i])
        if isinstance(new, CapArray) or isinstance(old, CapArray):
            out = out.view(CapArray)
            ln, lo_ = sym_shape(new)[0], sym_shape(old)[0]
            out.symlen = merge_values(g, ln, lo_)
        return out
    if isinstance(new, np.ndarray) or isinstance(old, np.ndarray):
        raise Unsupported("merge of array and non-array")
    if new is None or old is None:
        if new is None and old is None:
            return None
        raise Unsupported("merge of None and a value")
    if not is_sym(new) and not is_sym(old):
        try:
            if type(new) == type(old) and new == old:
                return old
        except Exception:  # noqa
            pass
    if isinstance(new, (bool, np.bool_, SymBool)) and isinstance(old, (bool, np.bool_, SymBool)):
        return shim._ite(SymBool(g), new, old)
    if not isinstance(new, (bool, np.bool_, SymBool)) and not isinstance(old, (bool, np.bool_, SymBool)) \
            and (isinstance(new, (SymInt, int, np.integer)) or isinstance(old, (SymInt, int, np.integer))) \
            and (ibounds(new) is not None or isinstance(new, SymInt)) and (ibounds(old) is not None or isinstance(old, SymInt)):
        if isinstance(new, (float, np.floating)):
            new = int(new)
        if isinstance(old, (float, np.floating)):
            old = int(old)
    if isinstance(new, (int, np.integer, SymInt)) and isinstance(old, (int, np.integer, SymInt)) \
            and not isinstance(new, (bool, np.bool_)) and not isinstance(old, (bool, np.bool_)):
        r = shim._ite(SymBool(g), new, old)
        bn, bo = ibounds(new), ibounds(old)
        if bn is not None and bo is not None:
            with_bounds(r, (min(bn[0], bo[0]), max(bn[1], bo[1])))
        return r
    if (is_sym(new) or isinstance(new, (int, float, np.integer, np.floating, bool, np.bool_))) and \
            (is_sym(old) or isinstance(old, (int, float, np.integer, np.floating, bool, np.bool_))):
        r = shim._ite(SymBool(g), new, old)
        bn, bo = ibounds(new), ibounds(old)
        if isinstance(r, SymInt) and bn is not None and bo is not None:
            with_bounds(r, (min(bn[0], bo[0]), max(bn[1], bo[1])))
        return r
    raise Unsupported("cannot merge %r and %r" % (type(new), type(old)))


def _to_object(a):
    if a.dtype == object:
        return a
    out = np.empty(a.shape, dtype=object)
    fo, fa = out.reshape(-1), a.reshape(-1)
    for i in range(fa.shape[0]):
        fo[i] = fa[i]
    return out


class Frame:
    def __init__(self, func, env):
        self.func = func
        self.env = env
        self.globals = func.__globals__
        self.returned = FALSE
        self.retvals = []
        self.loops = []          # stack of dicts {broken: z3, cont: z3}


class Interp:
    def __init__(self, max_unroll=4096):
        self.events = []
        self.frames = []
        self.max_unroll = max_unroll

    # ------------------------------------------------------------------ function level
    def get_ast(self, func):
        func = inspect.unwrap(func)
        key = func.__code__
        hit = _SRC_CACHE.get(key)
        if hit is None:
            src = textwrap.dedent(inspect.getsource(func))
            tree = ast.parse(src)
            fd = tree.body[0]
            if not isinstance(fd, ast.FunctionDef):
                raise Unsupported("not a function definition: %r" % func)
            hit = fd
            _SRC_CACHE[key] = hit
        STATS["functions"].add("%s.%s" % (func.__module__, func.__qualname__))
        return hit

    def call_function(self, func, args, kwargs, guard):
        func = inspect.unwrap(func)
        fd = self.get_ast(func)
        STATS["calls"] += 1
        sig = inspect.signature(func)
        ba = sig.bind(*args, **kwargs)
        ba.apply_defaults()
        fr = Frame(func, dict(ba.arguments))
        self.frames.append(fr)
        try:
            try:
                self.exec_block(fd.body, guard)
            except _ReturnSig:
                pass
        finally:
            self.frames.pop()
        if not fr.retvals:
            return None
        # merge return values: later returns happen under guards disjoint from earlier ones
        (g0, v0) = fr.retvals[-1]
        res = v0
        for (g, v) in reversed(fr.retvals[:-1]):
            res = merge_values(g, v, res)
        return res

    # ------------------------------------------------------------------ guards
    def eff(self, g):
        fr = self.frames[-1]
        parts = [g, _not(fr.returned)]
        for lp in fr.loops:
            parts.append(_not(lp["broken"]))
        if fr.loops:
            parts.append(_not(fr.loops[-1]["cont"]))
        r = _and(*parts)
        if not (z3.is_true(r) or z3.is_false(r)):
            r = z3.simplify(r)
        return r

    def concrete_true(self, g):
        return z3.is_true(g)

    # ------------------------------------------------------------------ statements
    def exec_block(self, stmts, g):
        for st in stmts:
            ge = self.eff(g)
            if z3.is_false(ge):
                return
            self.exec_stmt(st, ge)

    def exec_stmt(self, st, g):
        CURRENT_GUARD[0] = g
        self.where = "%s:%d" % (self.frames[-1].func.__name__, getattr(st, "lineno", 0))
        m = getattr(self, "st_" + type(st).__name__, None)
        if m is None:
            raise Unsupported("statement %s" % type(st).__name__)
        m(st, g)

    def st_Pass(self, st, g):
        pass

    def st_Expr(self, st, g):
        self.ev(st.value, g)

    def st_Assign(self, st, g):
        v = self.ev(st.value, g)
        for t in st.targets:
            self.assign(t, v, g)

    def st_AnnAssign(self, st, g):
        if st.value is not None:
            self.assign(st.target, self.ev(st.value, g), g)

    def st_AugAssign(self, st, g):
        cur = self.ev(_load(st.target), g)
        v = self.binop(st.op, cur, self.ev(st.value, g))
        self.assign(st.target, v, g)

    def assign(self, target, v, g):
        fr = self.frames[-1]
        if isinstance(target, ast.Name):
            if z3.is_true(g) or target.id not in fr.env:
                fr.env[target.id] = v
            else:
                fr.env[target.id] = merge_values(g, v, fr.env[target.id])
        elif isinstance(target, (ast.Tuple, ast.List)):
            vals = list(v)
            if len(vals) != len(target.elts):
                raise Unsupported("unpack length")
            for t, x in zip(target.elts, vals):
                self.assign(t, x, g)
        elif isinstance(target, ast.Subscript):
            arr = self.ev(target.value, g)
            idx = self.ev_index(target.slice, g)
            self.store(target.value, arr, idx, v, g)
        else:
            raise Unsupported("assignment target %s" % type(target).__name__)

    def rebind(self, old, new):
        for fr in self.frames:
            for k, x in list(fr.env.items()):
                if x is old:
                    fr.env[k] = new

    def store(self, node, arr, idx, v, g):
        if not isinstance(arr, np.ndarray):
            if isinstance(arr, list) and isinstance(idx, int) and z3.is_true(g):
                arr[idx] = v
                return
            raise Unsupported("store into %s" % type(arr).__name__)
        idx_t = idx if isinstance(idx, tuple) else (idx,)
        sym_idx = any(isinstance(i, (SymInt, SymReal)) for i in idx_t)
        need_obj = is_sym(v) or shim.has_sym(v) or not z3.is_true(g) or sym_idx
        if need_obj and arr.dtype != object:
            new = _to_object(arr)
            if isinstance(arr, CapArray):
                new = new.view(CapArray)
                new.symlen = arr.symlen
            self.rebind(arr, new)
            arr = new
        if not sym_idx:
            if z3.is_true(g):
                arr[idx] = v
            else:
                old = arr[idx]
                if isinstance(old, np.ndarray):
                    vb = np.broadcast_to(np.asarray(v, dtype=object), old.shape)
                    arr[idx] = merge_values(g, np.array(vb, dtype=object), old)
                else:
                    arr[idx] = merge_values(g, v, old)
            return
        # symbolic index: enumerate candidate positions
        for pos, cond in self.index_candidates(arr, idx_t, g):
            old = arr[pos]
            gg = _and(g, cond)
            if isinstance(old, np.ndarray):
                vb = np.broadcast_to(np.asarray(v, dtype=object), old.shape)
                arr[pos] = merge_values(gg, np.array(vb, dtype=object), old)
            else:
                arr[pos] = merge_values(gg, v, old)

    def index_candidates(self, arr, idx_t, g):
        """yield (concrete index tuple, z3 condition) for an index tuple with symbolic int entries;
        records an IndexError event for the out-of-range region"""
        import itertools
        per_axis = []
        oob = []
        for ax, i in enumerate(idx_t):
            n = arr.shape[ax]
            if isinstance(i, SymReal):
                raise Unsupported("real-valued symbolic index")
            if isinstance(i, SymInt):
                b = ibounds(i)
                lo, hi = (b if b is not None else (-n, n - 1))
                cands = []
                for c in range(max(lo, -n), min(hi, n - 1) + 1):
                    cands.append((c if c >= 0 else c + n, i.t == c))
                per_axis.append(cands)
                if b is None or lo < -n or hi > n - 1:
                    oob.append(z3.Or(i.t < -n, i.t > n - 1))
            elif isinstance(i, slice):
                per_axis.append([(i, TRUE)])
            else:
                ii = int(i)
                if not (-n <= ii < n):
                    self.events.append((g, "IndexError", "index %d out of bounds for axis %d with size %d" % (ii, ax, n)))
                    return
                per_axis.append([(ii, TRUE)])
        if oob:
            self.events.append((_and(g, z3.Or(*oob)), "IndexError", "symbolic index out of bounds at " + self.where))
        for combo in itertools.product(*per_axis):
            pos = tuple(c[0] for c in combo)
            cond = _and(*[c[1] for c in combo])
            yield pos, cond

    def st_If(self, st, g):
        c = self.ev(st.test, g)
        c = self.truth(c)
        if isinstance(c, bool):
            self.exec_block(st.body if c else st.orelse, g)
            return
        self.exec_block(st.body, _and(g, c))
        if st.orelse:
            self.exec_block(st.orelse, _and(g, _not(c)))

    def truth(self, c):
        """python bool or z3 Bool"""
        if isinstance(c, SymBool):
            t = z3.simplify(c.t)
            if z3.is_true(t):
                return True
            if z3.is_false(t):
                return False
            return t
        if isinstance(c, (SymInt, SymReal)):
            return self.truth(c != 0)
        if isinstance(c, np.ndarray):
            if c.dtype == object and c.size == 1:
                return self.truth(c.reshape(-1)[0])
            return bool(c)
        return bool(c)

    def st_For(self, st, g):
        it = self.ev(st.iter, g)
        fr = self.frames[-1]
        items = self.iter_items(it, g)
        lp = {"broken": FALSE, "cont": FALSE}
        fr.loops.append(lp)
        try:
            count = 0
            for (item, ig) in items:
                count += 1
                if count > self.max_unroll:
                    raise Unsupported("loop unrolling beyond %d" % self.max_unroll)
                lp["cont"] = FALSE
                gi = _and(g, ig)
                ge = self.eff(gi)
                if z3.is_false(ge):
                    if z3.is_true(lp["broken"]) or z3.is_true(fr.returned):
                        break
                    continue
                self.assign(st.target, item, TRUE)      # loop targets are only read inside the (guarded) body
                try:
                    self.exec_block(st.body, gi)
                except _BreakSig:
                    break
                except _ContinueSig:
                    continue
        finally:
            fr.loops.pop()
        if st.orelse:
            raise Unsupported("for-else")

    def iter_items(self, it, g):
        """list of (item, z3 guard)"""
        if isinstance(it, _SymRange):
            out = []
            for i in range(it.lo_c, it.hi_c):
                cond = TRUE
                if it.start_t is not None:
                    cond = _and(cond, z3.IntVal(i) >= it.start_t)
                if it.stop_t is not None:
                    cond = _and(cond, z3.IntVal(i) < it.stop_t)
                out.append((i, cond))
            return out
        if isinstance(it, CapArray) and it.symlen is not None and isinstance(it.symlen, SymInt):
            return [(it[i], z3.IntVal(i) < it.symlen.t) for i in range(it.shape[0])]
        if isinstance(it, (range, list, tuple, np.ndarray, enumerate, zip)):
            return [(x, TRUE) for x in it]
        raise Unsupported("iteration over %s" % type(it).__name__)

    def st_Return(self, st, g):
        fr = self.frames[-1]
        v = self.ev(st.value, g) if st.value is not None else None
        fr.retvals.append((g, v))
        if z3.is_true(g):
            raise _ReturnSig()
        fr.returned = _or(fr.returned, g)

    def st_Break(self, st, g):
        lp = self.frames[-1].loops[-1]
        if z3.is_true(g):
            raise _BreakSig()
        lp["broken"] = _or(lp["broken"], g)

    def st_Continue(self, st, g):
        lp = self.frames[-1].loops[-1]
        if z3.is_true(g):
            raise _ContinueSig()
        lp["cont"] = _or(lp["cont"], g)

    def st_Raise(self, st, g):
        name, msg = "Exception", ""
        if st.exc is not None:
            e = st.exc
            if isinstance(e, ast.Call):
                name = _dotted(e.func).split(".")[-1]
            else:
                name = _dotted(e).split(".")[-1]
        if z3.is_true(g):
            exc = self.ev(st.exc, g) if st.exc is not None else Exception()
            self.events.append((g, name, msg))
            raise exc if isinstance(exc, BaseException) else exc()
        self.events.append((g, name, msg))
        fr = self.frames[-1]
        fr.returned = _or(fr.returned, g)      # nothing after a raise executes under g
        for f2 in self.frames[:-1]:
            f2.returned = _or(f2.returned, g)

    # ------------------------------------------------------------------ expressions
    def ev(self, node, g):
        m = getattr(self, "ex_" + type(node).__name__, None)
        if m is None:
            raise Unsupported("expression %s" % type(node).__name__)
        return m(node, g)

    def ex_Constant(self, node, g):
        return node.value

    def ex_Name(self, node, g):
        fr = self.frames[-1]
        if node.id in fr.env:
            return fr.env[node.id]
        if node.id in fr.globals:
            return fr.globals[node.id]
        if hasattr(builtins, node.id):
            return getattr(builtins, node.id)
        raise NameError(node.id)

    def ex_Tuple(self, node, g):
        return tuple(self.ev(e, g) for e in node.elts)

    def ex_List(self, node, g):
        return [self.ev(e, g) for e in node.elts]

    def ex_Attribute(self, node, g):
        v = self.ev(node.value, g)
        if node.attr == "shape" and isinstance(v, CapArray):
            return sym_shape(v)
        return getattr(v, node.attr)

    def ex_UnaryOp(self, node, g):
        v = self.ev(node.operand, g)
        if isinstance(node.op, ast.Not):
            if isinstance(v, SymBool):
                return ~v
            if isinstance(v, (SymInt, SymReal)):
                return v == 0
            if isinstance(v, np.ndarray) and v.dtype == object and v.size == 1:
                e = v.reshape(-1)[0]
                return ~e if isinstance(e, SymBool) else (not e)
            return not v
        if isinstance(node.op, ast.USub):
            return -v
        if isinstance(node.op, ast.UAdd):
            return +v
        if isinstance(node.op, ast.Invert):
            return ~v
        raise Unsupported("unary op")

    def binop(self, op, a, b):
        import operator as o
        table = {ast.Add: o.add, ast.Sub: o.sub, ast.Mult: o.mul, ast.Div: o.truediv, ast.FloorDiv: o.floordiv,
                 ast.Mod: o.mod, ast.Pow: o.pow, ast.BitAnd: o.and_, ast.BitOr: o.or_, ast.BitXor: o.xor, ast.MatMult: o.matmul}
        f = table.get(type(op))
        if f is None:
            raise Unsupported("binary op %s" % type(op).__name__)
        r = f(a, b)
        if isinstance(r, SymInt):
            ba, bb = ibounds(a), ibounds(b)
            if ba is not None and bb is not None:
                if isinstance(op, ast.Add):
                    with_bounds(r, (ba[0] + bb[0], ba[1] + bb[1]))
                elif isinstance(op, ast.Sub):
                    with_bounds(r, (ba[0] - bb[1], ba[1] - bb[0]))
                elif isinstance(op, ast.Mult):
                    ps = [x * y for x in ba for y in bb]
                    with_bounds(r, (min(ps), max(ps)))
        return r

    def ex_BinOp(self, node, g):
        return self.binop(node.op, self.ev(node.left, g), self.ev(node.right, g))

    def ex_BoolOp(self, node, g):
        is_and = isinstance(node.op, ast.And)
        acc = None          # z3 term accumulated so far (None = neutral)
        gg = g
        last = None
        for e in node.values:
            v = self.ev(e, gg)
            last = v
            t = self.truth(v) if not isinstance(v, (bool, np.bool_)) else bool(v)
            if isinstance(t, bool):
                if is_and and not t:
                    return False
                if (not is_and) and t:
                    return True
                continue
            acc = t if acc is None else (z3.And(acc, t) if is_and else z3.Or(acc, t))
            gg = _and(gg, t if is_and else _not(t))
        if acc is None:
            return True if is_and else False
        return SymBool(acc)

    def ex_Compare(self, node, g):
        import operator as o
        table = {ast.Lt: o.lt, ast.LtE: o.le, ast.Gt: o.gt, ast.GtE: o.ge, ast.Eq: o.eq, ast.NotEq: o.ne,
                 ast.Is: lambda a, b: a is b, ast.IsNot: lambda a, b: a is not b,
                 ast.In: lambda a, b: a in b, ast.NotIn: lambda a, b: a not in b}
        left = self.ev(node.left, g)
        acc = None
        for op, rn in zip(node.ops, node.comparators):
            right = self.ev(rn, g)
            r = table[type(op)](left, right)
            if isinstance(r, np.ndarray) and r.size == 1:
                r = r.reshape(-1)[0]
            if acc is None:
                acc = r
            else:
                if isinstance(acc, (bool, np.bool_)) and isinstance(r, (bool, np.bool_)):
                    acc = bool(acc) and bool(r)
                else:
                    acc = acc & r
            left = right
        return acc

    def ex_IfExp(self, node, g):
        c = self.truth(self.ev(node.test, g))
        if isinstance(c, bool):
            return self.ev(node.body if c else node.orelse, g)
        a = self.ev(node.body, _and(g, c))
        b = self.ev(node.orelse, _and(g, _not(c)))
        return merge_values(c, a, b)

    def ev_index(self, sl, g):
        if isinstance(sl, ast.Tuple):
            return tuple(self.ev_index(e, g) for e in sl.elts)
        if isinstance(sl, ast.Slice):
            lo = self.ev(sl.lower, g) if sl.lower is not None else None
            hi = self.ev(sl.upper, g) if sl.upper is not None else None
            st = self.ev(sl.step, g) if sl.step is not None else None
            if any(isinstance(x, (SymInt,)) for x in (lo, hi, st)):
                return _SymSlice(lo, hi, st)
            return slice(lo, hi, st)
        v = self.ev(sl, g)
        if isinstance(v, (float, np.floating)) and float(v).is_integer():
            return v
        return v

    def ex_Subscript(self, node, g):
        arr = self.ev(node.value, g)
        idx = self.ev_index(node.slice, g)
        return self.load(arr, idx, g)

    def load(self, arr, idx, g):
        if isinstance(arr, tuple) and isinstance(idx, SymInt):
            arr = np.array(arr, dtype=object)
        if isinstance(arr, (tuple, list)) and not isinstance(idx, tuple):
            if isinstance(idx, (float, np.floating)):
                idx = int(idx)
            return arr[idx]
        if not isinstance(arr, np.ndarray):
            return arr[idx]
        idx_t = idx if isinstance(idx, tuple) else (idx,)
        if any(isinstance(i, _SymSlice) for i in idx_t):
            return self.load_symslice(arr, idx_t, g)
        if any(isinstance(i, SymReal) for i in idx_t):
            raise Unsupported("real-valued symbolic index")
        if not any(isinstance(i, SymInt) for i in idx_t):
            idx_c = tuple(int(i) if isinstance(i, (float, np.floating)) else i for i in idx_t)
            try:
                r = arr[idx_c if isinstance(idx, tuple) else idx_c[0]]
            except IndexError as e:
                self.events.append((g, "IndexError", str(e)))
                if z3.is_true(g):
                    raise
                return 0
            if isinstance(arr, CapArray) and isinstance(r, np.ndarray) and r.shape == arr.shape:
                pass
            return r
        res = None
        for pos, cond in self.index_candidates(arr, idx_t, g):
            v = arr[pos]
            res = v if res is None else merge_values(cond, v, res)
        if res is None:
            return 0
        return res

    def load_symslice(self, arr, idx_t, g):
        # exactly one symbolic slice; other entries concrete ints or symbolic ints
        ax = [k for k, i in enumerate(idx_t) if isinstance(i, _SymSlice)]
        if len(ax) != 1:
            raise Unsupported("more than one symbolic slice")
        ax = ax[0]
        ss = idx_t[ax]
        if ss.step is not None:
            raise Unsupported("symbolic slice with step")
        n = arr.shape[ax]
        elems, guards = [], []
        for c in range(n):
            cond = TRUE
            if ss.lo is not None:
                cond = _and(cond, V.to_int_term(ss.lo) <= c)
            if ss.hi is not None:
                cond = _and(cond, z3.IntVal(c) < V.to_int_term(ss.hi))
            if z3.is_false(z3.simplify(cond)):
                continue
            idx2 = tuple(c if k == ax else i for k, i in enumerate(idx_t))
            e = self.load(arr, idx2 if len(idx2) > 1 else idx2[0], g)
            elems.append(e)
            guards.append(cond)
        return GuardedVec(elems, guards)

    def ex_Call(self, node, g):
        f = self.ev(node.func, g)
        args = []
        for a in node.args:
            if isinstance(a, ast.Starred):
                args.extend(self.ev(a.value, g))
            else:
                args.append(self.ev(a, g))
        kwargs = {}
        for k in node.keywords:
            if k.arg is None:
                kwargs.update(self.ev(k.value, g))
            else:
                kwargs[k.arg] = self.ev(k.value, g)
        return self.call(f, args, kwargs, g)

    def call(self, f, args, kwargs, g):
        real = getattr(f, "__wrapped_kernel__", f)
        # builtins with symbolic models
        if f is builtins.range or f is range:
            return self.mk_range(args)
        if f is builtins.len:
            a = args[0]
            if isinstance(a, CapArray) and a.symlen is not None:
                return a.symlen
            return len(a)
        if f in (builtins.int, shim.SInt):
            x = args[0]
            if isinstance(x, np.ndarray) and x.size == 1:
                x = x.reshape(-1)[0]
            r = V.sym_int(x) if is_sym(x) else int(x)
            if isinstance(x, SymInt):
                return x
            return r
        if f in (builtins.float, shim.SFloat):
            x = args[0]
            if isinstance(x, np.ndarray) and x.size == 1:
                x = x.reshape(-1)[0]
            return V.sym_float(x) if is_sym(x) else float(x)
        if f is builtins.abs:
            return abs(args[0])
        if f in (builtins.max, shim.s_max):
            return shim.s_max(*args, **kwargs)
        if f in (builtins.min, shim.s_min):
            return shim.s_min(*args, **kwargs)
        if f is builtins.isinstance or f is builtins.print:
            return f(*args, **kwargs)
        owner0 = getattr(f, "__self__", None)
        if isinstance(owner0, np.ndarray) and getattr(f, "__name__", "") == "astype" and owner0.dtype == object and shim.has_sym(owner0):
            return sym_astype(owner0, args[0] if args else kwargs.get("dtype", "float"))
        mod = getattr(real, "__module__", "") or ""
        if inspect.isfunction(real) and real in STUBS:
            return STUBS[real](*args, **kwargs)
        if inspect.isfunction(real) and mod.startswith("autoarray"):
            return self.call_function(real, args, kwargs, g)
        # numpy facade functions with merge models
        name = getattr(f, "__name__", "")
        owner = getattr(f, "__self__", None)
        if owner is shim.FACADE or getattr(f, "__module__", "") == "numpy" or isinstance(f, np.ufunc):
            r = self.np_call(name, f, args, kwargs, g)
            if r is not NotImplemented:
                return r
        if isinstance(f, type) and issubclass(f, BaseException):
            return f(*args, **kwargs)
        return f(*args, **kwargs)

    def mk_range(self, args):
        if not any(isinstance(a, SymInt) for a in args):
            return range(*[int(a) for a in args])
        if len(args) == 1:
            start, stop = 0, args[0]
        elif len(args) == 2:
            start, stop = args
        else:
            raise Unsupported("range with symbolic step")
        bs, be = ibounds(start), ibounds(stop)
        if bs is None or be is None:
            raise Unsupported("range over an unbounded symbolic integer")
        return _SymRange(bs[0], be[1], V.to_int_term(start) if isinstance(start, SymInt) else None,
                         V.to_int_term(stop) if isinstance(stop, SymInt) else None)

    def np_call(self, name, f, args, kwargs, g):
        if name in ("zeros", "ones", "empty", "full"):
            shape = kwargs.get("shape", args[0] if args else None)
            shp = shape if isinstance(shape, (tuple, list)) else (shape,)
            if any(isinstance(s, SymInt) for s in shp):
                if isinstance(shp[0], SymInt) and not any(isinstance(s, SymInt) for s in shp[1:]):
                    b = ibounds(shp[0])
                    if b is None:
                        raise Unsupported("allocation with unbounded symbolic size")
                    cap = (max(b[1], 0),) + tuple(int(s) for s in shp[1:])
                    fill = {"zeros": np.float64(0.0), "ones": np.float64(1.0), "empty": np.float64(0.0)}.get(name)
                    if name == "full":
                        fill = kwargs.get("fill_value", args[1] if len(args) > 1 else 0.0)
                    a = shim.obj_full(cap, fill).view(CapArray)
                    a.symlen = shp[0]
                    return a
                raise Unsupported("symbolic size on a non-leading axis")
            return NotImplemented
        if name == "sum" and args and isinstance(args[0], GuardedVec):
            return args[0].sum()
        if name == "sum" and args and isinstance(args[0], np.ndarray) and args[0].dtype == object and not kwargs and len(args) == 1:
            acc = 0
            for e in args[0].reshape(-1):
                acc = acc + (e if not isinstance(e, (bool, np.bool_)) else int(e))
            return acc
        return NotImplemented


class _SymRange:
    def __init__(self, lo_c, hi_c, start_t, stop_t):
        self.lo_c, self.hi_c, self.start_t, self.stop_t = lo_c, hi_c, start_t, stop_t


class _SymSlice:
    def __init__(self, lo, hi, step):
        self.lo, self.hi, self.step = lo, hi, step


def _load(target):
    import copy
    t = copy.copy(target)
    t.ctx = ast.Load()
    return t


def _dotted(node):
    if isinstance(node, ast.Name):
        return node.id
    if isinstance(node, ast.Attribute):
        return _dotted(node.value) + "." + node.attr
    return "?"


def run(func, *args, **kwargs):
    """interpret func(*args, **kwargs) with predicated semantics under guard True"""
    it = Interp()
    old = CURRENT_GUARD[0]
    try:
        v = it.call_function(getattr(func, "__wrapped_kernel__", func), args, kwargs, TRUE)
    finally:
        CURRENT_GUARD[0] = old
    return MergeResult(v, it.events)


# ---------------------------------------------------------------------------- dispatcher

STUBS = {}        # real kernel function -> replacement used inside merged runs (compositional checks)
MODE = ["fork"]   # "merge": kernels called with proxy arguments go through the interpreter


def _jit_kernels(mod):
    """names of module-level functions decorated with @numba_util.jit() (from the module's source)"""
    try:
        tree = ast.parse(inspect.getsource(mod))
    except (OSError, TypeError, SyntaxError):
        return []
    out = []
    for n in tree.body:
        if isinstance(n, ast.FunctionDef):
            for d in n.decorator_list:
                if "jit" in ast.dump(d):
                    out.append(n.name)
    return out


def install_dispatchers():
    import sys
    n = 0
    for name, mod in list(sys.modules.items()):
        if mod is None or not name.startswith("autoarray."):
            continue
        for fn in _jit_kernels(mod):
            f = mod.__dict__.get(fn)
            if not inspect.isfunction(f) or hasattr(f, "__wrapped_kernel__"):
                continue
            mod.__dict__[fn] = _make_dispatcher(f)
            n += 1
    return n


def _make_dispatcher(f):
    import functools

    @functools.wraps(f)
    def disp(*args, **kwargs):
        if MODE[0] == "merge" and (any(shim.has_sym(a) for a in args) or any(shim.has_sym(a) for a in kwargs.values())):
            r = run(f, *args, **kwargs)
            if r.events:
                LAST_EVENTS.extend(r.events)
            v = r.value
            if isinstance(v, np.ndarray) and v.dtype == object and not isinstance(v, CapArray):
                v = v.view(CapArray)
            return v
        return f(*args, **kwargs)

    disp.__wrapped_kernel__ = f
    try:
        del disp.__wrapped__
    except AttributeError:
        pass
    return disp


LAST_EVENTS = []


class merging:
    def __enter__(self):
        self.old = MODE[0]
        MODE[0] = "merge"
        del LAST_EVENTS[:]
        return LAST_EVENTS

    def __exit__(self, *a):
        MODE[0] = self.old
