"""Check driver: runs a harness' cases over a process pool, replays candidates on the
un-shimmed repository code, applies the known-findings protocol, writes evidence."""
import hashlib
import importlib
import inspect
import json
import multiprocessing as mp
import os
import sys
import time
import traceback

ROOT = os.path.dirname(os.path.dirname(os.path.abspath(__file__)))
EXIT_OK, EXIT_VIOLATION, EXIT_HARNESS = 0, 1, 3

_H = {}


def _worker_init(harness_name):
    import warnings
    warnings.filterwarnings("ignore")
    import numpy as np
    np.seterr(all="ignore")
    h = importlib.import_module("harness." + harness_name)
    from symx import shim
    if getattr(h, "PRE_INSTALL", None):
        h.PRE_INSTALL()
    shim.install()
    if getattr(h, "POST_INSTALL", None):
        h.POST_INSTALL()
    _H["h"] = h


def _run_case(task):
    idx, fname, kwargs, opts = task
    from symx.explore import Explorer, BoundExceeded
    h = _H["h"]
    fn = getattr(h, fname)
    ex = Explorer(**opts)
    t0 = time.time()
    err = None
    try:
        ex.explore(lambda c: fn(c, **kwargs))
    except BaseException as e:  # noqa
        err = "%s: %s\n%s" % (type(e).__name__, e, traceback.format_exc(limit=12))
    d = ex.stats.as_dict()
    d["wall"] = time.time() - t0
    d["case"] = [fname, kwargs]
    d["prefix"] = list(opts.get("prefix", ()))
    if err:
        d["errors"].append(err)
    return idx, d


def _replay_worker(args):
    harness_name, cand = args
    import warnings
    warnings.filterwarnings("ignore")
    h = importlib.import_module("harness." + harness_name)
    if getattr(h, "PRE_INSTALL", None):
        h.PRE_INSTALL()
    try:
        ok, detail = h.replay(cand)
        return bool(ok), str(detail)
    except BaseException as e:  # noqa
        return None, "replay error %s: %s\n%s" % (type(e).__name__, e, traceback.format_exc(limit=8))


def source_hashes(names):
    out = []
    for dotted in names:
        modname, _, attr = dotted.rpartition(".")
        try:
            try:
                mod = importlib.import_module(modname)
                obj = getattr(mod, attr)
            except (ImportError, AttributeError):
                m2, _, cls = modname.rpartition(".")
                obj = getattr(getattr(importlib.import_module(m2), cls), attr)
            obj = getattr(obj, "fget", obj)
            obj = getattr(obj, "func", obj)
            obj = inspect.unwrap(obj)
            src = inspect.getsource(obj)
            out.append({"name": dotted, "file": os.path.relpath(inspect.getsourcefile(obj), "/repo"),
                        "sha256": hashlib.sha256(src.encode()).hexdigest()[:16]})
        except Exception as e:  # noqa
            out.append({"name": dotted, "error": "%s: %s" % (type(e).__name__, e)})
    return out


def _cvc5_version():
    try:
        import cvc5
        return getattr(cvc5, "__version__", "1.x")
    except ImportError:
        return None


def load_known(prop):
    """committed known-findings: known_findings.json plus per-property files known_findings.d/<ID>.json"""
    out = {}
    files = [os.path.join(ROOT, "known_findings.json")]
    d = os.path.join(ROOT, "known_findings.d")
    if os.path.isdir(d):
        files += [os.path.join(d, f) for f in sorted(os.listdir(d)) if f.endswith(".json")]
    for p in files:
        if not os.path.exists(p):
            continue
        data = json.load(open(p))
        for f in data.get("findings", []):
            if f.get("property") == prop:
                out[f["id"]] = f
    return out


def run_check(harness_name, tier, seed=0, jobs=None, only=None):
    t_start = time.time()
    os.environ["VERIF_TIER"] = tier
    h = importlib.import_module("harness." + harness_name)
    prop = h.PROPERTY
    known_all = load_known(prop)
    known_ids = sorted(k for k, f in known_all.items() if f.get("status") == "known")
    os.environ["VERIF_KNOWN"] = ",".join(known_ids)
    cases = h.cases(tier)
    if only:
        cases = [c for c in cases if only in c[0] or only in json.dumps(c[1])]
    default_opts = dict(getattr(h, "EXPLORER_OPTS", {}))
    tasks = []
    for i, c in enumerate(cases):
        fname, kwargs = c[0], c[1]
        opts = dict(default_opts)
        if len(c) > 2 and c[2]:
            opts.update(c[2])
        split = opts.pop("split", 0)
        if split:
            import itertools
            for pre in itertools.product((False, True), repeat=split):
                o2 = dict(opts)
                o2["prefix"] = pre
                tasks.append((len(tasks), fname, kwargs, o2))
        else:
            tasks.append((len(tasks), fname, kwargs, opts))
    jobs = jobs or min(16, os.cpu_count() or 4, max(1, len(tasks)))
    budget = getattr(h, "BUDGET_S", {}).get(tier, 3000)
    ctxm = mp.get_context("fork")
    results = {}
    harness_errors = []
    with ctxm.Pool(jobs, initializer=_worker_init, initargs=(harness_name,), maxtasksperchild=getattr(h, "MAXTASKS", None)) as pool:
        it = pool.imap_unordered(_run_case, tasks)
        while len(results) < len(tasks):
            remaining = budget - (time.time() - t_start)
            if remaining <= 0:
                harness_errors.append("budget of %ds exhausted with %d/%d cases done" % (budget, len(results), len(tasks)))
                pool.terminate()
                break
            try:
                idx, d = it.next(timeout=remaining)
            except mp.TimeoutError:
                harness_errors.append("budget of %ds exhausted with %d/%d cases done" % (budget, len(results), len(tasks)))
                pool.terminate()
                break
            results[idx] = d
            if os.environ.get("SYMX_VERBOSE"):
                print("  done %s %s wall=%.1fs paths=%d sat=%d unknown=%d" % (d["case"][0], json.dumps(d["case"][1])[:150], d["wall"], d["paths"], d["sat"], d["unknown"]), flush=True)

    agg = {k: 0 for k in ("paths", "aborted", "queries", "decisions", "obligations", "discharged", "sat", "unknown",
                          "feas_unknown", "validated", "validation_mismatch", "twins", "twins_sat",
                          "cvc5_checked", "cvc5_agree", "cvc5_unknown", "cvc5_disagree")}
    solver_time = 0.0
    samples, candidates, case_rows = [], [], []
    for idx in sorted(results):
        d = results[idx]
        for k in agg:
            agg[k] += d[k]
        solver_time += d["solver_time"]
        for s in d["samples"]:
            if len(samples) < 12:
                samples.append(s)
        for c in d["candidates"]:
            c["case_fn"] = d["case"][0]
            c["case_kwargs"] = d["case"][1]
            candidates.append(c)
        for e in d["errors"]:
            harness_errors.append("case %s %s: %s" % (d["case"][0], json.dumps(d["case"][1]), e))
        case_rows.append({"case": d["case"], "paths": d["paths"], "obligations": d["obligations"],
                          "discharged": d["discharged"], "queries": d["queries"], "wall_s": round(d["wall"], 2)})
        if d["paths"] == 0 and not d["errors"] and not d.get("prefix"):
            harness_errors.append("case %s %s: no path reached the obligations (vacuous)" % (d["case"][0], json.dumps(d["case"][1])))
    n_unknown_cands = sum(1 for c in candidates if c["known"] is None)
    if agg["sat"] > 0 and n_unknown_cands == 0:
        harness_errors.append("%d obligations were sat but no counterexample candidate was recorded" % agg["sat"])
    if agg["twins"] != agg["twins_sat"]:
        harness_errors.append("reachability twins: %d of %d not sat" % (agg["twins"] - agg["twins_sat"], agg["twins"]))
    if agg["validation_mismatch"]:
        harness_errors.append("encoding validation mismatches: %d" % agg["validation_mismatch"])

    # ---- replay candidates on the untouched code (fresh process, no shim)
    violations, known_confirmed, mismatches = [], {}, []
    seen = set()
    os.makedirs(os.path.join(ROOT, "replays"), exist_ok=True)
    rp = ctxm.Pool(1, maxtasksperchild=1)
    max_replay = getattr(h, "MAX_REPLAY", 8)
    n_replayed = 0
    for c in candidates:
        key = (c["obligation"], c["known"], c["case_fn"])
        if key in seen and c["known"] is None and n_replayed >= max_replay:
            continue
        if c["known"] is not None and c["known"] in known_confirmed:
            continue
        seen.add(key)
        n_replayed += 1
        cand = {"property": prop, "harness": harness_name, "obligation": c["obligation"], "case_fn": c["case_fn"],
                "case_kwargs": c["case_kwargs"], "case": c["case"], "known": c["known"], "detail": c["detail"]}
        try:
            ok, detail = rp.apply_async(_replay_worker, ((harness_name, cand),)).get(timeout=600)
        except Exception as e:  # noqa
            ok, detail = None, "replay crashed: %r" % (e,)
        cand["replay_detail"] = detail
        if ok is True:
            if c["known"] is not None:
                known_confirmed[c["known"]] = cand
            else:
                path = os.path.join(ROOT, "replays", "%s_%d.json" % (prop, len(violations)))
                json.dump(cand, open(path, "w"), indent=1, default=str)
                cand["path"] = path
                violations.append(cand)
        else:
            mismatches.append(cand)
    rp.terminate()

    for fid, cand in known_confirmed.items():
        print("KNOWN-FINDING: property=%s %s: %s [%s]" % (prop, fid, known_all[fid].get("what", ""), cand["replay_detail"][:200]))
    for v in violations:
        print("VIOLATION property=%s replay=%s" % (prop, v["path"]))
        print("  obligation: %s\n  detail: %s" % (v["obligation"], v["replay_detail"][:600]))
    for mm in mismatches:
        if mm["known"] is None:
            harness_errors.append("ENCODING-MISMATCH: solver model for '%s' did not reproduce on the real code: %s | case=%s"
                                  % (mm["obligation"], mm["replay_detail"][:400], json.dumps(mm["case"], default=str)[:600]))
        else:
            harness_errors.append("known-finding region %s: solver model did not reproduce: %s" % (mm["known"], mm["replay_detail"][:300]))

    wall = time.time() - t_start
    import z3
    ev = {
        "property_id": prop, "tier": tier, "seed": int(seed), "level": "model_checking",
        "coverage": {
            "states": agg["paths"], "transitions": agg["queries"],
            "traces_validated_against_impl": agg["validated"],
            "samples": samples or [{"note": "no obligation reached"}],
            "obligations": agg["obligations"], "discharged": agg["discharged"],
            "sat_obligations": agg["sat"], "unknown_obligations": agg["unknown"],
            "feasibility_unknown_assumed_feasible": agg["feas_unknown"],
            "aborted_infeasible_paths": agg["aborted"],
            "decisions": agg["decisions"],
            "reachability_twins": {"checked": agg["twins"], "sat": agg["twins_sat"]},
            "solver_time_s": round(solver_time, 2),
            "solver_versions": {"z3": z3.get_version_string(), "cvc5": _cvc5_version()},
            "second_solver_crosscheck": {"obligations_rechecked_with_cvc5": agg["cvc5_checked"], "agree_unsat": agg["cvc5_agree"],
                                         "cvc5_unknown_or_timeout": agg["cvc5_unknown"], "disagree": agg["cvc5_disagree"],
                                         "policy": "every 499th (quick) / 97th (thorough) discharged obligation of each case is re-decided by cvc5 1.4 (SYMX_CVC5=<n> overrides); a cvc5 'sat' against a z3 'unsat' is a harness error"},
            "functions_encoded": source_hashes(getattr(h, "FUNCTIONS", [])),
            "bounds": getattr(h, "BOUNDS", {}).get(tier, "") + ((" || " + h.BOUNDS["merged"]) if "merged" in getattr(h, "BOUNDS", {}) else ""),
            "outside_bounds": getattr(h, "OUTSIDE", []),
            "stubs": getattr(h, "STUBS", []),
            "cases": case_rows if len(case_rows) <= 400 else case_rows[:400],
            "cases_total": len(tasks), "cases_completed": len(results),
            "known_findings_confirmed": sorted(known_confirmed),
            "candidates_replayed": n_replayed,
            "harness_errors": harness_errors[:20],
            "exhaustive": False,
        },
        "assumptions": ["float64 arithmetic modelled as exact real arithmetic (every sat verdict is replayed in float64 on the untouched code)"]
                       + list(getattr(h, "ASSUMPTIONS", [])),
        "wall_s": round(wall, 2),
        "violations": len(violations),
    }
    evdir = os.environ.get("SYMX_EVIDENCE_DIR") or os.path.join(ROOT, "evidence")     # mutant runs write elsewhere
    os.makedirs(evdir, exist_ok=True)
    json.dump(ev, open(os.path.join(evdir, prop + ".json"), "w"), indent=1, default=str)
    if not only:
        # <id>.json always describes the LAST run; a copy per tier is kept so that a quick run does not erase the record of
        # the last thorough run (and vice versa)
        os.makedirs(os.path.join(evdir, "by_tier"), exist_ok=True)
        json.dump(ev, open(os.path.join(evdir, "by_tier", "%s.%s.json" % (prop, tier)), "w"), indent=1, default=str)
    print("%s %s: cases=%d paths=%d queries=%d obligations=%d discharged=%d sat=%d unknown=%d validated=%d solver=%.1fs wall=%.1fs"
          % (prop, tier, len(tasks), agg["paths"], agg["queries"], agg["obligations"], agg["discharged"], agg["sat"],
             agg["unknown"], agg["validated"], solver_time, wall))
    if violations:
        return EXIT_VIOLATION
    if harness_errors:
        for e in harness_errors[:10]:
            print("HARNESS-ERROR:", e[:1500])
        return EXIT_HARNESS
    return EXIT_OK


def run_replay(path):
    cand = json.load(open(path))
    h = importlib.import_module("harness." + cand["harness"])
    if getattr(h, "PRE_INSTALL", None):
        h.PRE_INSTALL()
    ok, detail = h.replay(cand)
    print("reproduced" if ok else "not reproduced", "-", detail)
    return 1 if ok else 0
