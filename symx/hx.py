"""Harness helpers: a harness 'body' runs the real code on inputs (proxies or floats) and returns
(actual, expected) dictionaries; the same body is used symbolically (obligations decided by z3),
for the per-path encoding validation, and for replaying counterexamples on float64."""
import math
from fractions import Fraction

import numpy as np
import z3

from . import values as V
from . import shim
from .values import SymBool, SymInt, SymReal, is_sym
from .explore import PathAbort, Candidate


class Raised:
    """marker for 'the call raised this exception type' so it can be compared like a value"""

    def __init__(self, exc):
        self.name = type(exc).__name__ if not isinstance(exc, str) else exc
        self.msg = "" if isinstance(exc, str) else str(exc)[:200]

    def __repr__(self):
        return "Raised(%s)" % self.name


def attempt(f, *a, **kw):
    """call f; a raised Exception becomes a Raised value (BaseException such as PathAbort propagates)"""
    try:
        return f(*a, **kw)
    except Exception as e:  # noqa
        if isinstance(e, (V.Unsupported, V.NonFinite)):
            raise
        return Raised(e)


def unwrap(x):
    arr = getattr(x, "_array", None)
    if arr is not None and isinstance(arr, np.ndarray):
        return arr
    return x


def _flat(x):
    x = unwrap(x)
    if isinstance(x, np.ndarray):
        return x.shape, list(x.reshape(-1))
    if isinstance(x, (list, tuple)):
        shp, out = [len(x)], []
        sub = None
        for e in x:
            s, f = _flat(e)
            if sub is None:
                sub = s
            elif sub != s:
                sub = ("ragged",)
            out.extend(f)
        return tuple(shp) + tuple(sub or ()), out
    return (), [x]


def eq_term(a, e, tol=None):
    """z3 Bool (or python bool) for a == e (|a-e| <= tol*(1+|e|) when tol is given)"""
    if isinstance(a, Raised) or isinstance(e, Raised):
        return isinstance(a, Raised) and isinstance(e, Raised) and a.name == e.name
    if a is None or e is None:
        return a is None and e is None
    if isinstance(a, str) or isinstance(e, str):
        return a == e
    if a is e and is_sym(a):
        return True
    if is_sym(a) and is_sym(e) and type(a) is type(e) and a.t.eq(e.t):
        return True
    if isinstance(a, (SymBool, bool, np.bool_)) and isinstance(e, (SymBool, bool, np.bool_)):
        if not is_sym(a) and not is_sym(e):
            return bool(a) == bool(e)
        return V.to_bool_term(a) == V.to_bool_term(e)
    if not is_sym(a) and not is_sym(e):
        fa, fe = float(a), float(e)
        if math.isnan(fa) or math.isnan(fe):
            return math.isnan(fa) and math.isnan(fe)
        if math.isinf(fa) or math.isinf(fe):
            return fa == fe
        if tol is None:
            return fa == fe
        return abs(fa - fe) <= tol * (1 + abs(fe))
    try:
        ta, te = V.to_real_term(a), V.to_real_term(e)
    except V.NonFinite:
        return False
    if tol is None:
        return ta == te
    d = ta - te
    bound = V.rval(tol) * (1 + z3.If(te >= 0, te, -te))
    return z3.And(d <= bound, -d <= bound)


def eq_terms(a, e, tol=None):
    sa, fa = _flat(a)
    se, fe = _flat(e)
    if sa != se:
        return [False]
    return [eq_term(x, y, tol) for x, y in zip(fa, fe)]


def check_all(ctx, actual, expected, tol=None, known=None, only=None, groups=None):
    """one obligation per key of `expected`"""
    ok = True
    for k in expected:
        if only and k not in only:
            continue
        if k not in actual:
            ctx.check(k, False, detail="missing output")
            ok = False
            continue
        terms = eq_terms(actual[k], expected[k], tol[k] if isinstance(tol, dict) and k in tol else (tol if not isinstance(tol, dict) else None))
        kn = known.get(k) if isinstance(known, dict) and known and k in known else None
        if not ctx.check(k, terms, known=kn, group=groups(k) if groups else None):
            ok = False
    return ok


# ---------------------------------------------------------------------------- concrete side

def to_float_struct(x):
    """solver-model value (nested lists) -> numpy arrays"""
    if isinstance(x, dict):
        return {k: to_float_struct(v) for k, v in x.items()}
    if isinstance(x, list):
        try:
            a = np.array(x)
            if a.dtype == object:
                return [to_float_struct(e) for e in x]
            if a.dtype.kind in "iu" and False:
                return a
            return a
        except ValueError:
            return [to_float_struct(e) for e in x]
    return x


def concrete_equal(a, e, tol=1e-9):
    if isinstance(a, Raised) or isinstance(e, Raised):
        return isinstance(a, Raised) and isinstance(e, Raised) and a.name == e.name
    if a is None or e is None:
        return a is None and e is None
    if isinstance(a, str) or isinstance(e, str):
        return a == e
    a, e = shim.normalise(a), shim.normalise(e)
    sa, fa = _flat(a)
    se, fe = _flat(e)
    if sa != se:
        return False
    for x, y in zip(fa, fe):
        if isinstance(x, Raised) or isinstance(y, Raised) or x is None or y is None:
            if not concrete_equal(x, y):
                return False
            continue
        x, y = complex(x), complex(y)
        for u, v in ((x.real, y.real), (x.imag, y.imag)):
            if math.isnan(u) or math.isnan(v):
                if not (math.isnan(u) and math.isnan(v)):
                    return False
            elif math.isinf(u) or math.isinf(v):
                if u != v:
                    return False
            elif abs(u - v) > tol * (1 + abs(v)):
                return False
    return True


def replay_body(body, cand, tol=1e-7, key=None):
    """run body(inputs, **kwargs) on float64 inputs; violated iff some actual != expected"""
    inp = to_float_struct(cand["case"])
    actual, expected = body(inp, **cand["case_kwargs"])
    if key is None and cand.get("obligation") in expected:
        key = cand["obligation"]        # reproduce the reported obligation, not just any difference
    bad = []
    for k in expected:
        if key is not None and k != key:
            continue
        if k not in actual or not concrete_equal(actual[k], expected[k], tol):
            bad.append(k)
    if bad:
        k = cand["obligation"] if cand["obligation"] in bad else bad[0]
        return True, "outputs differ from the reference on the real code: %s; e.g. %s: actual=%s expected=%s" % (
            bad, k, _short(actual.get(k)), _short(expected[k]))
    return False, "real code agrees with the reference on this input (%d outputs)" % len(expected)


def _short(x):
    x = shim.normalise(unwrap(x)) if x is not None else x
    s = repr(np.asarray(x).tolist()) if isinstance(x, np.ndarray) else repr(x)
    return s if len(s) < 300 else s[:300] + "..."


def eval_struct(ctx, m, x):
    return ctx.model_value(m, unwrap(x))


def validate(ctx, body, inputs, kwargs, actual_sym, tol=1e-6, every=1):
    """encoding validation: evaluate the symbolic outputs under a model of the path condition and compare
    with the real code run natively (facades passing through) on the same concrete inputs."""
    n = ctx.stats.paths + 1
    if every > 1 and n % every != 0 and n > 3:
        return
    r, m = ctx.twin()
    if r != "sat":
        if r == "unsat":
            raise PathAbort()
        return
    conc = to_float_struct({k: ctx.model_value(m, v) for k, v in inputs.items()})
    with shim.native():
        old = V._CTX[0]
        V._CTX[0] = None
        try:
            act_c, _ = body(conc, **kwargs)
        except Exception as e:  # noqa
            act_c = {"__raised__": Raised(e)}
        finally:
            V._CTX[0] = old
    ok = True
    for k, v in actual_sym.items():
        if "__raised__" in act_c:
            ok = False
            ctx.stats.errors.append("validation: native run raised %r" % act_c["__raised__"])
            break
        sv = eval_struct(ctx, m, v) if not isinstance(v, (Raised, str)) and v is not None else v
        if isinstance(sv, list):
            try:
                sv = np.array(sv, dtype=float)
            except (ValueError, TypeError):
                pass
        if k not in act_c or not concrete_equal(sv, act_c[k], tol):
            ok = False
            ctx.stats.errors.append("validation mismatch on %s: symbolic=%s native=%s case=%s" % (
                k, _short(sv), _short(act_c.get(k)), str(ctx.case_info)[:200]))
            break
    if ok:
        ctx.stats.validated += 1
    else:
        ctx.stats.validation_mismatch += 1


def run_body(ctx, body, inputs, kwargs, tol=None, known=None, validate_every=1, only=None, groups=None):
    """standard case flow: register inputs, run, check, validate"""
    ctx.set_inputs(**inputs)
    actual, expected = body(inputs, **kwargs)
    check_all(ctx, actual, expected, tol=tol, known=known, only=only, groups=groups)
    if validate_every:
        validate(ctx, body, inputs, kwargs, actual, every=validate_every)
    return actual, expected


# ---------------------------------------------------------------------------- helpers usable on proxies and on plain values

def b2i(b):
    return b._as_int() if isinstance(b, SymBool) else int(bool(b))


def ite(c, a, b):
    if isinstance(c, SymBool):
        return shim._ite(c, a, b)
    return a if c else b


def band(*bs):
    r = True
    for b in bs:
        if isinstance(b, SymBool) or isinstance(r, SymBool):
            r = (r & b) if not isinstance(r, bool) else (b if r else False)
        else:
            r = bool(r) and bool(b)
    return r


def bor(*bs):
    r = False
    for b in bs:
        if isinstance(b, SymBool) or isinstance(r, SymBool):
            r = (r | b) if not isinstance(r, bool) else (True if r else b)
        else:
            r = bool(r) or bool(b)
    return r


def bneg(b):
    return ~b if isinstance(b, SymBool) else (not bool(b))


def sel(arr, idx, default=-2):
    """arr[idx] for a possibly symbolic integer idx (ite chain over the capacity)"""
    arr = np.asarray(unwrap(arr), dtype=object)
    if not isinstance(idx, SymInt):
        i = int(idx)
        return arr[i] if 0 <= i < arr.shape[0] else default
    res = default
    for c in range(arr.shape[0] - 1, -1, -1):
        res = ite(idx == c, arr[c], res)
    return res


def length(a):
    from . import merge
    return merge.sym_shape(a)[0] if isinstance(a, merge.CapArray) else np.asarray(unwrap(a)).shape[0]
