"""Symbolic proxy values (z3 terms) on which the real PyAutoArray code runs.

SymBool / SymInt / SymReal wrap z3 terms and implement Python / NumPy operator
semantics.  They are stored in NumPy *object* arrays; NumPy's object loops call
``+ - * / ** abs`` and the methods ``sqrt exp log cos sin arctan2 conjugate`` on
the elements, so most vectorised code in the repository runs unchanged.

Branching (``bool(SymBool)``, ``SymInt.__index__``) is delegated to the active
explorer (symx.explore), which forks the path.
"""
from fractions import Fraction
import math
import numbers

import numpy as np
import z3

_CTX = [None]  # active explorer (set by symx.explore)


def ctx():
    c = _CTX[0]
    if c is None:
        raise RuntimeError("symbolic branch outside of an exploration")
    return c


class NonFinite(Exception):
    """A proxy was combined with inf/nan - the real-arithmetic model does not apply."""


class Unsupported(Exception):
    pass


# ----------------------------------------------------------------------------
# conversion helpers

def is_sym(x):
    return isinstance(x, (SymBool, SymInt, SymReal))


def _frac(x):
    """exact rational of a concrete python/numpy number"""
    if isinstance(x, (bool, np.bool_)):
        return Fraction(int(x))
    if isinstance(x, (int, np.integer)):
        return Fraction(int(x))
    if isinstance(x, Fraction):
        return x
    x = float(x)
    if x != x or x in (math.inf, -math.inf):
        raise NonFinite(repr(x))
    return Fraction(x)


_RV_CACHE = {}


def rval(x):
    """z3 Real numeral for a concrete number (exact)"""
    f = _frac(x)
    r = _RV_CACHE.get(f)
    if r is None:
        if f.denominator == 1:
            r = z3.RealVal(f.numerator)
        else:
            r = z3.RealVal(f.numerator) / z3.RealVal(f.denominator)
            r = z3.simplify(r)
        if len(_RV_CACHE) < 200000:
            _RV_CACHE[f] = r
    return r


def ival(x):
    return z3.IntVal(int(x))


def to_real_term(x):
    """z3 Real term for proxy or concrete number"""
    if isinstance(x, SymReal):
        return x.t
    if isinstance(x, SymInt):
        return z3.ToReal(x.t)
    if isinstance(x, SymBool):
        return z3.If(x.t, z3.RealVal(1), z3.RealVal(0))
    return rval(x)


def to_int_term(x):
    if isinstance(x, SymInt):
        return x.t
    if isinstance(x, SymBool):
        return z3.If(x.t, z3.IntVal(1), z3.IntVal(0))
    if isinstance(x, (int, np.integer, bool, np.bool_)):
        return ival(x)
    raise TypeError("not an int-like: %r" % (x,))


def to_bool_term(x):
    if isinstance(x, SymBool):
        return x.t
    if isinstance(x, (bool, np.bool_)):
        return z3.BoolVal(bool(x))
    if isinstance(x, SymInt):
        return x.t != 0
    if isinstance(x, SymReal):
        return x.t != 0
    if isinstance(x, numbers.Number):
        return z3.BoolVal(bool(x))
    raise TypeError("not a bool-like: %r" % (x,))


def _is_num(x):
    return isinstance(x, (int, float, np.integer, np.floating, bool, np.bool_, Fraction))


def _is_intlike(x):
    return isinstance(x, (int, np.integer, bool, np.bool_)) and not isinstance(x, (float, np.floating))


def _concrete_value(t):
    """python value if z3 term is a numeral else None"""
    if z3.is_rational_value(t):
        return Fraction(t.numerator_as_long(), t.denominator_as_long())
    if z3.is_int_value(t):
        return t.as_long()
    if z3.is_true(t):
        return True
    if z3.is_false(t):
        return False
    return None


def mk_real(t):
    """wrap a z3 Real term, collapsing numerals to np.float64 when exactly representable"""
    return SymReal(t)


# ----------------------------------------------------------------------------

class SymBool:
    __slots__ = ("t",)

    def __init__(self, t):
        self.t = t

    def __bool__(self):
        return ctx().decide(self.t)

    def _bin(self, o, f):
        if isinstance(o, np.ndarray):
            return NotImplemented
        try:
            ot = to_bool_term(o)
        except TypeError:
            return NotImplemented
        return SymBool(f(self.t, ot))

    def __and__(self, o):
        if isinstance(o, (bool, np.bool_)):
            return self if o else False
        return self._bin(o, z3.And)

    __rand__ = __and__

    def __or__(self, o):
        if isinstance(o, (bool, np.bool_)):
            return True if o else self
        return self._bin(o, z3.Or)

    __ror__ = __or__

    def __xor__(self, o):
        return self._bin(o, z3.Xor)

    __rxor__ = __xor__

    def __invert__(self):
        return SymBool(z3.Not(self.t))

    def logical_not(self):
        return SymBool(z3.Not(self.t))

    def __eq__(self, o):
        if isinstance(o, np.ndarray):
            return NotImplemented
        if is_sym(o) and not isinstance(o, SymBool):
            return self._as_int() == o
        if _is_num(o) and not isinstance(o, (bool, np.bool_)):
            return self._as_int() == o
        return self._bin(o, lambda a, b: a == b)

    def __ne__(self, o):
        r = self.__eq__(o)
        if r is NotImplemented:
            return r
        return ~r if isinstance(r, SymBool) else (not r)

    def __hash__(self):
        return 0        # constant: dict / set key equality is then decided by the symbolic == (a path decision)

    # numeric view (True == 1)
    def _as_int(self):
        return SymInt(z3.If(self.t, z3.IntVal(1), z3.IntVal(0)))

    def __add__(self, o):
        return self._as_int() + o

    __radd__ = __add__

    def __sub__(self, o):
        return self._as_int() - o

    def __rsub__(self, o):
        return o - self._as_int()

    def __mul__(self, o):
        if isinstance(o, np.ndarray):
            return NotImplemented
        if isinstance(o, SymReal):
            return SymReal(z3.If(self.t, o.t, z3.RealVal(0)))
        if isinstance(o, (float, np.floating)):
            return SymReal(z3.If(self.t, rval(o), z3.RealVal(0)))
        return self._as_int() * o

    __rmul__ = __mul__

    def __index__(self):
        return int(bool(self))

    def __repr__(self):
        return "SymBool(%s)" % (self.t,)


def _cmp(a, b, op):
    """comparison of numeric proxies -> SymBool"""
    if isinstance(b, np.ndarray):
        return NotImplemented
    if isinstance(a, SymInt) and (isinstance(b, SymInt) or _is_intlike(b)):
        return SymBool(op(a.t, to_int_term(b)))
    if isinstance(b, SymBool):
        b = b._as_int()
    if not (is_sym(b) or _is_num(b)):
        return NotImplemented
    try:
        bt = to_real_term(b)
    except NonFinite:
        fb = float(b)
        if fb != fb:
            return False if op is not _ne else True
        # comparison with +-inf
        import operator
        pyop = {_lt: operator.lt, _le: operator.le, _gt: operator.gt, _ge: operator.ge,
                _eq: operator.eq, _ne: operator.ne}[op]
        return pyop(0.0, fb)
    return SymBool(op(to_real_term(a), bt))


def _lt(a, b): return a < b
def _le(a, b): return a <= b
def _gt(a, b): return a > b
def _ge(a, b): return a >= b
def _eq(a, b): return a == b
def _ne(a, b): return a != b


class _Num:
    __slots__ = ()

    def __hash__(self):
        return 0        # constant: dict / set key equality is then decided by the symbolic == (a path decision)

    def __lt__(self, o): return _cmp(self, o, _lt)
    def __le__(self, o): return _cmp(self, o, _le)
    def __gt__(self, o): return _cmp(self, o, _gt)
    def __ge__(self, o): return _cmp(self, o, _ge)
    def __eq__(self, o): return _cmp(self, o, _eq)
    def __ne__(self, o): return _cmp(self, o, _ne)

    def __bool__(self):
        return bool(self != 0)

    def __pos__(self):
        return self

    def conjugate(self):
        return self

    conj = conjugate

    @property
    def real(self):
        return self

    @property
    def imag(self):
        return 0.0


class SymInt(_Num):
    __slots__ = ("t", "bounds")

    def __init__(self, t, bounds=None):
        self.t = t
        self.bounds = bounds      # optional (lo, hi) integer interval known syntactically (merge interpreter)

    # -- integer arithmetic
    def _bin(self, o, f, rf, swap=False):
        if isinstance(o, np.ndarray):
            return NotImplemented
        if isinstance(o, SymBool):
            o = o._as_int()
        if isinstance(o, SymInt) or _is_intlike(o):
            a, b = self.t, to_int_term(o)
            if swap:
                a, b = b, a
            return SymInt(f(a, b))
        if isinstance(o, SymReal) or _is_num(o):
            me = SymReal(z3.ToReal(self.t))
            return rf(o, me) if swap else rf(me, o)
        return NotImplemented

    def __add__(self, o):
        if _is_intlike(o) and int(o) == 0:
            return self
        return self._bin(o, lambda a, b: a + b, lambda a, b: a + b)

    def __radd__(self, o):
        return self.__add__(o)

    def __sub__(self, o):
        if _is_intlike(o) and int(o) == 0:
            return self
        return self._bin(o, lambda a, b: a - b, lambda a, b: a - b)

    def __rsub__(self, o):
        return self._bin(o, lambda a, b: a - b, lambda a, b: a - b, swap=True)

    def __mul__(self, o):
        if _is_intlike(o):
            if int(o) == 0:
                return 0
            if int(o) == 1:
                return self
        return self._bin(o, lambda a, b: a * b, lambda a, b: a * b)

    def __rmul__(self, o):
        return self.__mul__(o)

    def __neg__(self):
        return SymInt(-self.t)

    def __abs__(self):
        return SymInt(z3.If(self.t >= 0, self.t, -self.t))

    def __truediv__(self, o):
        if isinstance(o, np.ndarray):
            return NotImplemented
        return SymReal(z3.ToReal(self.t)) / o

    def __rtruediv__(self, o):
        if isinstance(o, np.ndarray):
            return NotImplemented
        return o / SymReal(z3.ToReal(self.t))

    def __floordiv__(self, o):
        # python floor division; z3 int div is euclidean (floor for positive divisor)
        if isinstance(o, np.ndarray):
            return NotImplemented
        if _is_intlike(o):
            o = int(o)
            if o > 0:
                return SymInt(self.t / z3.IntVal(o))
            if o < 0:
                return SymInt((-self.t) / z3.IntVal(-o))
            raise ZeroDivisionError
        if isinstance(o, SymInt):
            q = self.t / o.t  # euclidean: a = q*b + r, 0<=r<|b|
            r = self.t % o.t
            return SymInt(z3.If(o.t > 0, q, z3.If(r == 0, q, q - 1)))
        return NotImplemented

    def __rfloordiv__(self, o):
        if _is_intlike(o):
            return SymInt(ival(o)).__floordiv__(self)
        return NotImplemented

    def __mod__(self, o):
        if _is_intlike(o) and int(o) > 0:
            return SymInt(self.t % z3.IntVal(int(o)))
        return NotImplemented

    def __pow__(self, o):
        if _is_intlike(o) and int(o) >= 0:
            r = 1
            for _ in range(int(o)):
                r = self * r
            return r
        return SymReal(z3.ToReal(self.t)) ** o

    def __index__(self):
        return ctx().concretize_int(self.t)

    def __int__(self):
        return ctx().concretize_int(self.t)

    def __float__(self):
        return float(ctx().concretize_int(self.t))

    def __round__(self, n=None):
        return self

    def sqrt(self):
        return SymReal(z3.ToReal(self.t)).sqrt()

    def __repr__(self):
        return "SymInt(%s)" % (self.t,)


class SymReal(_Num):
    __slots__ = ("t",)

    def __init__(self, t):
        self.t = t

    def _other(self, o):
        if isinstance(o, SymBool):
            return to_real_term(o)
        if is_sym(o) or _is_num(o):
            try:
                return to_real_term(o)
            except NonFinite:
                raise
        return None

    def __add__(self, o):
        if isinstance(o, np.ndarray):
            return NotImplemented
        if _is_num(o) and o == 0:
            return self
        ot = self._other(o)
        if ot is None:
            return NotImplemented
        return SymReal(self.t + ot)

    __radd__ = __add__

    def __sub__(self, o):
        if isinstance(o, np.ndarray):
            return NotImplemented
        if _is_num(o) and o == 0:
            return self
        ot = self._other(o)
        if ot is None:
            return NotImplemented
        return SymReal(self.t - ot)

    def __rsub__(self, o):
        if isinstance(o, np.ndarray):
            return NotImplemented
        ot = self._other(o)
        if ot is None:
            return NotImplemented
        return SymReal(ot - self.t)

    def __mul__(self, o):
        if isinstance(o, np.ndarray):
            return NotImplemented
        if _is_num(o):
            if o == 0:
                return np.float64(0.0)
            if o == 1:
                return self
        if isinstance(o, SymBool):
            return SymReal(z3.If(o.t, self.t, z3.RealVal(0)))
        ot = self._other(o)
        if ot is None:
            return NotImplemented
        return SymReal(self.t * ot)

    __rmul__ = __mul__

    def __truediv__(self, o):
        if isinstance(o, np.ndarray):
            return NotImplemented
        if _is_num(o):
            if o == 0:
                raise NonFinite("division of a symbolic value by concrete zero")
            if o == 1:
                return self
        ot = self._other(o)
        if ot is None:
            return NotImplemented
        if is_sym(o):
            ctx().note_division(ot)
        return SymReal(self.t / ot)

    def __rtruediv__(self, o):
        if isinstance(o, np.ndarray):
            return NotImplemented
        ot = self._other(o)
        if ot is None:
            return NotImplemented
        ctx().note_division(self.t)
        if _is_num(o) and o == 0:
            return np.float64(0.0)
        return SymReal(ot / self.t)

    def __floordiv__(self, o):
        q = self / o
        return SymReal(z3.ToReal(z3.ToInt(q.t)))

    def __mod__(self, o):
        # python's float modulo for a concrete positive modulus: x - m*floor(x/m) (linear with an integer part); a symbolic
        # or non-positive modulus would be non-linear mixed integer/real arithmetic -> Unsupported (the case fails loudly)
        if isinstance(o, np.ndarray):
            return NotImplemented
        if _is_num(o) and float(o) > 0:
            m = rval(o)
            return SymReal(self.t - m * z3.ToReal(z3.ToInt(self.t / m)))
        raise Unsupported("%% of a symbolic real with a symbolic or non-positive modulus")

    def __neg__(self):
        return SymReal(-self.t)

    def __abs__(self):
        return SymReal(z3.If(self.t >= 0, self.t, -self.t))

    def __pow__(self, o):
        if isinstance(o, np.ndarray):
            return NotImplemented
        if _is_num(o):
            f = _frac(o)
            if f.denominator == 1:
                n = int(f)
                if n == 0:
                    return np.float64(1.0)
                if n > 0:
                    t = self.t
                    for _ in range(n - 1):
                        t = t * self.t
                    return SymReal(t)
                return 1.0 / (self ** (-n))
            if f == Fraction(1, 2):
                return self.sqrt()
            if f == Fraction(-1, 2):
                return 1.0 / self.sqrt()
        raise Unsupported("pow with exponent %r" % (o,))

    def __rpow__(self, o):
        raise Unsupported("concrete ** symbolic")

    # numpy object-loop methods
    def sqrt(self):
        return ctx().sqrt(self.t)

    def square(self):
        return self * self

    def exp(self):
        return ctx().ufunc("exp", self.t)

    def log(self):
        return ctx().ufunc("log", self.t)

    def log10(self):
        return ctx().ufunc("log10", self.t)

    def cos(self):
        return ctx().ufunc("cos", self.t)

    def sin(self):
        return ctx().ufunc("sin", self.t)

    def __float__(self):
        raise Unsupported("float() of a symbolic real (a library boundary was reached)")

    def __int__(self):
        # builtin int() / storing into an integer ndarray: truncation toward zero, concretised by forking over the
        # feasible values (exact; only reached where a module's `int` is not shimmed or numpy converts itself)
        c = ctx()
        n = getattr(c, "_int_forks", 0) + 1
        c._int_forks = n
        if n > 256:
            raise Unsupported("int() of a symbolic real via builtin: more than 256 conversions on one path")
        t = self.t
        return c.concretize_int(z3.If(t >= 0, z3.ToInt(t), -z3.ToInt(-t)))

    def __round__(self, n=None):
        raise Unsupported("round() of a symbolic real")

    def __repr__(self):
        s = str(self.t)
        return "SymReal(%s)" % (s if len(s) < 80 else s[:77] + "...")


# ----------------------------------------------------------------------------
# constructors used by harnesses

def real(name):
    return SymReal(z3.Real(name))


def integer(name):
    return SymInt(z3.Int(name))


def boolean(name):
    return SymBool(z3.Bool(name))


class SymArray(np.ndarray):
    """object ndarray that may hold proxies. The only difference from ndarray: `astype(<float dtype>)` keeps the proxies
    (as SymReal) instead of calling float() on them, so that vectorised code such as `a[mask].astype("float")` runs
    symbolically. Arrays created through the facade (symx/shim.py) and by real_array/bool_array are views of this type."""

    def __array_wrap__(self, obj, context=None, return_scalar=False):
        # reductions of ndarray subclasses come back as 0-d arrays: hand out the element itself, as ndarray does
        if isinstance(obj, np.ndarray) and obj.ndim == 0:
            return obj[()]
        if type(obj) is np.ndarray and obj.dtype == object:
            return obj.view(SymArray)
        if isinstance(obj, SymArray) and obj.dtype != object:
            return obj.view(np.ndarray)
        return obj

    def astype(self, dtype, *a, **kw):
        if self.dtype == object and _floatish(dtype):
            flat = np.ndarray.reshape(self, -1) if self.ndim != 1 else self
            if any(is_sym(e) for e in flat):
                if kw.get("copy", True) is False and all(isinstance(e, (SymReal, float, np.floating)) for e in flat):
                    return self          # stands for a float array already: numpy hands back the same buffer
                out = np.empty(self.shape, dtype=object).view(SymArray)
                fo = out.reshape(-1)
                for i, e in enumerate(self.flat):
                    fo[i] = sym_float(e) if is_sym(e) else np.float64(e)
                return out
        r = np.ndarray.astype(self, dtype, *a, **kw)
        return r.view(np.ndarray) if r.dtype != object else r


def _floatish(dtype):
    if dtype in (float, "float", "float64", "d", np.float64, np.floating, "f8", "double", np.double):
        return True
    try:
        return getattr(dtype, "__name__", "") == "SFloat" or np.dtype(dtype).kind == "f"
    except TypeError:
        return False


SymArray.__name__ = "ndarray"        # code (and harnesses) that report type(x).__name__ see the same name in both modes
SymArray.__qualname__ = "ndarray"


def as_symarray(x):
    """view a plain object ndarray as SymArray (no copy); anything else is returned unchanged"""
    if type(x) is np.ndarray and x.dtype == object:
        return x.view(SymArray)
    return x


def real_array(name, shape):
    a = np.empty(shape, dtype=object)
    for idx in np.ndindex(*a.shape):
        a[idx] = real(name + "_" + "_".join(map(str, idx)))
    return a.view(SymArray)


def bool_array(name, shape):
    a = np.empty(shape, dtype=object)
    for idx in np.ndindex(*a.shape):
        a[idx] = boolean(name + "_" + "_".join(map(str, idx)))
    return a.view(SymArray)


def sym_int(x):
    """model of builtin int() usable on proxies (truncation toward zero)"""
    if isinstance(x, SymInt):
        return x
    if isinstance(x, SymBool):
        return x._as_int()
    if isinstance(x, SymReal):
        t = x.t
        return SymInt(z3.If(t >= 0, z3.ToInt(t), -z3.ToInt(-t)))
    return int(x)


def sym_float(x):
    if isinstance(x, SymReal):
        return x
    if isinstance(x, SymInt):
        return SymReal(z3.ToReal(x.t))
    if isinstance(x, SymBool):
        return SymReal(to_real_term(x))
    return float(x)


def term(x):
    """z3 term of a proxy or concrete value (Real for floats, Int for ints, Bool for bools)"""
    if isinstance(x, (SymBool, SymInt, SymReal)):
        return x.t
    if isinstance(x, (bool, np.bool_)):
        return z3.BoolVal(bool(x))
    if _is_intlike(x):
        return ival(x)
    return rval(x)
