"""C13 - direct Fourier transform, preloaded variant and adjoint are exact and consistent; interferometer D and F
are the noise-weighted real-plus-imaginary Gram products of the transformed mapping matrix."""
import math
import os

import numpy as np
import z3

from symx import hx, values as V

PROPERTY = "C13"
FUNCTIONS = [
    "autoarray.operators.transformer_util.preload_real_transforms",
    "autoarray.operators.transformer_util.preload_imag_transforms",
    "autoarray.operators.transformer_util.visibilities_via_preload_jit_from",
    "autoarray.operators.transformer_util.visibilities_jit",
    "autoarray.operators.transformer_util.image_via_jit_from",
    "autoarray.operators.transformer_util.transformed_mapping_matrix_via_preload_jit_from",
    "autoarray.operators.transformer_util.transformed_mapping_matrix_jit",
    "autoarray.operators.transformer.TransformerDFT.__init__",
    "autoarray.operators.transformer.TransformerDFT.visibilities_from",
    "autoarray.operators.transformer.TransformerDFT.image_from",
    "autoarray.operators.transformer.TransformerDFT.transform_mapping_matrix",
    "autoarray.structures.visibilities.AbstractVisibilities.__init__",
    "autoarray.structures.visibilities.AbstractVisibilities.in_array",
    "autoarray.structures.visibilities.VisibilitiesNoiseMap.__init__",
    "autoarray.structures.grids.uniform_2d.Grid2D.in_radians",
    "autoarray.mask.derive.grid_2d.DeriveGrid2D.unmasked",
    "autoarray.inversion.inversion.interferometer.abstract.AbstractInversionInterferometer.operated_mapping_matrix_list",
    "autoarray.inversion.inversion.abstract.AbstractInversion.operated_mapping_matrix",
    "autoarray.inversion.inversion.interferometer.mapping.InversionInterferometerMapping.data_vector",
    "autoarray.inversion.inversion.interferometer.mapping.InversionInterferometerMapping.curvature_matrix",
    "autoarray.inversion.inversion.interferometer.inversion_interferometer_util.data_vector_via_transformed_mapping_matrix_from",
    "autoarray.inversion.inversion.inversion_util.curvature_matrix_via_mapping_matrix_from",
    "autoarray.inversion.inversion.inversion_util.curvature_matrix_with_added_to_diag_from",
]
BOUNDS = {
    "quick": "kernels (transformer_util): P<=3 pixels, K=2 baselines, S=2 columns; pixel coordinates in radians, baselines, image, signed mapping "
             "matrix and complex visibilities ALL symbolic reals (cos/sin abstracted, see STUBS); one merged path covers every sign pattern of the matrix; "
             "plus 3 concrete kernel geometries (3-4 pixels incl. a repeated pixel, zero / repeated / nearly-equal / non-integer baselines) with native cos/sin, tolerance 1e-9. "
             "TransformerDFT class: every mask (>=1 unmasked pixel) of shape 2x2 by forking, preload on/off, image (slim- and native-stored Array2D), "
             "signed mapping matrix (2 columns), directly constructed and arithmetic-derived Visibilities symbolic (plus the documented [[re,im],..] float forms - C-ordered, "
             "transposed / non-contiguous, nested lists, list of complex - with concrete values added to the symbolic ones); geometry either symbolic "
             "(origin and K=2 baselines symbolic, pixel scales (0.5, 2.0); exact obligations) or concrete (4 geometries with anisotropic scales, "
             "off-centre origin, zero, repeated and nearly-equal consecutive baselines (relative difference 2^-20 at |u| ~ 1e6); native cos/sin against an independent complex-exponential reference, tolerance 1e-9, "
             "symbolic values bounded by 1000 in magnitude). Every class case also transforms an image whose own mask has the same pattern but another "
             "origin / pixel scale (the transformer's geometry must be used), and runs a history: transformer built from caller-owned uv and mask arrays, "
             "transform, caller overwrites both arrays in place, transform / adjoint / matrix path again - all results must belong to the baselines and "
             "mask of construction, preload on and off. InversionInterferometerMapping via aa.Inversion: (i) stand-in transformer returning an "
             "arbitrary symbolic complex matrix, K<=3 visibilities, <=3 parameters in 1-2 linear objects, complex data and complex positive noise "
             "(Re and Im independent) symbolic, with / without regularization; (ii) the real TransformerDFT (all masks of 1x2, K=2, two linear "
             "objects, symbolic geometry), preload on/off. Every inversion case is a two-step history: two inversions built from the SAME dataset "
             "object (and, in (i), two direct calls of the data-vector util with the same caller-owned arrays); T, D, F are checked both times and "
             "the dataset's / caller's data, noise and matrix arrays must still hold their original terms afterwards.",
    "thorough": "same obligations as quick with: kernels (symbolic geometry) for (P,K,S) in (2,2,2),(3,2,2),(3,3,3),(4,3,2),(4,2,3),(4,3,3),(5,2,2),(3,4,2),(5,3,2) and the 3 concrete "
                "kernel geometries; class, concrete geometry: every mask of 2x3 and 3x2 for the 4 geometries and every mask of 2x4 (255 masks, up to 8 pixels) for geometry 0 "
                "(preload on) and geometry 3 (preload off), else preload on and off; class, symbolic geometry (K=3 baselines, 2 columns): every mask of 2x3 with scale pairs "
                "(0.5,2.0), (0.25,0.25), (3.0,1.0) and of 3x2 with (0.5,2.0), preload on/off; inversion (i) stand-in transformer: (K,S1,S2) in (2,2,1),(3,1,0),(3,2,2),(4,2,1),"
                "(3,3,1),(4,2,2),(5,1,1), with and without regularization; (ii) real TransformerDFT: all masks of 2x2 with K=3, parameters 2+1 (scales (0.5,2.0), with / without "
                "regularization) and 1+2 (scales (0.25,0.25)), and all masks of 2x3 with K=2, parameters 1+1; preload on/off; all inversion cases are two-step histories.",
}
OUTSIDE = [
    "TransformerNUFFT, the interferometer w-tilde and PyLops (linear-operator) inversions (external library / stubbed code absent)",
    "symbolic pixel scales in the class-level cases (Mask2D divides the origin by the pixel scale, which makes the trigonometric arguments "
    "non-polynomial; a fixed set of dyadic / anisotropic scale pairs is used instead - the scalar geometry is C02's subject)",
    "more than 8 image pixels (6 with symbolic geometry), 5 baselines, 4 linear parameters",
    "float64 rounding of the sums (exact real arithmetic; the concrete-geometry obligations carry a 1e-9 relative tolerance)",
    "Visibilities loaded from .fits files; the [K,2] float / list input forms are exercised with concrete values only (object arrays of proxies "
    "do not take the float-dtype branch), added to symbolic visibilities by structure arithmetic",
]
STUBS = [
    "pylops: empty stand-in LinearOperator base class on sys.path (stubs_c13), as the property prescribes",
    "np.cos / np.sin of a symbolic argument: one unconstrained real per distinct argument polynomial (canonical sum-of-monomials form of the z3 term) "
    "plus the parity constraints cos(-t)=cos(t), sin(-t)=-sin(t) on the occurring arguments; this is weaker than an uninterpreted function "
    "(no congruence assumed between syntactically different arguments), so every 'holds' verdict is valid for the real cos/sin; concrete arguments use the native functions",
    "complex numbers: harness-local SymComplex proxy (pair of real terms, ring operations only) stored in object arrays; ndarray subclass PArray supplies "
    ".real/.imag/.astype for such arrays; np.real/np.imag/np.array/np.asarray/np.hstack facades keep them intact (NumPy object arrays answer .imag with zeros)",
    "PartView: .real/.imag of a PArray are write-through views (NumPy returns views of a complex array, so in-place updates of the part change the "
    "caller's complex array); slices / results derived from such a view are detached. data_vector_via_transformed_mapping_matrix_from (no branches) "
    "runs as plain Python instead of through the merge interpreter, which would rebind `a /= b` instead of updating in place",
    "FloatAlloc: object arrays that stand for float allocations (np.zeros & co. through the facade) drop the imaginary part of complex values stored "
    "into them, as NumPy's float arrays do",
    "case_inversion_stub: StandInTransformer.transform_mapping_matrix returns a symbolic complex matrix (contract: none - it is 'every transformed mapping matrix')",
    "an object-array result whose entries are arrays is treated as a raised exception (NumPy's complex arrays refuse such a store with TypeError)",
]
ASSUMPTIONS = [
    "masks explored by forking (one path per mask); the `if value > 0` sparsity branch of the mapping-matrix kernels is if-converted by the merge interpreter",
    "noise-map real and imaginary parts > 0",
    "concrete-geometry cases: |image|, |mapping matrix|, |visibilities| <= 1000 (the maps are linear; the bound only keeps the 1e-9 tolerance meaningful)",
    "data vector / curvature matrix in the real-transformer case are compared with the Gram products of the transformed mapping matrix the inversion exposes; "
    "that matrix is compared with the independent operator reference in the same case (compositional)",
]
EXPLORER_OPTS = {"timeout_ms": 20000, "max_paths": 20000}
BUDGET_S = {"quick": 500, "thorough": 2300}

def _known_ids():
    return set(x for x in os.environ.get("VERIF_KNOWN", "").split(",") if x)


# =============================================================================================================
# complex proxies (harness-local: the engine has SymBool/SymInt/SymReal only)

class SymComplex:
    """re + i*im with re, im SymReal or float; only the ring operations the kernels use"""
    __slots__ = ("re", "im")

    def __init__(self, re, im):
        self.re, self.im = re, im

    @staticmethod
    def of(x):
        if isinstance(x, SymComplex):
            return x
        if isinstance(x, (complex, np.complexfloating)):
            return SymComplex(np.float64(x.real), np.float64(x.imag))
        if V.is_sym(x) or V._is_num(x):
            return SymComplex(x, np.float64(0.0))
        return None

    def __add__(self, o):
        if isinstance(o, np.ndarray):
            return NotImplemented
        o = SymComplex.of(o)
        if o is None:
            return NotImplemented
        return SymComplex(self.re + o.re, self.im + o.im)

    __radd__ = __add__

    def __sub__(self, o):
        if isinstance(o, np.ndarray):
            return NotImplemented
        o = SymComplex.of(o)
        if o is None:
            return NotImplemented
        return SymComplex(self.re - o.re, self.im - o.im)

    def __rsub__(self, o):
        if isinstance(o, np.ndarray):
            return NotImplemented
        o = SymComplex.of(o)
        if o is None:
            return NotImplemented
        return SymComplex(o.re - self.re, o.im - self.im)

    def __mul__(self, o):
        if isinstance(o, np.ndarray):
            return NotImplemented
        o = SymComplex.of(o)
        if o is None:
            return NotImplemented
        return SymComplex(self.re * o.re - self.im * o.im, self.re * o.im + self.im * o.re)

    __rmul__ = __mul__

    def __truediv__(self, o):
        if isinstance(o, np.ndarray):
            return NotImplemented
        if V.is_sym(o) or V._is_num(o):
            return SymComplex(self.re / o, self.im / o)
        raise V.Unsupported("division by a complex proxy")

    def __neg__(self):
        return SymComplex(-self.re, -self.im)

    def __pos__(self):
        return self

    def conjugate(self):
        return SymComplex(self.re, -self.im)

    conj = conjugate

    @property
    def real(self):
        return self.re

    @property
    def imag(self):
        return self.im

    __hash__ = None

    def __repr__(self):
        return "SymComplex(%r, %r)" % (self.re, self.im)


def _has_cplx(a):
    if isinstance(a, SymComplex):
        return True
    if isinstance(a, np.ndarray) and a.dtype == object:
        for e in a.reshape(-1):
            if isinstance(e, (SymComplex, complex, np.complexfloating)):
                return True
    return False


def _part(x, which):
    """real / imaginary part of a scalar / array / autoarray structure (proxies or numbers), as object or float array"""
    x = hx.unwrap(x)
    if isinstance(x, np.ndarray):
        if x.dtype != object:
            return np.array(x.real if which == 0 else x.imag, dtype=float)
        out = np.empty(x.shape, dtype=object)
        fo, fx = out.reshape(-1), np.asarray(x).reshape(-1)
        for i in range(fx.shape[0]):
            fo[i] = _part(fx[i], which)
        return out
    if isinstance(x, SymComplex):
        return x.re if which == 0 else x.im
    if V.is_sym(x):
        return x if which == 0 else np.float64(0.0)
    if isinstance(x, (complex, np.complexfloating)):
        return np.float64(x.real if which == 0 else x.imag)
    return np.float64(x) if which == 0 else np.float64(0.0)


def _re(x):
    return _part(x, 0)


def _im(x):
    return _part(x, 1)


class PArray(np.ndarray):
    """object array of proxies whose .real/.imag/.astype behave like those of a numeric array
    (NumPy's object arrays answer .real -> self and .imag -> zeros, and astype(float) calls float())"""

    @property
    def real(self):
        return PartView.of(self, 0)

    @property
    def imag(self):
        return PartView.of(self, 1)

    def astype(self, dtype, *a, **kw):
        from symx import shim
        if self.dtype == object and (shim.has_sym(np.asarray(self)) or _has_cplx(np.asarray(self))):
            try:
                kind = np.dtype(dtype).kind
            except TypeError:
                kind = "?"
            if kind in "fc":
                return self.copy()
        return np.ndarray.astype(self, dtype, *a, **kw)


class PartView(np.ndarray):
    """the .real / .imag of a PArray.  NumPy hands out *views* of a complex array, so an in-place operation on the part
    (`v.real /= w`, `v.imag[k] = x`) changes the complex parent - and whoever else holds that buffer.  This object array
    writes such updates through to the parent's SymComplex entries.  (Arrays derived from it - slices, results - are detached.)"""
    _parent = None
    _which = 0

    def __array_finalize__(self, obj):
        self._parent, self._which = None, 0

    @staticmethod
    def of(parent, which):
        v = _part(np.asarray(parent), which).view(PartView)
        v._parent, v._which = parent, which
        return v

    def _sync(self):
        p = self._parent
        if p is None:
            return
        for idx in np.ndindex(*self.shape):
            e = SymComplex.of(p[idx])
            new = np.ndarray.__getitem__(self, idx)
            p[idx] = SymComplex(new, e.im) if self._which == 0 else SymComplex(e.re, new)

    def __setitem__(self, k, v):
        np.ndarray.__setitem__(self, k, v)
        self._sync()

    def _inplace(self, res):
        np.ndarray.__setitem__(self, Ellipsis, res)
        self._sync()
        return self

    def __itruediv__(self, o):
        return self._inplace(np.asarray(self) / o)

    def __imul__(self, o):
        return self._inplace(np.asarray(self) * o)

    def __iadd__(self, o):
        return self._inplace(np.asarray(self) + o)

    def __isub__(self, o):
        return self._inplace(np.asarray(self) - o)

    def __ipow__(self, o):
        return self._inplace(np.asarray(self) ** o)


class FloatAlloc(V.SymArray if hasattr(V, "SymArray") else np.ndarray):
    """object array standing in for a FLOAT allocation (np.zeros/ones/empty/full through the facade): NumPy casts a complex value
    stored into a float array to its real part (ComplexWarning only) - an object array would keep the pair.  Only the freshly
    allocated array carries the flag; arithmetic results (`0j * np.zeros(n)`) and other derived arrays are ordinary object arrays."""
    _float_alloc = False

    def __array_finalize__(self, obj):
        self._float_alloc = False

    def __setitem__(self, k, v):
        if self._float_alloc:
            if isinstance(v, (SymComplex, complex, np.complexfloating)):
                v = _part(v, 0)
            elif isinstance(v, np.ndarray) and (v.dtype.kind == "c" or (v.dtype == object and _has_cplx(v))):
                v = _part(v, 0)
        np.ndarray.__setitem__(self, k, v)


FloatAlloc.__name__ = FloatAlloc.__qualname__ = "ndarray"


def _pview(a):
    """view arrays that hold complex proxies as PArray (so that .real/.imag work inside the repository code)"""
    if isinstance(a, np.ndarray) and a.dtype == object and not isinstance(a, PArray) and _has_cplx(a):
        return a.view(PArray)
    return a


def cplx(re, im):
    """complex array from real and imaginary parts: complex128 natively, PArray of SymComplex symbolically"""
    from symx import shim
    re, im = np.asarray(re), np.asarray(im)
    if not (shim.has_sym(re) or shim.has_sym(im)):
        return np.asarray(re, dtype=float) + 1j * np.asarray(im, dtype=float)
    out = np.empty(re.shape, dtype=object)
    for idx in np.ndindex(*re.shape):
        out[idx] = SymComplex(re[idx], im[idx])
    return out.view(PArray)


def parr(a):
    """real array that survives `.astype("float")` when it holds proxies"""
    from symx import shim
    a = np.asarray(a)
    if a.dtype == object and shim.has_sym(a):
        return a.view(PArray)
    return np.asarray(a, dtype=float)


def POST_INSTALL():
    from symx import merge, shim
    merge.install_dispatchers()

    # ---- proxies: real op complex -> SymComplex
    def patch(cls, name, fn):
        orig = getattr(cls, name)

        def f(self, o):
            if isinstance(o, (complex, np.complexfloating)) and not isinstance(o, (float, np.floating)):
                return fn(SymComplex.of(self), SymComplex.of(o))
            return orig(self, o)

        f.__name__ = name
        setattr(cls, name, f)

    for cls in (V.SymReal, V.SymInt):
        patch(cls, "__mul__", lambda a, b: a * b)
        patch(cls, "__rmul__", lambda a, b: b * a)
        patch(cls, "__add__", lambda a, b: a + b)
        patch(cls, "__radd__", lambda a, b: b + a)
        patch(cls, "__sub__", lambda a, b: a - b)
        patch(cls, "__rsub__", lambda a, b: b - a)

    # ---- the shim must see complex proxies as symbolic, and np.real/np.imag/hstack/array must keep them usable
    orig_has_sym = shim.has_sym

    def has_sym(x, depth=0):
        if isinstance(x, SymComplex):
            return True
        if orig_has_sym(x, depth):
            return True
        x = shim.unwrap(x)
        if isinstance(x, np.ndarray) and x.dtype == object:
            return any(isinstance(e, SymComplex) for e in x.reshape(-1))
        return False

    shim.has_sym = has_sym

    def f_real(self, x):
        x = shim.unwrap(x)
        if isinstance(x, np.ndarray) and x.dtype == object:
            return _part(x, 0)
        if isinstance(x, SymComplex) or V.is_sym(x):
            return _part(x, 0)
        return np.real(x)

    def f_imag(self, x):
        x = shim.unwrap(x)
        if isinstance(x, np.ndarray) and x.dtype == object:
            return _part(x, 1)
        if isinstance(x, SymComplex) or V.is_sym(x):
            return _part(x, 1)
        return np.imag(x)

    def float_alloc(name):
        orig = getattr(shim.NPFacade, name)

        def f(self, *a, **kw):
            r = orig(self, *a, **kw)
            if isinstance(r, np.ndarray) and r.dtype == object and not isinstance(r, PArray):
                r = r.view(FloatAlloc)
                r._float_alloc = True
            return r

        setattr(shim.NPFacade, name, f)

    for name in ("zeros", "ones", "empty", "full", "zeros_like", "ones_like", "full_like"):
        float_alloc(name)

    shim.NPFacade.real = f_real
    shim.NPFacade.imag = f_imag
    orig_array, orig_asarray = shim.NPFacade.array, shim.NPFacade.asarray
    shim.NPFacade.array = lambda self, obj, dtype=None, **kw: _pview(orig_array(self, obj, dtype=dtype, **kw))
    shim.NPFacade.asarray = lambda self, obj, dtype=None, **kw: _pview(orig_asarray(self, obj, dtype=dtype, **kw))
    shim.NPFacade.hstack = lambda self, tup, **kw: _pview(np.hstack([np.asarray(hx.unwrap(t)) for t in tup], **kw))

    # ---- merge interpreter: if-conversion of stores of complex values
    orig_merge = merge.merge_values

    def merge_values(g, new, old):
        if isinstance(new, (SymComplex, complex, np.complexfloating)) or isinstance(old, (SymComplex, complex, np.complexfloating)):
            if new is old:
                return old
            n, o = SymComplex.of(new), SymComplex.of(old)
            if n is None or o is None:
                raise V.Unsupported("merge of complex and %r / %r" % (type(new), type(old)))
            return SymComplex(orig_merge(g, n.re, o.re), orig_merge(g, n.im, o.im))
        return orig_merge(g, new, old)

    merge.merge_values = merge_values

    # ---- the data-vector kernel has no branches: run it as plain Python, so that NumPy's in-place semantics of `a /= b` on the
    #      .real/.imag views of its arguments are the real ones (the merge interpreter rebinds the name instead)
    from autoarray.inversion.inversion.interferometer import inversion_interferometer_util as iu
    f = iu.data_vector_via_transformed_mapping_matrix_from
    iu.data_vector_via_transformed_mapping_matrix_from = getattr(f, "__wrapped_kernel__", f)

    # ---- uninterpreted cos/sin: canonical (sum-of-monomials) argument, so that congruence needs no non-linear reasoning
    from symx import explore
    orig_ufunc = explore.Explorer.ufunc

    def ufunc(self, name, t):
        tc = z3.simplify(t, som=True, sort_sums=True)
        if name in ("cos", "sin"):
            # one unconstrained real per distinct canonical argument (syntactic Ackermannisation without congruence
            # axioms): more general than an uninterpreted function, so 'unsat' carries over; keeps queries in QF_NRA (nlsat)
            import hashlib
            h = hashlib.md5(tc.sexpr().encode()).hexdigest()[:12]
            return V.SymReal(z3.Real("%s!%s" % (name, h)))
        return orig_ufunc(self, name, tc)

    explore.Explorer.ufunc = ufunc

    # ---- kernels hand their complex results on as PArray
    from autoarray.operators import transformer_util as tu
    for name in ("visibilities_via_preload_jit_from", "visibilities_jit", "transformed_mapping_matrix_via_preload_jit_from",
                 "transformed_mapping_matrix_jit"):
        disp = getattr(tu, name)

        def wrap(disp):
            def f(*a, **kw):
                return _pview(disp(*a, **kw))
            f.__wrapped_kernel__ = getattr(disp, "__wrapped_kernel__", disp)
            f.__name__ = disp.__name__
            return f

        setattr(tu, name, wrap(disp))


# =============================================================================================================
# reference (independent of the repository): V = A I with A[k,p] = exp(-2 pi i (x_p u_k + y_p v_k))

ARCSEC = math.pi / 648000.0


def cos_(t):
    return t.cos() if V.is_sym(t) else np.float64(math.cos(t))


def sin_(t):
    return t.sin() if V.is_sym(t) else np.float64(math.sin(t))


def theta(y, x, u, v):
    return -2.0 * math.pi * (x * u + y * v)


def ref_tables(gy, gx, uv):
    """C[p][k] = Re A[k,p], S[p][k] = Im A[k,p] for pixel centres (gy, gx) in radians and baselines uv"""
    P, K = len(gy), len(uv)
    C = np.empty((P, K), dtype=object)
    S = np.empty((P, K), dtype=object)
    for p in range(P):
        for k in range(K):
            th = theta(gy[p], gx[p], uv[k][0], uv[k][1])
            if V.is_sym(th):
                C[p, k], S[p, k] = cos_(th), sin_(th)
            else:
                # independent of the repository's cos/sin formulation: complex exponential
                z = np.exp(-2j * np.pi * (float(gx[p]) * float(uv[k][0]) + float(gy[p]) * float(uv[k][1])))
                C[p, k], S[p, k] = np.float64(z.real), np.float64(z.imag)
    return C, S


def ref_forward(C, S, x):
    """(Re, Im) of A x for a real vector x"""
    P, K = C.shape
    re = np.empty(K, dtype=object)
    im = np.empty(K, dtype=object)
    for k in range(K):
        ar, ai = 0.0, 0.0
        for p in range(P):
            ar = ar + x[p] * C[p, k]
            ai = ai + x[p] * S[p, k]
        re[k], im[k] = ar, ai
    return re, im


def ref_adjoint(C, S, vr, vi):
    """Re(A^H v): sum_k Re(conj(A[k,p]) v_k) = sum_k vr_k C[p,k] + vi_k S[p,k]"""
    P, K = C.shape
    out = np.empty(P, dtype=object)
    for p in range(P):
        acc = 0.0
        for k in range(K):
            acc = acc + vr[k] * C[p, k] + vi[k] * S[p, k]
        out[p] = acc
    return out


def ref_matrix(C, S, M):
    P, K = C.shape
    n = M.shape[1]
    re = np.empty((K, n), dtype=object)
    im = np.empty((K, n), dtype=object)
    for j in range(n):
        r, i = ref_forward(C, S, M[:, j])
        re[:, j], im[:, j] = r, i
    return re, im


def ref_D(Tr, Ti, dr, di, sr, si):
    K, n = Tr.shape
    out = np.empty(n, dtype=object)
    for j in range(n):
        acc = 0.0
        for k in range(K):
            acc = acc + dr[k] * Tr[k, j] / (sr[k] * sr[k]) + di[k] * Ti[k, j] / (si[k] * si[k])
        out[j] = acc
    return out


def ref_F(Tr, Ti, sr, si):
    K, n = Tr.shape
    out = np.empty((n, n), dtype=object)
    for i in range(n):
        for j in range(n):
            acc = 0.0
            for k in range(K):
                acc = acc + Tr[k, i] * Tr[k, j] / (sr[k] * sr[k]) + Ti[k, i] * Ti[k, j] / (si[k] * si[k])
            out[i, j] = acc
    return out


FORK = [False]


def _merging():
    from symx import merge, shim
    if shim.ENABLED[0] and V._CTX[0] is not None and not FORK[0]:
        return merge.merging()
    import contextlib
    return contextlib.nullcontext()


def _tu():
    from autoarray.operators import transformer_util
    return transformer_util


# =============================================================================================================
# (A) kernels, geometry fully symbolic (cos / sin uninterpreted)

def body_kernels(inp, P, K, S, adjointness=True):
    tu = _tu()
    grid = parr(np.asarray(inp["grid"]).reshape(P, 2))
    uv = parr(np.asarray(inp["uv"]).reshape(K, 2))
    image = np.asarray(inp["image"]).reshape(P)
    M = np.asarray(inp["M"]).reshape(P, S)
    vis = np.asarray(inp["vis"]).reshape(K, 2)
    C, Sn = ref_tables(grid[:, 0], grid[:, 1], uv)
    A, E = {}, {}
    with _merging():
        pr = hx.attempt(tu.preload_real_transforms, grid_radians=grid, uv_wavelengths=uv)
        pi_ = hx.attempt(tu.preload_imag_transforms, grid_radians=grid, uv_wavelengths=uv)
        A["preload_real"], E["preload_real"] = pr, C
        A["preload_imag"], E["preload_imag"] = pi_, Sn
        er, ei = ref_forward(C, Sn, image)
        v1 = hx.attempt(tu.visibilities_jit, image_1d=image, grid_radians=grid, uv_wavelengths=uv)
        A["vis_direct.re"], A["vis_direct.im"] = _split(v1)
        E["vis_direct.re"], E["vis_direct.im"] = er, ei
        if not isinstance(pr, hx.Raised) and not isinstance(pi_, hx.Raised):
            v2 = hx.attempt(tu.visibilities_via_preload_jit_from, image_1d=image, preloaded_reals=pr, preloaded_imags=pi_)
            A["vis_preload.re"], A["vis_preload.im"] = _split(v2)
            E["vis_preload.re"], E["vis_preload.im"] = er, ei
            if not isinstance(v1, hx.Raised) and not isinstance(v2, hx.Raised):      # the two real outputs against each other
                A["vis_preload_vs_direct.re"], A["vis_preload_vs_direct.im"] = _split(v2)
                E["vis_preload_vs_direct.re"], E["vis_preload_vs_direct.im"] = _split(v1)
        img = hx.attempt(tu.image_via_jit_from, n_pixels=P, grid_radians=grid, uv_wavelengths=uv, visibilities=vis)
        A["adjoint"], E["adjoint"] = img, ref_adjoint(C, Sn, vis[:, 0], vis[:, 1])
        tr, ti = ref_matrix(C, Sn, M)
        t1 = hx.attempt(tu.transformed_mapping_matrix_jit, mapping_matrix=M, grid_radians=grid, uv_wavelengths=uv)
        A["tmm_direct.re"], A["tmm_direct.im"] = _split(t1)
        E["tmm_direct.re"], E["tmm_direct.im"] = tr, ti
        if not isinstance(pr, hx.Raised) and not isinstance(pi_, hx.Raised):
            t2 = hx.attempt(tu.transformed_mapping_matrix_via_preload_jit_from, mapping_matrix=M, preloaded_reals=pr, preloaded_imags=pi_)
            A["tmm_preload.re"], A["tmm_preload.im"] = _split(t2)
            E["tmm_preload.re"], E["tmm_preload.im"] = tr, ti
    # adjointness of the two real outputs (no reference involved): Re<v, A I> = <A^H v, I>
    if adjointness and not isinstance(v1, hx.Raised) and not isinstance(img, hx.Raised):
        lhs, rhs = 0.0, 0.0
        vr1, vi1 = _split(v1)
        for k in range(K):
            lhs = lhs + vis[k, 0] * vr1[k] + vis[k, 1] * vi1[k]
        for p in range(P):
            rhs = rhs + image[p] * img[p]
        A["adjointness"], E["adjointness"] = lhs, rhs
    return per_entry(A, E, [k for k in E if k.startswith("tmm_")])


class PrefixKnown(dict):
    """known-finding regions keyed by obligation prefix ('tmm.re' covers 'tmm.re[0, 1]')"""

    @staticmethod
    def _base(k):
        return k.split("[")[0]

    def __contains__(self, k):
        return dict.__contains__(self, self._base(k))

    def get(self, k, default=None):
        return dict.get(self, self._base(k), default)


def per_entry(A, E, keys):
    """one obligation per array entry (small solver queries) for the listed keys"""
    for key in keys:
        if key not in E or key not in A or isinstance(A[key], hx.Raised):
            continue
        a, e = np.asarray(hx.unwrap(A[key]), dtype=object), np.asarray(E[key], dtype=object)
        if a.shape != e.shape or a.ndim == 0:
            continue
        del A[key], E[key]
        for idx in np.ndindex(*a.shape):
            k2 = "%s%s" % (key, list(idx))
            A[k2], E[k2] = a[idx], e[idx]
    return A, E


def _split(x):
    if isinstance(x, hx.Raised):
        return x, x
    return _re(x), _im(x)


def _neg_region(M):
    terms = [e.t < 0 for e in np.asarray(M).reshape(-1) if V.is_sym(e)]
    return z3.Or(*terms) if terms else z3.BoolVal(False)


def _known_matrix(M, keys):
    if "signed-mapping-matrix" not in _known_ids():
        return None
    reg = _neg_region(M)
    return PrefixKnown({k: {"signed-mapping-matrix": reg} for k in keys})


def _parity_axioms(ctx, thetas):
    for th in thetas:
        if V.is_sym(th):
            ctx.assume((-th).cos().t == th.cos().t)
            ctx.assume((-th).sin().t == -(th.sin().t))


def case_kernels(ctx, P, K, S):
    inputs = {"grid": V.real_array("g", (P, 2)), "uv": V.real_array("uv", (K, 2)), "image": V.real_array("i", (P,)),
              "M": V.real_array("m", (P, S)), "vis": V.real_array("v", (K, 2))}
    g, uv = inputs["grid"], inputs["uv"]
    ths = [theta(g[p, 0], g[p, 1], uv[k, 0], uv[k, 1]) for p in range(P) for k in range(K)]
    _parity_axioms(ctx, ths)
    known = _known_matrix(inputs["M"], ["tmm_direct.re", "tmm_direct.im", "tmm_preload.re", "tmm_preload.im"])
    hx.run_body(ctx, body_kernels, inputs, {"P": P, "K": K, "S": S}, validate_every=0, known=known)
    ctx.twin()          # reachability twin (encoding validation against native runs happens in the concrete-geometry cases:
    #                     the abstract cos/sin values of a solver model are not those of the native functions)


# =============================================================================================================
# (B, C) the TransformerDFT class; geometry concrete (native trig, 1e-9) or symbolic (uninterpreted trig, exact)

def _positions(mask):
    return [(r, c) for r in range(mask.shape[0]) for c in range(mask.shape[1]) if not mask[r, c]]


def ref_centres_radians(H, W, pos, oy, ox, sy, sx):
    """unmasked pixel centres (row-major) in radians: y decreases with the row index, x increases with the column index"""
    gy = [(oy + ((H - 1) / 2.0 - r) * sy) * math.pi / 648000.0 for (r, c) in pos]
    gx = [(ox + (c - (W - 1) / 2.0) * sx) * math.pi / 648000.0 for (r, c) in pos]
    return gy, gx


def _geometry(inp, H, W, K):
    mask = np.array(inp["mask"], dtype=bool).reshape(H, W)
    oy, ox = inp["origin"]
    sy, sx = inp["scales"]
    uv = np.asarray(inp["uv"], dtype=object).reshape(K, 2)
    pos = _positions(mask)
    return mask, pos, oy, ox, sy, sx, uv


def _norm_raise(x):
    """any exception -> one marker; an object-array result whose entries are arrays is what NumPy refuses natively
    (storing a sequence into a complex array element raises TypeError)"""
    if isinstance(x, hx.Raised):
        return hx.Raised("raised")
    a = np.asarray(hx.unwrap(x))
    if a.dtype == object and any(isinstance(e, np.ndarray) for e in a.reshape(-1)):
        return hx.Raised("raised")
    return x


def body_class(inp, H, W, K, S, preload):
    import autoarray as aa
    mask, pos, oy, ox, sy, sx, uv = _geometry(inp, H, W, K)
    P = len(pos)
    img = np.asarray(inp["img"]).reshape(H, W)
    M = np.asarray(inp["M"]).reshape(H * W, S)[:P]
    va = np.asarray(inp["va"]).reshape(K, 2)
    vb = np.asarray(inp["vb"]).reshape(K, 2)
    gy, gx = ref_centres_radians(H, W, pos, oy, ox, sy, sx)
    C, Sn = ref_tables(gy, gx, uv)
    A, E = {}, {}
    m = aa.Mask2D(mask=mask, pixel_scales=(sy, sx), origin=(oy, ox))
    with _merging():
        t = hx.attempt(lambda: aa.TransformerDFT(uv_wavelengths=parr(uv), real_space_mask=m, preload_transform=preload))
        A["constructed"], E["constructed"] = (not isinstance(t, hx.Raised)), True
        if isinstance(t, hx.Raised):
            return A, E
        A["grid_radians"] = hx.attempt(lambda: np.asarray(hx.unwrap(t.grid)))
        E["grid_radians"] = np.array([[gy[p], gx[p]] for p in range(P)], dtype=object).reshape(P, 2)
        A["shape"], E["shape"] = [t.total_visibilities, t.total_image_pixels], [K, P]
        if preload:
            A["preload_real"], E["preload_real"] = t.preload_real_transforms, C
            A["preload_imag"], E["preload_imag"] = t.preload_imag_transforms, Sn
        # forward transform of an image (slim and native storage)
        slim = np.array([img[p] for p in pos], dtype=object)
        er, ei = ref_forward(C, Sn, slim)
        image = aa.Array2D(values=img.copy(), mask=m)
        vis = hx.attempt(lambda: t.visibilities_from(image=image))
        A["vis.re"], A["vis.im"] = _split(vis)
        E["vis.re"], E["vis.im"] = er, ei
        A["vis.type"], E["vis.type"] = type(vis).__name__, "Visibilities"
        image_n = aa.Array2D(values=img.copy(), mask=m, store_native=True)
        visn = _norm_raise(hx.attempt(lambda: t.visibilities_from(image=image_n)))
        A["vis_native_stored.re"], A["vis_native_stored.im"] = _split(visn)
        E["vis_native_stored.re"], E["vis_native_stored.im"] = er, ei
        # adjoint: directly constructed visibilities, and visibilities obtained by arithmetic on other visibilities
        va_c = aa.Visibilities(visibilities=cplx(va[:, 0], va[:, 1]))
        vb_c = aa.Visibilities(visibilities=cplx(vb[:, 0], vb[:, 1]))

        def native_of(vec):
            out = np.zeros((H, W), dtype=object)
            for k, p in enumerate(pos):
                out[p] = vec[k]
            return out

        im = hx.attempt(lambda: t.image_from(visibilities=va_c))
        ea = ref_adjoint(C, Sn, va[:, 0], va[:, 1])
        A["image.slim"] = hx.attempt(lambda: im.slim.array) if not isinstance(im, hx.Raised) else im
        E["image.slim"] = ea
        A["image.native"] = hx.attempt(lambda: im.native.array) if not isinstance(im, hx.Raised) else im
        E["image.native"] = native_of(ea)
        vd = hx.attempt(lambda: va_c - vb_c)
        im2 = hx.attempt(lambda: t.image_from(visibilities=vd)) if not isinstance(vd, hx.Raised) else vd
        A["image_of_difference"] = hx.attempt(lambda: im2.slim.array) if not isinstance(im2, hx.Raised) else im2
        E["image_of_difference"] = ref_adjoint(C, Sn, va[:, 0] - vb[:, 0], va[:, 1] - vb[:, 1])
        vs = hx.attempt(lambda: 2.0 * vb_c)
        im3 = hx.attempt(lambda: t.image_from(visibilities=vs)) if not isinstance(vs, hx.Raised) else vs
        A["image_of_scaled"] = hx.attempt(lambda: im3.slim.array) if not isinstance(im3, hx.Raised) else im3
        E["image_of_scaled"] = ref_adjoint(C, Sn, 2.0 * vb[:, 0], 2.0 * vb[:, 1])
        # documented input forms of the visibilities ([[re, im], ...] float array in C order / as a transposed non-contiguous
        # array / as nested lists / list of complex): concrete values combined with the symbolic visibilities by structure arithmetic
        F = np.array([[k + 0.5, -(k + 1) * 0.25] for k in range(K)], dtype=float)
        forms = {"float_c": F.copy(), "float_transposed": np.array([F[:, 0], F[:, 1]]).T, "nested_list": F.tolist(),
                 "complex_list": [complex(a, b) for a, b in F]}
        e_form = ref_adjoint(C, Sn, F[:, 0] + va[:, 0], F[:, 1] + va[:, 1])
        for fname, form in forms.items():
            vf = hx.attempt(lambda: aa.Visibilities(visibilities=form))
            vsum = hx.attempt(lambda: vf + va_c) if not isinstance(vf, hx.Raised) else vf
            imf = hx.attempt(lambda: t.image_from(visibilities=vsum)) if not isinstance(vsum, hx.Raised) else vsum
            A["image_of_form." + fname] = hx.attempt(lambda: imf.slim.array) if not isinstance(imf, hx.Raised) else imf
            E["image_of_form." + fname] = e_form
        # mapping matrix: the operator applied to every column
        T = hx.attempt(lambda: t.transform_mapping_matrix(mapping_matrix=M))
        A["tmm.re"], A["tmm.im"] = _split(T)
        E["tmm.re"], E["tmm.im"] = ref_matrix(C, Sn, M)
        # (h) an image / matrix whose own mask has the same boolean pattern but another origin and pixel scale: the sum uses the
        #     pixel centres of the transformer's real-space mask (and preload == non-preload, both compared with the same reference)
        m_other = aa.Mask2D(mask=mask.copy(), pixel_scales=(sy * 2.0, sx * 0.5), origin=(oy + 1.0, ox - 2.5))
        image_o = aa.Array2D(values=img.copy(), mask=m_other)
        vis_o = hx.attempt(lambda: t.visibilities_from(image=image_o))
        A["vis_foreign_mask.re"], A["vis_foreign_mask.im"] = _split(vis_o)
        E["vis_foreign_mask.re"], E["vis_foreign_mask.im"] = er, ei
        # (g) history: the caller overwrites the arrays the transformer was constructed from; every later result still belongs to
        #     the baselines / mask of construction
        uv_own = parr(uv).copy()
        mask_own = mask.copy()
        m_h = aa.Mask2D(mask=mask_own, pixel_scales=(sy, sx), origin=(oy, ox))
        t_h = hx.attempt(lambda: aa.TransformerDFT(uv_wavelengths=uv_own, real_space_mask=m_h, preload_transform=preload))
        if not isinstance(t_h, hx.Raised):
            image_h = aa.Array2D(values=img.copy(), mask=m_h)
            v_h1 = hx.attempt(lambda: t_h.visibilities_from(image=image_h))
            A["history.vis#1.re"], A["history.vis#1.im"] = _split(v_h1)
            E["history.vis#1.re"], E["history.vis#1.im"] = er, ei
            uv_own[...] = np.asarray(uv_own) * 3.0 + 1000.5          # caller re-uses its buffer
            mask_own[...] = ~mask_own
            v_h2 = hx.attempt(lambda: t_h.visibilities_from(image=image_h))
            A["history.vis#2.re"], A["history.vis#2.im"] = _split(v_h2)
            E["history.vis#2.re"], E["history.vis#2.im"] = er, ei
            im_h = hx.attempt(lambda: t_h.image_from(visibilities=va_c))
            A["history.image#2"] = hx.attempt(lambda: im_h.native.array) if not isinstance(im_h, hx.Raised) else im_h
            E["history.image#2"] = native_of(ea)
            T_h = hx.attempt(lambda: t_h.transform_mapping_matrix(mapping_matrix=M))
            A["history.tmm#2.re"], A["history.tmm#2.im"] = _split(T_h)
            E["history.tmm#2.re"], E["history.tmm#2.im"] = ref_matrix(C, Sn, M)
            A["history.uv_kept"], E["history.uv_kept"] = hx.attempt(lambda: np.asarray(t_h.uv_wavelengths)), np.array(uv, dtype=object)
    return per_entry(A, E, ["tmm.re", "tmm.im", "history.tmm#2.re", "history.tmm#2.im"])


TMM_KEYS = ["tmm.re", "tmm.im", "history.tmm#2.re", "history.tmm#2.im"]


def _known_class(inputs, preload):
    known = _known_matrix(inputs["M"], TMM_KEYS) or PrefixKnown()
    if preload and "preload-native-image" in _known_ids():
        for k in ("vis_native_stored.re", "vis_native_stored.im"):
            known[k] = {"preload-native-image": z3.BoolVal(True)}
    return known or None


def _sym_mask(ctx, H, W):
    mb = V.bool_array("mk", (H, W))
    ctx.assume(z3.Or(*[z3.Not(b.t) for b in mb.reshape(-1)]))
    return ctx.concrete_bools(mb)


def _bounded(ctx, arrs, bound=1000):
    for a in arrs:
        for e in np.asarray(a, dtype=object).reshape(-1):
            if V.is_sym(e):
                ctx.assume(z3.And(e.t <= bound, e.t >= -bound))


# concrete geometries: (pixel scales, origin, baselines); zero and repeated baselines included
GEOMS = [
    {"scales": (1.0, 2.0), "origin": (0.5, -1.0), "uv": [[0.0, 0.0], [100000.5, -200000.25], [100000.5, -200000.25], [30000.75, 50000.5]]},
    {"scales": (0.25, 0.25), "origin": (0.0, 0.0), "uv": [[-400000.5, 150000.25], [0.0, 70000.75]]},
    {"scales": (3.0, 0.5), "origin": (-2.0, 7.5), "uv": [[25000.5, 25000.5], [25000.5, 25000.5], [-60000.25, 0.0]]},
    # long baselines; consecutive baselines that differ by ~2^-20 relative (one wavelength at |u| ~ 1e6): distinct columns of A
    {"scales": (0.5, 0.5), "origin": (0.25, -0.75), "uv": [[1048576.0, -524288.5], [1048577.0, -524289.0], [-300000.25, 700000.5], [-300000.5, 700001.25]]},
]


def case_class_concrete(ctx, H, W, gid, S, preload):
    geo = GEOMS[gid]
    K = len(geo["uv"])
    mask = _sym_mask(ctx, H, W)
    ctx.set_case(mask=mask.tolist())
    inputs = {"mask": mask, "origin": list(geo["origin"]), "scales": list(geo["scales"]), "uv": np.array(geo["uv"], dtype=float),
              "img": V.real_array("i", (H, W)), "M": V.real_array("m", (H * W, S)),
              "va": V.real_array("va", (K, 2)), "vb": V.real_array("vb", (K, 2))}
    _bounded(ctx, [inputs["img"], inputs["M"], inputs["va"], inputs["vb"]])
    hx.run_body(ctx, body_class, inputs, {"H": H, "W": W, "K": K, "S": S, "preload": preload}, tol=1e-9,
                known=_known_class(inputs, preload), validate_every=8)


def case_class_symbolic(ctx, H, W, K, S, preload, scales=(0.5, 2.0), zero_baseline=False):
    mask = _sym_mask(ctx, H, W)
    ctx.set_case(mask=mask.tolist())
    sy, sx = float(scales[0]), float(scales[1])      # dyadic constants (Mask2D geometry divides by the pixel scale)
    oy, ox = V.real("oy"), V.real("ox")
    uv = V.real_array("uv", (K, 2))
    if zero_baseline:          # a zero baseline and a repeated baseline
        uv[0, 0], uv[0, 1] = np.float64(0.0), np.float64(0.0)
        if K > 2:
            uv[2, 0], uv[2, 1] = uv[1, 0], uv[1, 1]
    inputs = {"mask": mask, "origin": [oy, ox], "scales": [sy, sx], "uv": uv,
              "img": V.real_array("i", (H, W)), "M": V.real_array("m", (H * W, S)),
              "va": V.real_array("va", (K, 2)), "vb": V.real_array("vb", (K, 2))}
    pos = _positions(mask)
    gy, gx = ref_centres_radians(H, W, pos, oy, ox, sy, sx)
    ths = [theta(gy[p], gx[p], uv[k, 0], uv[k, 1]) for p in range(len(pos)) for k in range(K)]
    _parity_axioms(ctx, ths)
    hx.run_body(ctx, body_class, inputs, {"H": H, "W": W, "K": K, "S": S, "preload": preload},
                known=_known_class(inputs, preload), validate_every=0)
    ctx.twin()


# =============================================================================================================
# (D) InversionInterferometerMapping: D and F from the transformed mapping matrix

class StandInTransformer:
    """transformer whose transformed mapping matrix is an arbitrary (symbolic) complex matrix per linear object"""

    def __init__(self, real_space_mask, blocks):
        self.real_space_mask = real_space_mask
        self.blocks = blocks           # id(mapping_matrix) -> complex block

    def transform_mapping_matrix(self, mapping_matrix):
        return self.blocks[id(mapping_matrix)]


def body_inversion(inp, H, W, K, S1, S2, preload, mode, reg):
    import autoarray as aa
    mask, pos, oy, ox, sy, sx, uv = _geometry(inp, H, W, K)
    P = len(pos)
    n = S1 + S2
    M = np.asarray(inp["M"]).reshape(H * W, n)[:P]
    d = np.asarray(inp["d"]).reshape(K, 2)
    s = np.asarray(inp["s"]).reshape(K, 2)
    A, E = {}, {}
    m = aa.Mask2D(mask=mask, pixel_scales=(sy, sx), origin=(oy, ox))
    mats = [np.array(M[:, :S1], dtype=object if M.dtype == object else float)] + ([np.array(M[:, S1:], dtype=object if M.dtype == object else float)] if S2 else [])
    with _merging():
        if mode == "stub":
            Tin = np.asarray(inp["T"]).reshape(K, n, 2)
            Tr, Ti = Tin[:, :, 0], Tin[:, :, 1]
            blocks = {id(mats[0]): cplx(Tr[:, :S1], Ti[:, :S1])}
            if S2:
                blocks[id(mats[1])] = cplx(Tr[:, S1:], Ti[:, S1:])
            t = StandInTransformer(m, blocks)
        else:
            t = aa.TransformerDFT(uv_wavelengths=parr(uv), real_space_mask=m, preload_transform=preload)
            gy, gx = ref_centres_radians(H, W, pos, oy, ox, sy, sx)
            C, Sn = ref_tables(gy, gx, uv)
            Tr, Ti = ref_matrix(C, Sn, M)
        regs = [aa.reg.Constant(coefficient=1.0) if reg else None for _ in mats]
        lin = [aa.m.MockLinearObj(parameters=mm.shape[1], mapping_matrix=mm, regularization=r) for mm, r in zip(mats, regs)]
        data = aa.Visibilities(visibilities=cplx(d[:, 0], d[:, 1]))
        noise = aa.VisibilitiesNoiseMap(visibilities=cplx(s[:, 0], s[:, 1]))
        ds = aa.DatasetInterface(data=data, noise_map=noise, transformer=t)
        inv = hx.attempt(lambda: aa.Inversion(dataset=ds, linear_obj_list=lin, settings=aa.SettingsInversion(use_w_tilde=False)))
        A["inversion.type"], E["inversion.type"] = type(inv).__name__, "InversionInterferometerMapping"
        if isinstance(inv, hx.Raised):
            return A, E
        T = hx.attempt(lambda: inv.operated_mapping_matrix)
        A["T.re"], A["T.im"] = _split(T)
        E["T.re"], E["T.im"] = Tr, Ti
        if mode == "real" and not isinstance(T, hx.Raised):
            # compositional: T is compared with the reference above; D and F are the Gram products of the matrix the
            # inversion itself exposes (for every complex matrix: case_inversion_stub)
            Tr, Ti = _split(T)
        A["D"] = hx.attempt(lambda: inv.data_vector)
        E["D"] = ref_D(Tr, Ti, d[:, 0], d[:, 1], s[:, 0], s[:, 1])
        F = ref_F(Tr, Ti, s[:, 0], s[:, 1])
        if not reg:     # documented: linear objects without regularization get a constant added to their diagonal entries
            add = aa.SettingsInversion(use_w_tilde=False).no_regularization_add_to_curvature_diag_value
            for j in range(n):
                F[j, j] = F[j, j] + add
        A["F"] = hx.attempt(lambda: inv.curvature_matrix)
        E["F"] = F
        # two-step history: a second inversion built from the SAME dataset object / linear objects (what every model fit does)
        inv2 = hx.attempt(lambda: aa.Inversion(dataset=ds, linear_obj_list=lin, settings=aa.SettingsInversion(use_w_tilde=False)))
        if not isinstance(inv2, hx.Raised):
            T2 = hx.attempt(lambda: inv2.operated_mapping_matrix)
            Tr2, Ti2 = (_split(T2) if (mode == "real" and not isinstance(T2, hx.Raised)) else (Tr, Ti))
            A["T#2.re"], A["T#2.im"] = _split(T2)
            E["T#2.re"], E["T#2.im"] = Tr2, Ti2
            A["D#2"] = hx.attempt(lambda: inv2.data_vector)
            E["D#2"] = ref_D(Tr2, Ti2, d[:, 0], d[:, 1], s[:, 0], s[:, 1])
            F2 = ref_F(Tr2, Ti2, s[:, 0], s[:, 1])
            if not reg:
                for j in range(n):
                    F2[j, j] = F2[j, j] + add
            A["F#2"] = hx.attempt(lambda: inv2.curvature_matrix)
            E["F#2"] = F2
        else:
            A["D#2"], E["D#2"] = inv2, "second inversion constructed"
        # the dataset's own arrays still hold the values they were built from
        A["dataset.data.re"], A["dataset.data.im"] = _split(ds.data)
        E["dataset.data.re"], E["dataset.data.im"] = np.array(d[:, 0], dtype=object), np.array(d[:, 1], dtype=object)
        A["dataset.noise.re"], A["dataset.noise.im"] = _split(ds.noise_map)
        E["dataset.noise.re"], E["dataset.noise.im"] = np.array(s[:, 0], dtype=object), np.array(s[:, 1], dtype=object)
        if mode == "stub":
            # the util called twice with the same caller-owned arrays
            from autoarray.inversion.inversion.interferometer import inversion_interferometer_util as iu
            T_arr, v_arr, n_arr = cplx(Tr, Ti), cplx(d[:, 0], d[:, 1]), cplx(s[:, 0], s[:, 1])
            for step in (1, 2):
                A["util.D#%d" % step] = hx.attempt(iu.data_vector_via_transformed_mapping_matrix_from, transformed_mapping_matrix=T_arr,
                                                   visibilities=v_arr, noise_map=n_arr)
                E["util.D#%d" % step] = ref_D(Tr, Ti, d[:, 0], d[:, 1], s[:, 0], s[:, 1])
            A["util.visibilities.re"], A["util.visibilities.im"] = _split(v_arr)
            E["util.visibilities.re"], E["util.visibilities.im"] = np.array(d[:, 0], dtype=object), np.array(d[:, 1], dtype=object)
            A["util.noise.re"], A["util.noise.im"] = _split(n_arr)
            E["util.noise.re"], E["util.noise.im"] = np.array(s[:, 0], dtype=object), np.array(s[:, 1], dtype=object)
            A["util.T.re"], A["util.T.im"] = _split(T_arr)
            E["util.T.re"], E["util.T.im"] = np.array(Tr, dtype=object), np.array(Ti, dtype=object)
    return per_entry(A, E, ["T.re", "T.im", "D", "F", "T#2.re", "T#2.im", "D#2", "F#2", "util.D#1", "util.D#2"])


INV_KEYS = ["T.re", "T.im", "T#2.re", "T#2.im"]


def _noise_positive(ctx, s):
    for e in np.asarray(s, dtype=object).reshape(-1):
        ctx.assume(e.t > 0)


def case_inversion_stub(ctx, K, S1, S2, reg):
    """every complex transformed mapping matrix, data and positive noise (no trigonometry involved)"""
    n = S1 + S2
    H, W = 1, 2
    inputs = {"mask": np.full((H, W), False), "origin": [0.0, 0.0], "scales": [1.0, 1.0], "uv": np.zeros((K, 2)),
              "M": V.real_array("m", (H * W, n)), "T": V.real_array("t", (K, n, 2)),
              "d": V.real_array("d", (K, 2)), "s": V.real_array("s", (K, 2))}
    _noise_positive(ctx, inputs["s"])
    hx.run_body(ctx, body_inversion, inputs, {"H": H, "W": W, "K": K, "S1": S1, "S2": S2, "preload": False, "mode": "stub", "reg": reg},
                validate_every=1)


def case_inversion_real(ctx, H, W, K, S1, S2, preload, reg, scales=(0.5, 2.0)):
    """the real TransformerDFT inside the inversion; geometry symbolic (uninterpreted trig), exact obligations"""
    mask = _sym_mask(ctx, H, W)
    ctx.set_case(mask=mask.tolist())
    n = S1 + S2
    sy, sx = float(scales[0]), float(scales[1])
    inputs = {"mask": mask, "origin": [V.real("oy"), V.real("ox")], "scales": [sy, sx], "uv": V.real_array("uv", (K, 2)),
              "M": V.real_array("m", (H * W, n)), "d": V.real_array("d", (K, 2)), "s": V.real_array("s", (K, 2))}
    _noise_positive(ctx, inputs["s"])
    known = _known_matrix(inputs["M"], INV_KEYS)
    hx.run_body(ctx, body_inversion, inputs, {"H": H, "W": W, "K": K, "S1": S1, "S2": S2, "preload": preload, "mode": "real", "reg": reg},
                known=known, validate_every=0)
    ctx.twin()


# concrete kernel-level geometries (radians, wavelengths): generic non-integer values, a zero and a repeated baseline, a repeated pixel
KGEOMS = [
    {"grid": [[1.0e-5, -2.5e-6], [3.2e-6, 4.1e-6], [-7.7e-6, 0.0]], "uv": [[12345.5, -54321.25], [0.0, 0.0], [99999.0, 1000.5]]},
    {"grid": [[0.0, 0.0], [4.8e-6, 4.8e-6], [4.8e-6, 4.8e-6], [-9.6e-6, 1.2e-6]], "uv": [[2.5e5, 2.5e5], [2.5e5, 2.5e5]]},
    {"grid": [[1.1e-5, -2.3e-6], [3.7e-6, 6.1e-6], [-7.9e-6, 1.3e-6]], "uv": [[1048576.0, -2097152.5], [1048577.0, -2097153.5], [1048577.0, -2097153.5]]},
]


def case_kernels_concrete(ctx, gid, S):
    geo = KGEOMS[gid]
    P, K = len(geo["grid"]), len(geo["uv"])
    inputs = {"grid": np.array(geo["grid"], dtype=float), "uv": np.array(geo["uv"], dtype=float), "image": V.real_array("i", (P,)),
              "M": V.real_array("m", (P, S)), "vis": V.real_array("v", (K, 2))}
    _bounded(ctx, [inputs["image"], inputs["M"], inputs["vis"]])
    known = _known_matrix(inputs["M"], ["tmm_direct.re", "tmm_direct.im", "tmm_preload.re", "tmm_preload.im"])
    hx.run_body(ctx, body_kernels, inputs, {"P": P, "K": K, "S": S, "adjointness": False}, tol=1e-9, validate_every=1, known=known)


BODIES = {"case_kernels": body_kernels, "case_kernels_concrete": body_kernels, "case_class_concrete": body_class, "case_class_symbolic": body_class,
          "case_inversion_stub": body_inversion, "case_inversion_real": body_inversion}


UF = {"logic": "QF_NRA"}
NRA = {"logic": "QF_NRA"}


def cases(tier):
    out = []
    q = tier == "quick"
    for (P, K, S) in ([(2, 2, 2), (3, 2, 2)] if q else [(2, 2, 2), (3, 2, 2), (3, 3, 3), (4, 3, 2), (4, 2, 3)]):
        out.append(("case_kernels", {"P": P, "K": K, "S": S}, UF))
    for gid in range(len(KGEOMS)):
        out.append(("case_kernels_concrete", {"gid": gid, "S": 2}))
    if q:
        for pre in (True, False):
            out.append(("case_class_concrete", {"H": 2, "W": 2, "gid": 0, "S": 2, "preload": pre}))
            out.append(("case_class_symbolic", {"H": 2, "W": 2, "K": 2, "S": 2, "preload": pre}, UF))
            out.append(("case_inversion_real", {"H": 1, "W": 2, "K": 2, "S1": 1, "S2": 1, "preload": pre, "reg": True}, UF))
        out.append(("case_class_concrete", {"H": 2, "W": 2, "gid": 1, "S": 1, "preload": True}))
        out.append(("case_class_concrete", {"H": 2, "W": 2, "gid": 2, "S": 1, "preload": False}))
        out.append(("case_class_concrete", {"H": 2, "W": 2, "gid": 3, "S": 1, "preload": True}))
        out.append(("case_class_concrete", {"H": 2, "W": 2, "gid": 3, "S": 1, "preload": False}))
        out.append(("case_inversion_stub", {"K": 2, "S1": 2, "S2": 1, "reg": True}, NRA))
        out.append(("case_inversion_stub", {"K": 3, "S1": 1, "S2": 0, "reg": False}, NRA))
    else:
        for pre in (True, False):
            for gid in range(len(GEOMS)):
                for (H, W) in ((2, 3), (3, 2)):
                    out.append(("case_class_concrete", {"H": H, "W": W, "gid": gid, "S": 2, "preload": pre}, {"split": 2}))
            for sc in ((0.5, 2.0), (0.25, 0.25)):
                out.append(("case_class_symbolic", {"H": 2, "W": 3, "K": 3, "S": 2, "preload": pre, "scales": list(sc)}, dict(UF, split=2)))
            for reg in (True, False):
                out.append(("case_inversion_real", {"H": 2, "W": 2, "K": 3, "S1": 2, "S2": 1, "preload": pre, "reg": reg}, UF))
        for (K, S1, S2) in ((2, 2, 1), (3, 1, 0), (3, 2, 2), (4, 2, 1), (3, 3, 1), (4, 2, 2), (5, 1, 1)):
            for reg in (True, False):
                out.append(("case_inversion_stub", {"K": K, "S1": S1, "S2": S2, "reg": reg}, dict(NRA, timeout_ms=90000)))
        # deeper bounds (same obligations): next sizes up, more scale pairs / parameter splits
        for (P, K, S) in ((4, 3, 3), (5, 2, 2), (3, 4, 2), (5, 3, 2)):
            out.append(("case_kernels", {"P": P, "K": K, "S": S}, UF))
        for pre in (True, False):
            out.append(("case_class_concrete", {"H": 2, "W": 4, "gid": 0 if pre else 3, "S": 2, "preload": pre}, {"split": 3}))
            out.append(("case_class_symbolic", {"H": 3, "W": 2, "K": 3, "S": 2, "preload": pre, "scales": [0.5, 2.0]}, dict(UF, split=2)))
            out.append(("case_class_symbolic", {"H": 2, "W": 3, "K": 3, "S": 2, "preload": pre, "scales": [3.0, 1.0]}, dict(UF, split=2)))
            out.append(("case_inversion_real", {"H": 2, "W": 2, "K": 3, "S1": 1, "S2": 2, "preload": pre, "reg": True, "scales": [0.25, 0.25]}, UF))
            out.append(("case_inversion_real", {"H": 2, "W": 3, "K": 2, "S1": 1, "S2": 1, "preload": pre, "reg": True}, dict(UF, split=2)))
    return out


def replay(cand):
    fn = cand["case_fn"]
    kw = dict(cand["case_kwargs"])
    if fn == "case_kernels_concrete":
        geo = KGEOMS[kw.pop("gid")]
        kw.update(P=len(geo["grid"]), K=len(geo["uv"]), adjointness=False)
    elif fn == "case_class_concrete":
        kw["K"] = len(GEOMS[kw.pop("gid")]["uv"])
    elif fn == "case_class_symbolic":
        kw.pop("scales", None)
        kw.pop("zero_baseline", None)
    elif fn == "case_inversion_stub":
        kw.update(H=1, W=2, preload=False, mode="stub")
    elif fn == "case_inversion_real":
        kw.pop("scales", None)
        kw["mode"] = "real"
    return hx.replay_body(BODIES[fn], dict(cand, case_kwargs=kw))
