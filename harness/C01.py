"""C01 - slim / native forms are exact, order-preserving inverses under any mask."""
import itertools

import numpy as np
import z3

from symx import hx, values as V

PROPERTY = "C01"
FUNCTIONS = [
    "autoarray.structures.arrays.array_2d_util.array_2d_slim_from",
    "autoarray.structures.arrays.array_2d_util.array_2d_native_from",
    "autoarray.structures.arrays.array_2d_util.array_2d_via_indexes_from",
    "autoarray.structures.arrays.array_2d_util.convert_array_2d",
    "autoarray.structures.grids.grid_2d_util.convert_grid_2d",
    "autoarray.structures.grids.grid_2d_util.grid_2d_slim_from",
    "autoarray.structures.grids.grid_2d_util.grid_2d_native_from",
    "autoarray.mask.mask_2d_util.total_pixels_2d_from",
    "autoarray.mask.mask_2d_util.native_index_for_slim_index_2d_from",
    "autoarray.mask.mask_2d_util.mask_slim_indexes_from",
    "autoarray.structures.arrays.array_1d_util.convert_array_1d",
    "autoarray.structures.arrays.array_1d_util.array_1d_slim_from",
    "autoarray.structures.arrays.array_1d_util.array_1d_native_from",
    "autoarray.structures.arrays.array_1d_util.array_1d_via_indexes_1d_from",
    "autoarray.structures.grids.grid_1d_util.convert_grid_1d",
    "autoarray.mask.mask_1d_util.native_index_for_slim_index_1d_from",
    "autoarray.mask.derive.indexes_2d.DeriveIndexes2D.native_for_slim",
    "autoarray.mask.derive.indexes_2d.DeriveIndexes2D.unmasked_slim",
    "autoarray.mask.derive.indexes_2d.DeriveIndexes2D.masked_slim",
]
BOUNDS = {
    "quick": "all 2^(H*W)-1 masks (>=1 unmasked pixel) of every shape with H*W <= 9 (kernels) / <= 8 (classes); 1D masks of length <= 6; "
             "native/slim values, both storage modes: symbolic reals; plus listed larger masks (1D lengths 17-40, 2D up to 5x6) and "
             "C / Fortran / transposed-view memory layouts of the mask and masks supplied as int / float ndarray or nested list; re-masking by a second mask: shifted/flipped copies of every mask, "
             "and every PAIR of masks of shapes with <= 5 pixels",
    "thorough": "all masks of every shape with H*W <= 12 (kernels and classes); 1D masks of length <= 8; every pair of masks of shapes <= 7 pixels",
    "merged": "additionally the slim/native/index kernels with the mask bits left symbolic (merge interpreter, ONE path = all 2^(H*W) masks "
              "and all real values): shape 3x4 (quick) plus 4x4, 3x5 (thorough; 5x5 did not finish within 30 min)",
}
OUTSIDE = ["shapes with more than 12 pixels", "float64 rounding (none arises: the code only copies and multiplies by 0/1)"]
STUBS = []
ASSUMPTIONS = ["mask bits are explored by forking (one path per mask), values are solver variables"]
EXPLORER_OPTS = {"max_paths": 70000}


def _ref(mask):
    pos = [(y, x) for y in range(mask.shape[0]) for x in range(mask.shape[1]) if not mask[y, x]]
    return pos


def _layout(mask, layout):
    """same booleans, other memory layout (seed C01-f: row-major order must not depend on the array's strides)"""
    if layout == "F":
        return np.asfortranarray(mask)
    if layout == "T":
        return np.ascontiguousarray(mask.T).T        # transposed view of a C array (Fortran strides, not flagged owned)
    return mask


def body_kernels_2d(inp, H, W, layout="C"):
    from autoarray.structures.arrays import array_2d_util
    from autoarray.structures.grids import grid_2d_util
    from autoarray.mask import mask_2d_util
    mask = _layout(np.array(inp["mask"], dtype=bool).reshape(H, W), layout)
    v = np.asarray(inp["v"]).reshape(H, W)
    g = np.asarray(inp["g"]).reshape(H, W, 2)
    pos = _ref(mask)
    n = len(pos)
    s = np.asarray(inp["s"]).reshape(-1)[:n]
    gs = np.asarray(inp["gs"]).reshape(-1, 2)[:n]
    A, E = {}, {}
    A["total_pixels"] = hx.attempt(mask_2d_util.total_pixels_2d_from, mask_2d=mask)
    E["total_pixels"] = n
    A["slim"] = hx.attempt(array_2d_util.array_2d_slim_from, array_2d_native=v, mask_2d=mask)
    E["slim"] = np.array([v[p] for p in pos], dtype=object)
    A["native"] = hx.attempt(array_2d_util.array_2d_native_from, array_2d_slim=s, mask_2d=mask)
    en = np.zeros((H, W), dtype=object)
    for k, p in enumerate(pos):
        en[p] = s[k]
    E["native"] = en
    nfs = hx.attempt(mask_2d_util.native_index_for_slim_index_2d_from, mask_2d=mask)
    A["native_for_slim"] = nfs
    E["native_for_slim"] = np.array(pos, dtype=float).reshape(n, 2)
    A["unmasked_slim"] = hx.attempt(mask_2d_util.mask_slim_indexes_from, mask_2d=mask, return_masked_indexes=False)
    E["unmasked_slim"] = np.array([y * W + x for (y, x) in pos], dtype=float)
    A["masked_slim"] = hx.attempt(mask_2d_util.mask_slim_indexes_from, mask_2d=mask, return_masked_indexes=True)
    E["masked_slim"] = np.array([y * W + x for y in range(H) for x in range(W) if mask[y, x]], dtype=float)
    A["grid_slim"] = hx.attempt(grid_2d_util.grid_2d_slim_from, grid_2d_native=g, mask=mask)
    E["grid_slim"] = np.array([[g[p][0], g[p][1]] for p in pos], dtype=object).reshape(n, 2)
    A["grid_native"] = hx.attempt(grid_2d_util.grid_2d_native_from, grid_2d_slim=gs, mask_2d=mask)
    eg = np.zeros((H, W, 2), dtype=object)
    for k, p in enumerate(pos):
        eg[p][0], eg[p][1] = gs[k, 0], gs[k, 1]
    E["grid_native"] = eg
    # round trips through the real functions only
    if not isinstance(A["native"], hx.Raised):
        A["slim_native_slim"] = hx.attempt(array_2d_util.array_2d_slim_from, array_2d_native=A["native"], mask_2d=mask)
        E["slim_native_slim"] = s
    if not isinstance(A["slim"], hx.Raised):
        A["native_slim_native"] = hx.attempt(array_2d_util.array_2d_native_from, array_2d_slim=A["slim"], mask_2d=mask)
        ez = np.zeros((H, W), dtype=object)
        for p in pos:
            ez[p] = v[p]
        E["native_slim_native"] = ez
    return A, E


def _sym_mask(ctx, shape, name="m"):
    m = V.bool_array(name, shape)
    ctx.assume(z3.Or(*[z3.Not(b.t) for b in m.reshape(-1)]))
    mask = ctx.concrete_bools(m)
    return mask


def case_kernels_2d(ctx, H, W, layout="C"):
    mask = _sym_mask(ctx, (H, W))
    ctx.set_case(mask=mask.tolist())
    inputs = {"mask": mask, "v": V.real_array("v", (H, W)), "g": V.real_array("g", (H, W, 2)),
              "s": V.real_array("s", (H * W,)), "gs": V.real_array("gs", (H * W, 2))}
    hx.run_body(ctx, body_kernels_2d, inputs, {"H": H, "W": W, "layout": layout}, validate_every=16)


def _remask_part(inp, H, W, mask, m, v, g, A, E):
    import autoarray as aa
    # re-masking (seed C01-j): a structure on mask m is cut down by ANOTHER mask m2 of the same shape - the result's native
    # form holds the source's values at their ORIGINAL positions (zero where either mask masks), its slim form lists them
    # in row-major order of m2. m2 is an input when the case forks it, otherwise shifted copies of m (equal counts).
    seconds = []
    if "mask2" in inp:
        seconds.append(("m2", np.array(inp["mask2"], dtype=bool).reshape(H, W)))
    else:
        seconds.append(("roll_x", np.roll(np.array(mask), 1, axis=1)))
        seconds.append(("roll_y", np.roll(np.array(mask), 1, axis=0)))
        seconds.append(("flip", np.array(mask)[::-1, ::-1].copy()))
    for nm2, mk2 in seconds:
        if mk2.all():
            continue
        m2 = aa.Mask2D(mask=mk2, pixel_scales=(1.0, 2.0))
        pos2 = _ref(mk2)
        for sn in (False, True):
            tag = "_sn%d.remask_%s" % (sn, nm2)
            keep = lambda p: (not mask[p])
            e_nat = np.zeros((H, W), dtype=object)
            for p in pos2:
                e_nat[p] = v[p] if keep(p) else 0.0
            src = aa.Array2D(values=v.copy(), mask=m, store_native=sn)
            r = hx.attempt(lambda: src.apply_mask(mask=m2))
            A["Array2D" + tag + ".native"] = hx.attempt(lambda: r.native.array) if not isinstance(r, hx.Raised) else r
            E["Array2D" + tag + ".native"] = e_nat
            A["Array2D" + tag + ".slim"] = hx.attempt(lambda: r.slim.array) if not isinstance(r, hx.Raised) else r
            E["Array2D" + tag + ".slim"] = np.array([e_nat[p] for p in pos2], dtype=object)
            e_gn = np.zeros((H, W, 2), dtype=object)
            for p in pos2:
                if keep(p):
                    e_gn[p][0], e_gn[p][1] = g[p][0], g[p][1]
            srcv = aa.VectorYX2D(values=g.copy(), mask=m, store_native=sn, grid=aa.Grid2D.from_mask(mask=m))
            rv = hx.attempt(lambda: srcv.apply_mask(mask=m2))
            A["VectorYX2D" + tag + ".native"] = hx.attempt(lambda: rv.native.array) if not isinstance(rv, hx.Raised) else rv
            E["VectorYX2D" + tag + ".native"] = e_gn
            A["VectorYX2D" + tag + ".slim"] = hx.attempt(lambda: rv.slim.array) if not isinstance(rv, hx.Raised) else rv
            E["VectorYX2D" + tag + ".slim"] = np.array([[e_gn[p][0], e_gn[p][1]] for p in pos2], dtype=object).reshape(len(pos2), 2)
            # a new structure built from the masked source's native form on the second mask
            r2 = hx.attempt(lambda: aa.Grid2D(values=aa.Grid2D(values=g.copy(), mask=m, store_native=sn).native, mask=m2))
            A["Grid2D" + tag + ".native"] = hx.attempt(lambda: r2.native.array) if not isinstance(r2, hx.Raised) else r2
            E["Grid2D" + tag + ".native"] = e_gn


def body_remask_2d(inp, H, W):
    import autoarray as aa
    mask = np.array(inp["mask"], dtype=bool).reshape(H, W)
    v = np.asarray(inp["v"]).reshape(H, W)
    g = np.asarray(inp["g"]).reshape(H, W, 2)
    m = aa.Mask2D(mask=mask, pixel_scales=(1.0, 2.0))
    A, E = {}, {}
    _remask_part(inp, H, W, mask, m, v, g, A, E)
    return A, E


def body_classes_2d(inp, H, W, layout="C"):
    import autoarray as aa
    mask = _layout(np.array(inp["mask"], dtype=bool).reshape(H, W), layout if layout in ("C", "F", "T") else "C")
    v = np.asarray(inp["v"]).reshape(H, W)
    g = np.asarray(inp["g"]).reshape(H, W, 2)
    pos = _ref(mask)
    n = len(pos)
    s = np.asarray(inp["s"]).reshape(-1)[:n]
    gs = np.asarray(inp["gs"]).reshape(-1, 2)[:n]
    # the mask may be handed to Mask2D as bool ndarray, integer 0/1 ndarray, float ndarray or nested list (seed C01-m)
    mask_in = {"I": lambda: mask.astype(int), "D": lambda: mask.astype(float), "L": lambda: mask.tolist()}.get(layout, lambda: mask)()
    m = aa.Mask2D(mask=mask_in, pixel_scales=(1.0, 2.0))
    A, E = {}, {}
    e_slim_v = np.array([v[p] for p in pos], dtype=object)
    e_nat_v = np.zeros((H, W), dtype=object)
    for p in pos:
        e_nat_v[p] = v[p]
    e_nat_s = np.zeros((H, W), dtype=object)
    for k, p in enumerate(pos):
        e_nat_s[p] = s[k]
    e_gslim_g = np.array([[g[p][0], g[p][1]] for p in pos], dtype=object).reshape(n, 2)
    e_gnat_g = np.zeros((H, W, 2), dtype=object)
    for p in pos:
        e_gnat_g[p][0], e_gnat_g[p][1] = g[p][0], g[p][1]
    e_gnat_s = np.zeros((H, W, 2), dtype=object)
    for k, p in enumerate(pos):
        e_gnat_s[p][0], e_gnat_s[p][1] = gs[k, 0], gs[k, 1]
    for sn in (False, True):
        tag = "_sn%d" % sn

        def mk(cls, vals):
            return hx.attempt(lambda: cls(values=vals.copy(), mask=m, store_native=sn))

        for cname, cls, nat_in, slim_in, e_from_nat, e_from_slim in (
                ("Array2D", aa.Array2D, v, s, (e_slim_v, e_nat_v), (s, e_nat_s)),):
            o = mk(cls, nat_in)
            A[cname + tag + "_nat_in.slim"] = hx.attempt(lambda: o.slim.array) if not isinstance(o, hx.Raised) else o
            E[cname + tag + "_nat_in.slim"] = e_from_nat[0]
            A[cname + tag + "_nat_in.native"] = hx.attempt(lambda: o.native.array) if not isinstance(o, hx.Raised) else o
            E[cname + tag + "_nat_in.native"] = e_from_nat[1]
            A[cname + tag + "_nat_in.array"] = hx.attempt(lambda: o.array) if not isinstance(o, hx.Raised) else o
            E[cname + tag + "_nat_in.array"] = e_from_nat[1] if sn else e_from_nat[0]
            # structures derived by arithmetic still publish slim/native forms of their own contents
            c = inp["c"]
            for opn, opf in (("add", lambda a: a + c), ("mul", lambda a: a * c), ("rsub", lambda a: c - a)):
                d = hx.attempt(lambda: opf(o)) if not isinstance(o, hx.Raised) else o
                A[cname + tag + "_nat_in.%s.native" % opn] = hx.attempt(lambda: d.native.array) if not isinstance(d, hx.Raised) else d
                en = np.zeros((H, W), dtype=object)
                for p in pos:
                    en[p] = opf(v[p])
                E[cname + tag + "_nat_in.%s.native" % opn] = en
                A[cname + tag + "_nat_in.%s.slim" % opn] = hx.attempt(lambda: d.slim.array) if not isinstance(d, hx.Raised) else d
                E[cname + tag + "_nat_in.%s.slim" % opn] = np.array([opf(v[p]) for p in pos], dtype=object)
            o2 = mk(cls, slim_in)
            A[cname + tag + "_slim_in.slim"] = hx.attempt(lambda: o2.slim.array) if not isinstance(o2, hx.Raised) else o2
            E[cname + tag + "_slim_in.slim"] = e_from_slim[0]
            A[cname + tag + "_slim_in.native"] = hx.attempt(lambda: o2.native.array) if not isinstance(o2, hx.Raised) else o2
            E[cname + tag + "_slim_in.native"] = e_from_slim[1]
        for cname, cls in (("Grid2D", aa.Grid2D), ("VectorYX2D", aa.VectorYX2D)):
            kw = {} if cname == "Grid2D" else {"grid": aa.Grid2D.from_mask(mask=m)}

            def mkg(vals):
                return hx.attempt(lambda: cls(values=vals.copy(), mask=m, store_native=sn, **kw))

            o = mkg(g)
            A[cname + tag + "_nat_in.slim"] = hx.attempt(lambda: o.slim.array) if not isinstance(o, hx.Raised) else o
            E[cname + tag + "_nat_in.slim"] = e_gslim_g
            A[cname + tag + "_nat_in.native"] = hx.attempt(lambda: o.native.array) if not isinstance(o, hx.Raised) else o
            E[cname + tag + "_nat_in.native"] = e_gnat_g
            o2 = mkg(gs)
            A[cname + tag + "_slim_in.slim"] = hx.attempt(lambda: o2.slim.array) if not isinstance(o2, hx.Raised) else o2
            E[cname + tag + "_slim_in.slim"] = gs
            A[cname + tag + "_slim_in.native"] = hx.attempt(lambda: o2.native.array) if not isinstance(o2, hx.Raised) else o2
            E[cname + tag + "_slim_in.native"] = e_gnat_s
    # values supplied as a STRUCTURE that carries another mask of the same shape (here: nothing masked): the new
    # structure must publish forms masked by ITS OWN mask (seed C01-c)
    m_all = aa.Mask2D(mask=np.full((H, W), False), pixel_scales=(1.0, 2.0))
    for sn in (False, True):
        tag = "_sn%d" % sn
        src_a = aa.Array2D(values=v.copy(), mask=m_all, store_native=True)
        o = hx.attempt(lambda: aa.Array2D(values=src_a, mask=m, store_native=sn))
        A["Array2D" + tag + "_struct_in.native"] = hx.attempt(lambda: o.native.array) if not isinstance(o, hx.Raised) else o
        E["Array2D" + tag + "_struct_in.native"] = e_nat_v
        A["Array2D" + tag + "_struct_in.slim"] = hx.attempt(lambda: o.slim.array) if not isinstance(o, hx.Raised) else o
        E["Array2D" + tag + "_struct_in.slim"] = e_slim_v
        for cname, cls in (("Grid2D", aa.Grid2D), ("VectorYX2D", aa.VectorYX2D)):
            kw = {} if cname == "Grid2D" else {"grid": aa.Grid2D.from_mask(mask=m)}
            kw_all = {} if cname == "Grid2D" else {"grid": aa.Grid2D.from_mask(mask=m_all)}
            src_g = cls(values=g.copy(), mask=m_all, store_native=True, **kw_all)
            for how, vals in (("struct", src_g), ("struct_native", src_g.native)):
                og = hx.attempt(lambda: cls(values=vals, mask=m, store_native=sn, **kw))
                A[cname + tag + "_%s_in.native" % how] = hx.attempt(lambda: og.native.array) if not isinstance(og, hx.Raised) else og
                E[cname + tag + "_%s_in.native" % how] = e_gnat_g
                A[cname + tag + "_%s_in.slim" % how] = hx.attempt(lambda: og.slim.array) if not isinstance(og, hx.Raised) else og
                E[cname + tag + "_%s_in.slim" % how] = e_gslim_g
    # histories (seeds C01-g, C01-h): (1) the caller re-uses / overwrites the buffer it passed in after construction -
    # the structure must keep the values supplied at construction; (2) read .native, update one entry in place through
    # the structure's own __setitem__, read again - both forms must describe the updated contents.
    w = inp["c"]
    if n >= 1:
        for sn in (False, True):
            tag = "_sn%d" % sn
            for form, src, e_slim_, e_nat_ in (("slim_in", s, s, e_nat_s), ("nat_in", v, e_slim_v, e_nat_v)):
                buf = np.array(src, dtype=object).copy()
                o = hx.attempt(lambda: aa.Array2D(values=buf, mask=m, store_native=sn))
                if isinstance(o, hx.Raised):
                    continue
                buf[...] = buf * 0 + w + 7.0              # caller overwrites its own array afterwards
                A["Array2D%s_%s.after_caller_overwrite.slim" % (tag, form)] = hx.attempt(lambda: o.slim.array)
                E["Array2D%s_%s.after_caller_overwrite.slim" % (tag, form)] = e_slim_
                A["Array2D%s_%s.after_caller_overwrite.native" % (tag, form)] = hx.attempt(lambda: o.native.array)
                E["Array2D%s_%s.after_caller_overwrite.native" % (tag, form)] = e_nat_
            # derived structure edited in place must not change the source
            a0 = aa.Array2D(values=np.array(s, dtype=object).copy(), mask=m, store_native=sn)
            d0 = a0.slim
            hx.attempt(lambda: d0.__setitem__(0, w))
            A["Array2D%s.source_after_edit_of_derived_slim" % tag] = hx.attempt(lambda: a0.slim.array)
            E["Array2D%s.source_after_edit_of_derived_slim" % tag] = s
            # read native, update in place, read again
            for cname, cls, vals_slim, kw2 in (("Array2D", aa.Array2D, s, {}), ("Grid2D", aa.Grid2D, gs, {})):
                o = cls(values=np.array(vals_slim, dtype=object).copy(), mask=m, store_native=sn, **kw2)
                first = hx.attempt(lambda: o.native.array)
                k = n - 1
                new_entry = w if cname == "Array2D" else np.array([w, w + 1.0], dtype=object)
                idx = k if not sn else pos[k]
                r = hx.attempt(lambda: o.__setitem__(idx, new_entry))
                exp_slim = np.array(vals_slim, dtype=object).copy()
                exp_slim[k] = new_entry
                if cname == "Array2D":
                    exp_nat = np.zeros((H, W), dtype=object)
                    for kk, p in enumerate(pos):
                        exp_nat[p] = exp_slim[kk]
                else:
                    exp_nat = np.zeros((H, W, 2), dtype=object)
                    for kk, p in enumerate(pos):
                        exp_nat[p][0], exp_nat[p][1] = exp_slim[kk, 0], exp_slim[kk, 1]
                A["%s%s.native_after_inplace_update" % (cname, tag)] = hx.attempt(lambda: o.native.array) if not isinstance(r, hx.Raised) else r
                E["%s%s.native_after_inplace_update" % (cname, tag)] = exp_nat
                A["%s%s.slim_after_inplace_update" % (cname, tag)] = hx.attempt(lambda: o.slim.array) if not isinstance(r, hx.Raised) else r
                E["%s%s.slim_after_inplace_update" % (cname, tag)] = exp_slim
    _remask_part(inp, H, W, mask, m, v, g, A, E)
    di = m.derive_indexes
    A["native_for_slim"] = hx.attempt(lambda: np.asarray(di.native_for_slim))
    E["native_for_slim"] = np.array(pos, dtype=float).reshape(n, 2)
    A["unmasked_slim"] = hx.attempt(lambda: np.asarray(di.unmasked_slim))
    E["unmasked_slim"] = np.array([y * W + x for (y, x) in pos], dtype=float)
    A["masked_slim"] = hx.attempt(lambda: np.asarray(di.masked_slim))
    E["masked_slim"] = np.array([y * W + x for y in range(H) for x in range(W) if mask[y, x]], dtype=float)
    return A, E


def case_classes_2d(ctx, H, W, layout="C"):
    mask = _sym_mask(ctx, (H, W))
    ctx.set_case(mask=mask.tolist())
    inputs = {"mask": mask, "v": V.real_array("v", (H, W)), "g": V.real_array("g", (H, W, 2)),
              "s": V.real_array("s", (H * W,)), "gs": V.real_array("gs", (H * W, 2)), "c": V.real("c")}
    hx.run_body(ctx, body_classes_2d, inputs, {"H": H, "W": W, "layout": layout}, validate_every=32)


def case_remask_2d(ctx, H, W):
    """both masks forked independently (seed C01-j)"""
    mask = _sym_mask(ctx, (H, W))
    mask2 = _sym_mask(ctx, (H, W), name="n")
    ctx.set_case(mask=mask.tolist(), mask2=mask2.tolist())
    inputs = {"mask": mask, "mask2": mask2, "v": V.real_array("v", (H, W)), "g": V.real_array("g", (H, W, 2))}
    hx.run_body(ctx, body_remask_2d, inputs, {"H": H, "W": W}, validate_every=64)


def body_1d(inp, N):
    import autoarray as aa
    from autoarray.structures.arrays import array_1d_util
    from autoarray.structures.grids import grid_1d_util
    from autoarray.mask import mask_1d_util
    mask = np.array(inp["mask"], dtype=bool).reshape(N)
    v = np.asarray(inp["v"]).reshape(N)
    pos = [i for i in range(N) if not mask[i]]
    n = len(pos)
    s = np.asarray(inp["s"]).reshape(-1)[:n]
    A, E = {}, {}
    e_slim = np.array([v[i] for i in pos], dtype=object)
    e_nat_v = np.zeros(N, dtype=object)
    for i in pos:
        e_nat_v[i] = v[i]
    e_nat_s = np.zeros(N, dtype=object)
    for k, i in enumerate(pos):
        e_nat_s[i] = s[k]
    A["slim"] = hx.attempt(array_1d_util.array_1d_slim_from, array_1d_native=v, mask_1d=mask)
    E["slim"] = e_slim
    A["native"] = hx.attempt(array_1d_util.array_1d_native_from, array_1d_slim=s, mask_1d=mask)
    E["native"] = e_nat_s
    A["native_for_slim"] = hx.attempt(mask_1d_util.native_index_for_slim_index_1d_from, mask_1d=mask)
    E["native_for_slim"] = np.array(pos, dtype=float)
    m = aa.Mask1D(mask=mask, pixel_scales=(1.5,))
    for sn in (False, True):
        tag = "_sn%d" % sn
        o = hx.attempt(lambda: aa.Array1D(values=v.copy(), mask=m, store_native=sn))
        A["Array1D" + tag + "_nat_in.slim"] = hx.attempt(lambda: o.slim.array) if not isinstance(o, hx.Raised) else o
        E["Array1D" + tag + "_nat_in.slim"] = e_slim
        # 1D clause of the property: native -> slim -> native returns the native values with masked positions zeroed
        A["Array1D" + tag + "_nat_in.slim.native"] = hx.attempt(lambda: o.slim.native.array) if not isinstance(o, hx.Raised) else o
        E["Array1D" + tag + "_nat_in.slim.native"] = e_nat_v
        o2 = hx.attempt(lambda: aa.Array1D(values=s.copy(), mask=m, store_native=sn))
        A["Array1D" + tag + "_slim_in.slim"] = hx.attempt(lambda: o2.slim.array) if not isinstance(o2, hx.Raised) else o2
        E["Array1D" + tag + "_slim_in.slim"] = s
        A["Array1D" + tag + "_slim_in.native"] = hx.attempt(lambda: o2.native.array) if not isinstance(o2, hx.Raised) else o2
        E["Array1D" + tag + "_slim_in.native"] = e_nat_s
        A["Array1D" + tag + "_slim_in.native.slim"] = hx.attempt(lambda: o2.native.slim.array) if not isinstance(o2, hx.Raised) else o2
        E["Array1D" + tag + "_slim_in.native.slim"] = s
        o3 = hx.attempt(lambda: aa.Grid1D(values=v.copy(), mask=m, store_native=sn))
        A["Grid1D" + tag + "_nat_in.slim"] = hx.attempt(lambda: o3.slim.array) if not isinstance(o3, hx.Raised) else o3
        E["Grid1D" + tag + "_nat_in.slim"] = e_slim
        A["Grid1D" + tag + "_nat_in.slim.native"] = hx.attempt(lambda: o3.slim.native.array) if not isinstance(o3, hx.Raised) else o3
        E["Grid1D" + tag + "_nat_in.slim.native"] = e_nat_v
    return A, E


def case_1d(ctx, N):
    mask = _sym_mask(ctx, (N,))
    ctx.set_case(mask=mask.tolist())
    inputs = {"mask": mask, "v": V.real_array("v", (N,)), "s": V.real_array("s", (N,))}
    hx.run_body(ctx, body_1d, inputs, {"N": N}, validate_every=8)


LISTED_1D = {
    "alt17": [i % 2 == 0 for i in range(17)], "ends20": [i in (0, 1, 18, 19) for i in range(20)],
    "block33": [10 <= i < 25 for i in range(33)], "thirds24": [i % 3 == 1 for i in range(24)],
    "none18": [False] * 18, "prime40": [i in (2, 3, 5, 7, 11, 13, 17, 19, 23, 29, 31, 37) for i in range(40)],
}


def case_1d_listed(ctx, name):
    """longer 1D masks from a list (the all-masks enumeration stops at length 6/8): values stay symbolic (seed C01-e)"""
    mask = np.array(LISTED_1D[name], dtype=bool)
    N = mask.shape[0]
    ctx.set_case(mask_name=name)
    inputs = {"mask": mask, "v": V.real_array("v", (N,)), "s": V.real_array("s", (N,))}
    hx.run_body(ctx, body_1d, inputs, {"N": N}, validate_every=1)


LISTED_2D = {
    "ring5x5": [[not (1 <= y <= 3 and 1 <= x <= 3) or (y, x) == (2, 2) for x in range(5)] for y in range(5)],
    "diag4x6": [[(x + y) % 3 != 0 for x in range(6)] for y in range(4)],
    "lastcol6x3": [[x != 2 for x in range(3)] for y in range(6)],
    "full3x7": [[False] * 7 for _ in range(3)],
    "two_blobs5x6": [[not ((y < 2 and x < 2) or (y > 2 and x > 3)) for x in range(6)] for y in range(5)],
}


def case_listed_2d(ctx, name, layout="C", kind="kernels"):
    mask = np.array(LISTED_2D[name], dtype=bool)
    H, W = mask.shape
    ctx.set_case(mask_name=name)
    inputs = {"mask": mask, "v": V.real_array("v", (H, W)), "g": V.real_array("g", (H, W, 2)),
              "s": V.real_array("s", (H * W,)), "gs": V.real_array("gs", (H * W, 2)), "c": V.real("c")}
    body = body_kernels_2d if kind == "kernels" else body_classes_2d
    hx.run_body(ctx, body, inputs, {"H": H, "W": W, "layout": layout}, validate_every=1)


BODIES = {"case_kernels_2d": body_kernels_2d, "case_classes_2d": body_classes_2d, "case_1d": body_1d, "case_remask_2d": body_remask_2d}


def _cases(tier):
    cap_k, cap_c, cap_1 = (9, 8, 6) if tier == "quick" else (12, 12, 8)
    out = []
    for H in range(1, 13):
        for W in range(1, 13):
            n = H * W
            sp = {"split": 0 if n < 10 else (4 if n <= 11 else 6)}
            if n <= cap_k:
                out.append(("case_kernels_2d", {"H": H, "W": W}, sp))
            if n <= cap_c:
                out.append(("case_classes_2d", {"H": H, "W": W}, sp))
    cap_r = 5 if tier == "quick" else 7
    for H in range(1, 8):
        for W in range(1, 8):
            if 2 <= H * W <= cap_r:
                out.append(("case_remask_2d", {"H": H, "W": W}, {"split": 0 if H * W < 6 else (4 if H * W < 8 else 6)}))
    for N in range(1, cap_1 + 1):
        out.append(("case_1d", {"N": N}))
    for nm in LISTED_1D:
        out.append(("case_1d_listed", {"name": nm}))
    for nm in LISTED_2D:
        for lay in ("C", "F", "T"):
            out.append(("case_listed_2d", {"name": nm, "layout": lay, "kind": "kernels"}))
            out.append(("case_listed_2d", {"name": nm, "layout": lay, "kind": "classes"}))
    for (H, W) in [(2, 3), (3, 2), (3, 3)] + ([] if tier == "quick" else [(2, 4), (4, 2), (3, 4)]):
        for lay in ("F", "T"):
            out.append(("case_kernels_2d", {"H": H, "W": W, "layout": lay}))
            out.append(("case_classes_2d", {"H": H, "W": W, "layout": lay}))
    for (H, W) in [(2, 2), (2, 3)] + ([] if tier == "quick" else [(3, 2), (3, 3)]):
        for lay in ("I", "D", "L"):          # mask supplied as int / float ndarray or nested list
            out.append(("case_classes_2d", {"H": H, "W": W, "layout": lay}))
    out.sort(key=lambda c: -(c[1].get("H", 1) * c[1].get("W", c[1].get("N", 1))))
    for (H, W) in ([(3, 4)] if tier == "quick" else [(3, 4), (4, 4), (3, 5)]):
        out.append(("case_merged", {"H": H, "W": W}, {"timeout_ms": 60000 if tier == "quick" else 180000}))
    return out


def replay(cand):
    cand = dict(cand)
    kw = dict(cand["case_kwargs"])
    if cand["case_fn"] == "case_1d_listed":
        body, kw = body_1d, {"N": len(LISTED_1D[kw["name"]])}
    elif cand["case_fn"] == "case_listed_2d":
        m = np.array(LISTED_2D[kw["name"]])
        body = body_kernels_2d if kw.get("kind") == "kernels" else body_classes_2d
        kw = {"H": m.shape[0], "W": m.shape[1], "layout": kw.get("layout", "C")}
    else:
        body = BODIES[cand["case_fn"]]
    cand["case_kwargs"] = kw
    return hx.replay_body(body, cand)


# ---------------------------------------------------------------------------- merged kernels: all masks of a shape in ONE path

def POST_INSTALL():
    from symx import merge
    merge.install_dispatchers()


def body_merged(inp, H, W):
    from autoarray.structures.arrays import array_2d_util
    from autoarray.mask import mask_2d_util
    raw = np.asarray(inp["mask"], dtype=object).reshape(H, W)
    symbolic = any(isinstance(b, V.SymBool) for b in raw.reshape(-1))
    mask = raw if symbolic else np.array(raw, dtype=bool)
    m = [[mask[y, x] if symbolic else bool(mask[y, x]) for x in range(W)] for y in range(H)]
    v = np.asarray(inp["v"], dtype=object).reshape(H, W)
    s = np.asarray(inp["s"], dtype=object).reshape(-1)
    A, E = {}, {}
    slim = hx.attempt(array_2d_util.array_2d_slim_from, array_2d_native=v, mask_2d=mask)
    nfs = hx.attempt(mask_2d_util.native_index_for_slim_index_2d_from, mask_2d=mask)
    un_idx = hx.attempt(mask_2d_util.mask_slim_indexes_from, mask_2d=mask, return_masked_indexes=False)
    ma_idx = hx.attempt(mask_2d_util.mask_slim_indexes_from, mask_2d=mask, return_masked_indexes=True)
    native = hx.attempt(array_2d_util.array_2d_native_from, array_2d_slim=s, mask_2d=mask)
    for nm, val in (("slim", slim), ("native_for_slim", nfs), ("unmasked_slim", un_idx), ("masked_slim", ma_idx), ("native", native)):
        if isinstance(val, hx.Raised):
            A[nm + "_no_exception"] = val
            E[nm + "_no_exception"] = "ok"
            return A, E
    nat = np.asarray(hx.unwrap(native), dtype=object)
    nfs_a = np.asarray(hx.unwrap(nfs), dtype=object)
    slim_a = np.asarray(hx.unwrap(slim), dtype=object)
    un_a = np.asarray(hx.unwrap(un_idx), dtype=object)
    ma_a = np.asarray(hx.unwrap(ma_idx), dtype=object)
    cap = H * W
    # reference: entry k of every slim-ordered list belongs to THE unmasked pixel whose row-major rank is k
    ranks, mranks, rank, mrank = {}, {}, 0, 0
    for y in range(H):
        for x in range(W):
            ranks[(y, x)], mranks[(y, x)] = rank, mrank
            rank = rank + hx.b2i(hx.bneg(m[y][x]))
            mrank = mrank + hx.b2i(m[y][x])

    def pick(k, value_of, masked_list=False):
        r = 0
        for y in range(H):
            for x in range(W):
                un = hx.bneg(m[y][x])
                hit = hx.band(m[y][x], mranks[(y, x)] == k) if masked_list else hx.band(un, ranks[(y, x)] == k)
                r = hx.ite(hit, value_of(y, x), r)
        return r

    def get(a, k):
        return a[k] if k < a.shape[0] else 0

    for k in range(cap):
        A["slim_%d" % k] = get(slim_a, k)
        E["slim_%d" % k] = pick(k, lambda y, x: v[y, x])
        A["native_for_slim_%d" % k] = [get(nfs_a[:, 0], k), get(nfs_a[:, 1], k)]
        E["native_for_slim_%d" % k] = [pick(k, lambda y, x: y), pick(k, lambda y, x: x)]
        A["unmasked_slim_%d" % k] = get(un_a, k)
        E["unmasked_slim_%d" % k] = pick(k, lambda y, x: y * W + x)
        A["masked_slim_%d" % k] = get(ma_a, k)
        E["masked_slim_%d" % k] = pick(k, lambda y, x: y * W + x, masked_list=True)
    for y in range(H):
        for x in range(W):
            A["native_entry_%d_%d" % (y, x)] = nat[y, x]
            E["native_entry_%d_%d" % (y, x)] = hx.ite(hx.bneg(m[y][x]), hx.sel(s, ranks[(y, x)]), 0)
    for nm, arr_, ref in (("slim", slim, rank), ("native_for_slim", nfs, rank), ("unmasked_slim", un_idx, rank), ("masked_slim", ma_idx, mrank)):
        A["length_" + nm] = hx.length(arr_)
        E["length_" + nm] = ref
    return A, E


def case_merged(ctx, H, W):
    from symx import merge
    m = V.bool_array("m", (H, W))
    ctx.assume(z3.Or(*[z3.Not(b.t) for b in m.reshape(-1)]))
    ctx.set_case(shape=[H, W], mode="merged: all masks of the shape in one path")
    inputs = {"mask": m, "v": V.real_array("v", (H, W)), "s": V.real_array("s", (H * W,))}
    with merge.merging() as ev:
        hx.run_body(ctx, body_merged, inputs, {"H": H, "W": W}, validate_every=1)
        ctx.check("no exception event reachable (IndexError etc.)", [z3.Not(g) for (g, n, msg) in ev])


BODIES["case_merged"] = body_merged


def cases(tier):
    cs = _cases(tier)
    return [c for c in cs if c[0] == "case_merged"] + [c for c in cs if c[0] != "case_merged"]     # long single-path cases first
