"""C02 - pixel indices and scaled (y,x) coordinates are consistent inverse maps; shape-based mask constructors."""
import numpy as np
import z3

from symx import hx, values as V

PROPERTY = "C02"
FUNCTIONS = [
    "autoarray.geometry.geometry_util.central_pixel_coordinates_2d_from",
    "autoarray.geometry.geometry_util.central_scaled_coordinate_2d_from",
    "autoarray.geometry.geometry_util.pixel_coordinates_2d_from",
    "autoarray.geometry.geometry_util.scaled_coordinates_2d_from",
    "autoarray.geometry.geometry_util.grid_pixels_2d_slim_from",
    "autoarray.geometry.geometry_util.grid_pixel_centres_2d_slim_from",
    "autoarray.geometry.geometry_util.grid_pixel_indexes_2d_slim_from",
    "autoarray.geometry.geometry_util.grid_scaled_2d_slim_from",
    "autoarray.geometry.geometry_util.pixel_coordinates_1d_from",
    "autoarray.geometry.geometry_util.scaled_coordinates_1d_from",
    "autoarray.geometry.geometry_2d.Geometry2D.extent",
    "autoarray.geometry.geometry_1d.Geometry1D.extent",
    "autoarray.structures.grids.grid_2d_util.grid_2d_slim_via_mask_from",
    "autoarray.structures.grids.grid_1d_util.grid_1d_slim_via_mask_from",
    "autoarray.mask.mask_2d_util.mask_2d_centres_from",
    "autoarray.mask.mask_2d_util.mask_2d_circular_from",
    "autoarray.mask.mask_2d_util.mask_2d_circular_annular_from",
    "autoarray.mask.mask_2d_util.mask_2d_circular_anti_annular_from",
    "autoarray.mask.mask_2d_util.elliptical_radius_from",
    "autoarray.mask.mask_2d_util.mask_2d_elliptical_from",
    "autoarray.mask.mask_2d_util.mask_2d_elliptical_annular_from",
]
BOUNDS = {
    "quick": "scalar conversions: shape (H,W) symbolic integers in 1..64, pixel scales symbolic > 0, origin, coordinate, pixel index symbolic; "
             "grid conversions and from_mask grids: all shapes <= 3x4 (all masks of shapes with <= 6 pixels), symbolic origin/scales/points; "
             "mask constructors: per-pixel decision for every pixel of shapes up to 5x4 with symbolic centre, radii, scales (circular family) "
             "and concrete angle set x symbolic axis ratio (elliptical family)",
    "thorough": "same with: all masks of every shape with <= 12 pixels (from_mask / all_false / extent, symbolic origin); query-point conversions on "
                "shapes up to 6x6, 7x3, 2x9 (1 point) and 4x4, 3x5 (2 points); 1D masks up to length 8; circular-family constructors per pixel "
                "on 14 shapes up to 8x5 / 5x9 / 6x7 incl. 1x6 and 6x1; elliptical on 8 shapes up to 6x7 x all six angles; elliptical annulus on "
                "5 shapes up to 5x4 x six angle pairs; class-level forwarding (incl. omitted defaults) on 5 shapes",
}
OUTSIDE = ["shapes beyond the bounds", "coordinates within 1e-9 pixel of a pixel boundary and radii within 1e-9 of a pixel-centre radius (excluded by the property)",
           "elliptical constructors: angles outside the concrete set {0, 30, 45, 120, -60, 200} degrees (right angles give 6e-17 residues in float cos/sin on which z3 nlsat does not terminate)"]
STUBS = ["np.arctan2 / np.radians / np.sin / np.cos inside elliptical_radius_from: unit-vector angle domain (angle = (cos,sin) pair with c^2+s^2=1; "
         "sums of angles by complex multiplication) - exact in real arithmetic; concrete angles enter through float64 cos/sin (1e-9 tolerance)"]
ASSUMPTIONS = ["pixel scales > 0", "query coordinates strictly inside the extent and >= 1e-9 pixel away from pixel boundaries"]
EXPLORER_OPTS = {"timeout_ms": 60000}


def POST_INSTALL():
    from symx import merge
    merge.install_dispatchers()

EPS = 1e-9


def centre_y(oy, H, i, sy):
    return oy + ((H - 1) / 2.0 - i) * sy


def centre_x(ox, W, j, sx):
    return ox + (j - (W - 1) / 2.0) * sx


# --------------------------------------------------------------------------- scalar conversions

def body_scalar(inp, conc_shape=None):
    from autoarray.geometry import geometry_util as gu
    H, W = inp["shape"] if conc_shape is None else conc_shape
    oy, ox = inp["origin"]
    sy, sx = inp["scales"]
    y, x = inp["coord"]
    i, j = inp["pix"]
    A, E = {}, {}
    A["scaled_of_pixel"] = hx.attempt(gu.scaled_coordinates_2d_from, pixel_coordinates_2d=(i, j), shape_native=(H, W),
                                      pixel_scales=(sy, sx), origins=(oy, ox))
    E["scaled_of_pixel"] = (centre_y(oy, H, i, sy), centre_x(ox, W, j, sx))
    p = hx.attempt(gu.pixel_coordinates_2d_from, scaled_coordinates_2d=(y, x), shape_native=(H, W), pixel_scales=(sy, sx), origins=(oy, ox))
    if isinstance(p, hx.Raised):
        A["pixel_of_scaled"] = p
        E["pixel_of_scaled"] = "no exception"
    else:
        pi, pj = p
        top = lambda k: oy + (H / 2.0 - k) * sy          # upper edge of pixel row k
        left = lambda k: ox + (k - W / 2.0) * sx          # left edge of pixel column k
        A["pixel_of_scaled_in_range"] = (pi >= 0) & (pi <= H - 1) & (pj >= 0) & (pj <= W - 1)
        E["pixel_of_scaled_in_range"] = True
        A["pixel_square_contains_coordinate"] = (top(pi + 1) <= y) & (y <= top(pi)) & (left(pj) <= x) & (x <= left(pj + 1))
        E["pixel_square_contains_coordinate"] = True
    # centre -> index -> centre
    cy, cx = centre_y(oy, H, i, sy), centre_x(ox, W, j, sx)
    q = hx.attempt(gu.pixel_coordinates_2d_from, scaled_coordinates_2d=(cy, cx), shape_native=(H, W), pixel_scales=(sy, sx), origins=(oy, ox))
    A["index_of_centre"] = q
    E["index_of_centre"] = (i, j)
    return A, E


def _scalar_inputs(ctx, H, W):
    oy, ox, sy, sx, y, x = (V.real(n) for n in ("oy", "ox", "sy", "sx", "y", "x"))
    i, j = V.integer("i"), V.integer("j")
    ctx.assume(z3.And(sy.t > 0, sx.t > 0, i.t >= 0, j.t >= 0))
    Ht = V.term(H) if V.is_sym(H) else z3.IntVal(H)
    Wt = V.term(W) if V.is_sym(W) else z3.IntVal(W)
    ctx.assume(z3.And(i.t < Ht, j.t < Wt))
    # coordinate strictly inside the extent, away from pixel boundaries by EPS pixels
    ty = (oy.t + z3.ToReal(Ht) * sy.t / 2 - y.t) / sy.t
    tx = (x.t - ox.t + z3.ToReal(Wt) * sx.t / 2) / sx.t
    fy, fx = z3.ToInt(ty), z3.ToInt(tx)
    e = V.rval(EPS)
    ctx.assume(z3.And(ty > 0, ty < z3.ToReal(Ht), tx > 0, tx < z3.ToReal(Wt),
                      ty - z3.ToReal(fy) >= e, z3.ToReal(fy) + 1 - ty >= e, tx - z3.ToReal(fx) >= e, z3.ToReal(fx) + 1 - tx >= e))
    return {"origin": [oy, ox], "scales": [sy, sx], "coord": [y, x], "pix": [i, j]}


def case_scalar_symbolic_shape(ctx, hmax):
    H, W = V.integer("H"), V.integer("W")
    ctx.assume(z3.And(H.t >= 1, H.t <= hmax, W.t >= 1, W.t <= hmax))
    inputs = _scalar_inputs(ctx, H, W)
    inputs["shape"] = [H, W]
    hx.run_body(ctx, body_scalar, inputs, {}, validate_every=1)


def case_scalar_concrete_shape(ctx, H, W):
    inputs = _scalar_inputs(ctx, H, W)
    ctx.set_case(shape=[H, W])
    hx.run_body(ctx, body_scalar, inputs, {"conc_shape": (H, W)}, validate_every=1)


# --------------------------------------------------------------------------- grids through the classes

def body_grid(inp, H, W, N):
    import autoarray as aa
    mask = np.array(inp["mask"], dtype=bool).reshape(H, W) if N == 0 else np.full((H, W), False)
    oy, ox = inp["origin"]
    sy, sx = inp["scales"]
    pts = np.asarray(inp["pts"]).reshape(N, 2)      # continuous pixel coordinates (in pixel units) of N query points
    pos = [(a, b) for a in range(H) for b in range(W) if not mask[a, b]]
    m = aa.Mask2D(mask=mask, pixel_scales=(sy, sx), origin=(oy, ox))
    A, E = {}, {}
    cen = np.array([[centre_y(oy, H, a, sy), centre_x(ox, W, b, sx)] for (a, b) in pos], dtype=object).reshape(-1, 2)
    A["from_mask"] = hx.attempt(lambda: aa.Grid2D.from_mask(mask=m).slim.array)
    E["from_mask"] = cen
    allc = np.array([[centre_y(oy, H, a, sy), centre_x(ox, W, b, sx)] for a in range(H) for b in range(W)], dtype=object).reshape(-1, 2)
    A["uniform"] = hx.attempt(lambda: aa.Grid2D.uniform(shape_native=(H, W), pixel_scales=(sy, sx), origin=(oy, ox)).slim.array)
    E["uniform"] = allc
    A["all_false"] = hx.attempt(lambda: m.derive_grid.all_false.slim.array)
    E["all_false"] = allc
    A["extent"] = hx.attempt(lambda: list(m.geometry.extent))
    E["extent"] = [ox - W * sx / 2.0, ox + W * sx / 2.0, oy - H * sy / 2.0, oy + H * sy / 2.0]
    if N == 0:
        return A, E
    # query points given in continuous pixel units u in (0,H), v in (0,W):  scaled y = top - u*sy, x = left + v*sx
    top, left = oy + H * sy / 2.0, ox - W * sx / 2.0
    scaled = np.array([[top - pts[k, 0] * sy, left + pts[k, 1] * sx] for k in range(N)], dtype=object).reshape(N, 2)
    gm = aa.Mask2D.all_false(shape_native=(1, N), pixel_scales=1.0)
    g = aa.Grid2D(values=scaled.reshape(1, N, 2), mask=gm)
    geo = m.geometry
    A["grid_pixels"] = hx.attempt(lambda: geo.grid_pixels_2d_from(grid_scaled_2d=g).slim.array)
    E["grid_pixels"] = pts
    cells = inp["cells"]           # concrete integer cell of each point (path-level: floor of pts)
    A["grid_pixel_centres"] = hx.attempt(lambda: geo.grid_pixel_centres_2d_from(grid_scaled_2d=g).slim.array)
    E["grid_pixel_centres"] = np.array(cells, dtype=float).reshape(N, 2)
    A["grid_pixel_indexes"] = hx.attempt(lambda: geo.grid_pixel_indexes_2d_from(grid_scaled_2d=g).slim.array)
    E["grid_pixel_indexes"] = np.array([c[0] * W + c[1] for c in cells], dtype=float)
    gp = aa.Grid2D(values=pts.reshape(1, N, 2), mask=gm)
    A["grid_scaled_of_pixels"] = hx.attempt(lambda: geo.grid_scaled_2d_from(grid_pixels_2d=gp).slim.array)
    E["grid_scaled_of_pixels"] = scaled
    # integer-dtype pixel coordinates (what grid_pixel_centres_2d_from returns) must convert like their float values (seed C02-e)
    ints = np.array(cells, dtype=int).reshape(N, 2)          # slim input keeps its integer dtype inside Grid2D
    gpi = aa.Grid2D(values=ints, mask=gm)
    A["grid_scaled_of_integer_pixels"] = hx.attempt(lambda: geo.grid_scaled_2d_from(grid_pixels_2d=gpi).slim.array)
    E["grid_scaled_of_integer_pixels"] = np.array([[top - c[0] * sy, left + c[1] * sx] for c in cells], dtype=object).reshape(N, 2)
    if not isinstance(A["grid_pixels"], hx.Raised):
        gp2 = aa.Grid2D(values=np.asarray(A["grid_pixels"]).reshape(1, N, 2), mask=gm)
        A["scaled_pixels_scaled"] = hx.attempt(lambda: geo.grid_scaled_2d_from(grid_pixels_2d=gp2).slim.array)
        E["scaled_pixels_scaled"] = scaled
    return A, E


GRID_SCALES = [(0.5, 2.0), (0.25, 0.125), (3.0, 1.0), (1.0, 1.0)]   # dyadic: float arithmetic on them is exact


def case_grid(ctx, H, W, N, scales=None):
    if N == 0:
        m = V.bool_array("m", (H, W))
        ctx.assume(z3.Or(*[z3.Not(b.t) for b in m.reshape(-1)]))
        mask = ctx.concrete_bools(m)
    else:
        mask = np.full((H, W), False)
    if scales is None:
        sy, sx = V.real("sy"), V.real("sx")
        ctx.assume(z3.And(sy.t > 0, sx.t > 0))
    else:
        sy, sx = float(scales[0]), float(scales[1])
    pts = V.real_array("p", (N, 2))
    cells = []
    e = V.rval(EPS)
    for k in range(N):
        u, v = pts[k, 0], pts[k, 1]
        ctx.assume(z3.And(u.t > 0, u.t < H, v.t > 0, v.t < W))
        ci = ctx.concretize_int(z3.ToInt(u.t))
        cj = ctx.concretize_int(z3.ToInt(v.t))
        ctx.assume(z3.And(u.t - ci >= e, ci + 1 - u.t >= e, v.t - cj >= e, cj + 1 - v.t >= e))
        cells.append([ci, cj])
    ctx.set_case(mask=mask.tolist(), cells=cells)
    inputs = {"mask": mask, "origin": [V.real("oy"), V.real("ox")], "scales": [sy, sx], "pts": pts, "cells": cells}
    hx.run_body(ctx, body_grid, inputs, {"H": H, "W": W, "N": N}, validate_every=16)


def body_1d(inp, N):
    import autoarray as aa
    mask = np.array(inp["mask"], dtype=bool).reshape(N)
    (o,), (s,) = inp["origin"], inp["scales"]
    pos = [a for a in range(N) if not mask[a]]
    m = aa.Mask1D(mask=mask, pixel_scales=(s,), origin=(o,))
    A, E = {}, {}
    A["from_mask_1d"] = hx.attempt(lambda: aa.Grid1D.from_mask(mask=m).slim.array)
    E["from_mask_1d"] = np.array([o + (a - (N - 1) / 2.0) * s for a in pos], dtype=object)
    A["extent_1d"] = hx.attempt(lambda: list(m.geometry.extent))
    E["extent_1d"] = [o - N * s / 2.0, o + N * s / 2.0]
    return A, E


def case_1d(ctx, N):
    m = V.bool_array("m", (N,))
    ctx.assume(z3.Or(*[z3.Not(b.t) for b in m.reshape(-1)]))
    mask = ctx.concrete_bools(m)
    s = V.real("s")
    ctx.assume(s.t > 0)
    ctx.set_case(mask=mask.tolist())
    hx.run_body(ctx, body_1d, {"mask": mask, "origin": [V.real("o")], "scales": [s]}, {"N": N}, validate_every=4)


# --------------------------------------------------------------------------- mask constructors (per pixel)

ANGLES = [0.0, 30.0, 45.0, 120.0, -60.0, 200.0]


def _rel(H, W, a, b, sy, sx, cy, cx):
    """pixel-centre position relative to the requested centre (origin-relative coordinates)"""
    return ((H - 1) / 2.0 - a) * sy - cy, (b - (W - 1) / 2.0) * sx - cx


def body_constructor(inp, H, W, kind, angle=0.0, angle2=0.0, level="util", omit=None):
    import autoarray as aa
    from autoarray.mask import mask_2d_util as mu
    sy, sx = inp["scales"]
    cy, cx = inp["centre"]
    r1, r2, r3 = inp["radii"]
    q1, q2 = inp["ratios"]
    A, E = {}, {}
    angle_spec, angle2_spec = angle, angle2
    angle, angle2 = _ang_arg(inp, angle), _ang_arg(inp, angle2)
    if level == "e2e":
        # end to end through the public constructors (seed C02-n: argument normalisation inside Mask2D.elliptical for axis
        # ratios > 1): scales, centre, angles and axis ratios concrete, radii symbolic - Mask2D forks on every pixel's decision
        # (conditions linear in the radii), each pixel is then compared with the documented inequality.
        oy, ox = inp["origin"]
        kw = dict(shape_native=(H, W), pixel_scales=(sy, sx), centre=(cy, cx), origin=(oy, ox))
        fns = {"circular": lambda: aa.Mask2D.circular(radius=r1, **kw),
               "annular": lambda: aa.Mask2D.circular_annular(inner_radius=r1, outer_radius=r2, **kw),
               "anti_annular": lambda: aa.Mask2D.circular_anti_annular(inner_radius=r1, outer_radius=r2, outer_radius_2=r3, **kw),
               "elliptical": lambda: aa.Mask2D.elliptical(major_axis_radius=r1, axis_ratio=q1, angle=angle, **kw),
               "elliptical_annular": lambda: aa.Mask2D.elliptical_annular(
                   inner_major_axis_radius=r1, inner_axis_ratio=q1, inner_phi=angle, outer_major_axis_radius=r2,
                   outer_axis_ratio=q2, outer_phi=angle2, **kw)}
        mk = hx.attempt(fns[kind])
        if isinstance(mk, hx.Raised):
            return {"constructed": mk}, {"constructed": "no exception"}
        got = np.array(mk.array, dtype=bool)
        for a in range(H):
            for b in range(W):
                A["pixel_%d_%d_masked_iff_not_inequality" % (a, b)] = bool(got[a, b])
                E["pixel_%d_%d_masked_iff_not_inequality" % (a, b)] = _not(unmasked_spec(inp, H, W, a, b, kind, angle_spec, angle2_spec))
        return A, E
    if level == "class":
        # composition step: the public constructors must forward exactly (shape, scales, radii, centre) to the kernel
        # whose per-pixel behaviour is decided at level "util", and wrap the returned mask unchanged.
        oy, ox = inp["origin"]
        kw = dict(shape_native=(H, W), pixel_scales=(sy, sx), centre=(cy, cx), origin=(oy, ox))
        # documented defaults (seed C02-l): an omitted `centre` requests (0.0, 0.0) RELATIVE to the mask origin, an omitted
        # `origin` is (0.0, 0.0)
        if omit in ("centre", "both"):
            kw.pop("centre")
            cy, cx = 0.0, 0.0
        if omit in ("origin", "both"):
            kw.pop("origin")
            oy, ox = 0.0, 0.0
        kname = {"circular": "mask_2d_circular_from", "annular": "mask_2d_circular_annular_from",
                 "anti_annular": "mask_2d_circular_anti_annular_from", "elliptical": "mask_2d_elliptical_from",
                 "elliptical_annular": "mask_2d_elliptical_annular_from"}[kind]
        fns = {"circular": lambda: aa.Mask2D.circular(radius=r1, **kw),
               "annular": lambda: aa.Mask2D.circular_annular(inner_radius=r1, outer_radius=r2, **kw),
               "anti_annular": lambda: aa.Mask2D.circular_anti_annular(inner_radius=r1, outer_radius=r2, outer_radius_2=r3, **kw),
               "elliptical": lambda: aa.Mask2D.elliptical(major_axis_radius=r1, axis_ratio=q1, angle=angle, **kw),
               "elliptical_annular": lambda: aa.Mask2D.elliptical_annular(
                   inner_major_axis_radius=r1, inner_axis_ratio=q1, inner_phi=angle, outer_major_axis_radius=r2,
                   outer_axis_ratio=q2, outer_phi=angle2, **kw)}
        want = {"circular": dict(radius=r1), "annular": dict(inner_radius=r1, outer_radius=r2),
                "anti_annular": dict(inner_radius=r1, outer_radius=r2, outer_radius_2_scaled=r3),
                "elliptical": dict(major_axis_radius=r1, axis_ratio=q1, angle=angle),
                "elliptical_annular": dict(inner_major_axis_radius=r1, inner_axis_ratio=q1, inner_phi=angle,
                                           outer_major_axis_radius=r2, outer_axis_ratio=q2, outer_phi=angle2)}[kind]
        want.update(shape_native=(H, W), pixel_scales=(sy, sx), centre=(cy, cx))
        rec = {}
        dummy = np.array([[(a * 3 + b * 5) % 2 == 0 for b in range(W)] for a in range(H)])
        orig = getattr(mu, kname)
        import inspect

        def recorder(*args, **kwargs):
            ba = inspect.signature(getattr(orig, "__wrapped_kernel__", orig)).bind(*args, **kwargs)
            ba.apply_defaults()
            rec.update(ba.arguments)
            return dummy.copy()

        setattr(mu, kname, recorder)
        try:
            mk = hx.attempt(fns[kind])
        finally:
            setattr(mu, kname, orig)
        if isinstance(mk, hx.Raised):
            A["constructed"] = mk
            E["constructed"] = "no exception"
            return A, E
        for k, v in want.items():
            A["forwarded_" + k] = list(rec[k]) if isinstance(rec.get(k), (tuple, list)) else rec.get(k)
            E["forwarded_" + k] = list(v) if isinstance(v, (tuple, list)) else v
        A["wrapped_mask"] = np.array(mk.array, dtype=bool)
        E["wrapped_mask"] = dummy
        A["wrapped_scales_origin"] = [mk.pixel_scales[0], mk.pixel_scales[1], mk.origin[0], mk.origin[1]]
        E["wrapped_scales_origin"] = [sy, sx, oy, ox]
        return A, E
    else:
        kw = dict(shape_native=(H, W), pixel_scales=(sy, sx), centre=(cy, cx))
        fns = {"circular": lambda: mu.mask_2d_circular_from(radius=r1, **kw),
               "annular": lambda: mu.mask_2d_circular_annular_from(inner_radius=r1, outer_radius=r2, **kw),
               "anti_annular": lambda: mu.mask_2d_circular_anti_annular_from(inner_radius=r1, outer_radius=r2, outer_radius_2_scaled=r3, **kw),
               "elliptical": lambda: mu.mask_2d_elliptical_from(major_axis_radius=r1, axis_ratio=q1, angle=angle, **kw),
               "elliptical_annular": lambda: mu.mask_2d_elliptical_annular_from(
                   inner_major_axis_radius=r1, inner_axis_ratio=q1, inner_phi=angle, outer_major_axis_radius=r2,
                   outer_axis_ratio=q2, outer_phi=angle2, **kw)}
    mk = hx.attempt(fns[kind])
    if isinstance(mk, hx.Raised):
        A["constructed"] = mk
        E["constructed"] = "no exception"
        return A, E
    got = np.array(hx.unwrap(mk))
    for a in range(H):
        for b in range(W):
            A["pixel_%d_%d_masked_iff_not_inequality" % (a, b)] = got[a, b]
            E["pixel_%d_%d_masked_iff_not_inequality" % (a, b)] = _not(unmasked_spec(inp, H, W, a, b, kind, angle_spec, angle2_spec))
    return A, E


def _cs(inp, ang):
    """(cos, sin) of an angle: a float in degrees, or the name of a symbolic unit vector held in inp["angles"]"""
    import math
    if isinstance(ang, str):
        return inp["angles"][ang]
    return math.cos(math.radians(ang)), math.sin(math.radians(ang))


def _ang_arg(inp, ang):
    if isinstance(ang, str):
        from symx import shim
        c, s_ = inp["angles"][ang]
        if V.is_sym(c) or V.is_sym(s_):
            return shim.AngleDeg(c, s_)
        import math
        return math.degrees(math.atan2(s_, c))
    return ang


def body_elliptical_radius(inp, angle):
    """lemma (1) of the compositional check: elliptical_radius_from returns the non-negative root of the rotated quadratic form"""
    from autoarray.mask import mask_2d_util as mu
    y, x = inp["yx"]
    (q,) = inp["q"]
    r = hx.attempt(mu.elliptical_radius_from, y, x, angle, q)
    A, E = {}, {}
    if isinstance(r, hx.Raised):
        return {"radius": r}, {"radius": "no exception"}
    import math
    c, s_ = math.cos(math.radians(angle)), math.sin(math.radians(angle))
    # the kernel receives y measured downwards (see mask_2d_centres_from): rotate (x, -y) by -angle
    xe = x * c + (-y) * s_
    ye = -x * s_ + (-y) * c
    A["radius_squared"] = r * r
    E["radius_squared"] = xe * xe + (ye / q) * (ye / q)
    A["radius_nonnegative"] = r >= 0
    E["radius_nonnegative"] = True
    return A, E


def case_elliptical_radius(ctx, angle):
    q = V.real("q")
    ctx.assume(z3.And(q.t >= V.rval(0.01), q.t <= 1))
    inputs = {"yx": [V.real("y"), V.real("x")], "q": [q]}
    from symx import merge
    with merge.merging():
        hx.run_body(ctx, body_elliptical_radius, inputs, {"angle": angle}, validate_every=1)


def _not(b):
    return (not b) if isinstance(b, (bool, np.bool_)) else ~b


def unmasked_spec(inp, H, W, a, b, kind, angle, angle2):
    import math
    sy, sx = inp["scales"]
    cy, cx = inp["centre"]
    r1, r2, r3 = inp["radii"]
    q1, q2 = inp["ratios"]
    dy, dx = _rel(H, W, a, b, sy, sx, cy, cx)
    rr = dy * dy + dx * dx
    if kind == "circular":
        return rr <= r1 * r1
    if kind == "annular":
        return (rr >= r1 * r1) & (rr <= r2 * r2)
    if kind == "anti_annular":
        return (rr <= r1 * r1) | ((rr >= r2 * r2) & (rr <= r3 * r3))

    def ell2(ang, q):
        c, s_ = _cs(inp, ang)
        xe = dx * c + dy * s_        # coordinates in the frame rotated counter-clockwise by ang
        ye = -dx * s_ + dy * c
        return xe * xe + (ye / q) * (ye / q)

    if kind == "elliptical":
        return ell2(angle, q1) <= r1 * r1
    if UF_MODE[0] and V._CTX[0] is not None:
        # compositional mode: elliptical_radius_from is an uninterpreted function here (its own behaviour is lemma (1))
        return (_uf_radius(-dy, dx, angle, q1) >= r1) & (_uf_radius(-dy, dx, angle2, q2) <= r2)
    return (ell2(angle, q1) >= r1 * r1) & (ell2(angle2, q2) <= r2 * r2)


UF_MODE = [False]


def _uf_radius(y, x, angle, q):
    f = V.ctx().uf("ellrad_%s" % str(float(angle)).replace(".", "_").replace("-", "m"), 3)
    return V.SymReal(f(V.to_real_term(y), V.to_real_term(x), V.to_real_term(q)))


def band_terms(inp, H, W, kind, angle, angle2):
    """squared-radius quantities that must stay 1e-9 (relative) away from the squared radii they are compared with"""
    import math
    sy, sx = inp["scales"]
    cy, cx = inp["centre"]
    r1, r2, r3 = inp["radii"]
    q1, q2 = inp["ratios"]
    out = []
    for a in range(H):
        for b in range(W):
            dy, dx = _rel(H, W, a, b, sy, sx, cy, cx)
            rr = dy * dy + dx * dx
            if kind in ("circular", "annular", "anti_annular"):
                out.append((rr, r1 * r1, (a, b)))
                if kind != "circular":
                    out.append((rr, r2 * r2, (a, b)))
                if kind == "anti_annular":
                    out.append((rr, r3 * r3, (a, b)))
            else:
                def ell2(ang, q):
                    c, s_ = _cs(inp, ang)
                    xe = dx * c + dy * s_
                    ye = -dx * s_ + dy * c
                    return xe * xe + (ye / q) * (ye / q)
                out.append((ell2(angle, q1), r1 * r1, (a, b)))
                if kind == "elliptical_annular":
                    out.append((ell2(angle2, q2), r2 * r2, (a, b)))
    return out


def case_constructor(ctx, H, W, kind, angle=0.0, angle2=0.0, conc_scales=None, level="util", conc_ratios=None, omit=None, conc_centre=None):
    if conc_scales is None:
        sy, sx = V.real("sy"), V.real("sx")
        ctx.assume(z3.And(sy.t > 0, sx.t > 0))
    else:
        sy, sx = conc_scales
    r = [V.real("r1"), V.real("r2"), V.real("r3")]
    ctx.assume(z3.And(*[x.t >= 0 for x in r]))
    if conc_ratios is None:
        q = [V.real("q1"), V.real("q2")]
        ctx.assume(z3.And(*[z3.And(x.t > 0, x.t <= 1) for x in q]))
    else:
        q = [float(conc_ratios[0]), float(conc_ratios[1])]
    centre = [V.real("cy"), V.real("cx")] if conc_centre is None else [float(conc_centre[0]), float(conc_centre[1])]
    inputs = {"scales": [sy, sx], "centre": centre, "origin": [V.real("oy"), V.real("ox")], "radii": r, "ratios": q}
    angs = {}
    for nm in (angle, angle2):
        if isinstance(nm, str):
            c_, s_ = V.real("cos_" + nm), V.real("sin_" + nm)
            ctx.assume(c_.t * c_.t + s_.t * s_.t == 1)
            angs[nm] = [c_, s_]
    inputs["angles"] = angs
    band = V.rval(1e-6)
    for (lhs, rhs, ab) in ([] if kind == "elliptical_annular" and level == "util" else band_terms(inputs, H, W, kind, angle, angle2)):
        d = V.to_real_term(lhs) - V.to_real_term(rhs)
        ctx.assume(z3.Or(d >= band, d <= -band), group="pixel_%d_%d" % ab)
    ctx.set_case(shape=[H, W], kind=kind)
    from symx import merge
    kw = {"H": H, "W": W, "kind": kind, "angle": angle, "angle2": angle2, "level": level}
    if omit is not None:
        kw["omit"] = omit
    if level == "e2e":
        hx.run_body(ctx, body_constructor, inputs, kw, validate_every=2, tol=1e-9, groups=lambda k: "_".join(k.split("_")[:3]))
        return
    if level == "util":
        from autoarray.mask import mask_2d_util as mu
        real = getattr(mu.elliptical_radius_from, "__wrapped_kernel__", mu.elliptical_radius_from)
        grp = lambda k: "_".join(k.split("_")[:3])
        if kind == "elliptical_annular":
            # compositional mode first (elliptical_radius_from = uninterpreted function); every obligation is pre-decided
            # with a private query so that no candidate containing uninterpreted symbols is ever recorded.  If anything
            # is not discharged there (e.g. the kernel no longer calls elliptical_radius_from), fall back to the direct
            # encoding of this case, where counterexamples are over real inputs and are replayed.
            all_ok = False
            try:
                UF_MODE[0] = True
                merge.STUBS[real] = lambda y, x, angle, axis_ratio: _uf_radius(y, x, angle, axis_ratio)
                with merge.merging() as ev:
                    ctx.set_inputs(**inputs)
                    A_, E_ = body_constructor(inputs, **kw)
                    all_ok = not ev
                    for k_ in E_:
                        terms = [t_ for t_ in hx.eq_terms(A_.get(k_), E_[k_]) if not (t_ is True)]
                        if any(t_ is False for t_ in terms):
                            all_ok = False
                            break
                        if terms:
                            r_, _m = ctx._check_sliced(z3.Not(z3.And(*terms)), group=grp(k_))
                            if r_ != "unsat":
                                all_ok = False
                                break
                    if all_ok:
                        hx.check_all(ctx, A_, E_, groups=grp)
                        ctx.twin()
            finally:
                UF_MODE[0] = False
                merge.STUBS.pop(real, None)
            if all_ok:
                return
            ctx.timeout_ms = 8000
        with merge.merging() as ev:
            hx.run_body(ctx, body_constructor, inputs, kw, validate_every=1, groups=grp)
            ctx.check("no exception event reachable in the kernel", [z3.Not(g) for (g, n, m) in ev])
    else:
        hx.run_body(ctx, body_constructor, inputs, kw, validate_every=4, groups=lambda k: "_".join(k.split("_")[:3]))


BUDGET_S = {"quick": 900, "thorough": 3000}
BODIES = {"case_scalar_symbolic_shape": body_scalar, "case_scalar_concrete_shape": body_scalar, "case_grid": body_grid,
          "case_1d": body_1d, "case_constructor": body_constructor, "case_elliptical_radius": body_elliptical_radius}


def cases(tier):
    out = [("case_scalar_symbolic_shape", {"hmax": 64})]
    for (H, W) in [(1, 1), (2, 3), (3, 2), (4, 4), (5, 3), (3, 6)]:
        out.append(("case_scalar_concrete_shape", {"H": H, "W": W}))
    cap = 6 if tier == "quick" else 12
    for H in range(1, 7):
        for W in range(1, 7):
            if H * W <= cap and (tier != "quick" or (H < 5 and W < 5)):
                out.append(("case_grid", {"H": H, "W": W, "N": 0, "scales": GRID_SCALES[(H + 2 * W) % len(GRID_SCALES)]}))
    for (H, W) in [(1, 1), (1, 4), (3, 1), (2, 3), (3, 3), (3, 4), (4, 3)] + ([] if tier == "quick" else [(5, 4), (4, 6), (7, 3), (6, 6), (2, 9)]):
        out.append(("case_grid", {"H": H, "W": W, "N": 1, "scales": GRID_SCALES[(H + 2 * W) % len(GRID_SCALES)]}))
    out.append(("case_grid", {"H": 3, "W": 4, "N": 2, "scales": GRID_SCALES[0]}))
    out.append(("case_grid", {"H": 2, "W": 3, "N": 2, "scales": GRID_SCALES[1]}))
    if tier != "quick":
        out.append(("case_grid", {"H": 4, "W": 4, "N": 2, "scales": GRID_SCALES[2]}))
        out.append(("case_grid", {"H": 3, "W": 5, "N": 2, "scales": GRID_SCALES[3]}))
        for N in range(6, 9):
            out.append(("case_1d", {"N": N}))
    for N in range(1, 6):
        out.append(("case_1d", {"N": N}))
    shapes = [(2, 3), (3, 2), (3, 3), (4, 5), (5, 4)] if tier == "quick" else [(2, 3), (3, 2), (3, 3), (3, 4), (4, 3), (4, 5), (5, 4), (6, 7), (7, 5), (1, 6), (6, 1), (6, 6), (8, 5), (5, 9)]
    for n, (H, W) in enumerate(shapes):
        for kind in ("circular", "annular", "anti_annular"):
            out.append(("case_constructor", {"H": H, "W": W, "kind": kind, "conc_scales": GRID_SCALES[n % 3], "level": "util"}))
    eshapes = [(2, 3), (3, 2), (4, 5)] if tier == "quick" else [(2, 3), (3, 2), (3, 4), (4, 3), (4, 5), (6, 7), (5, 5), (7, 4)]
    angs = [0.0, 30.0, 120.0, -60.0] if tier == "quick" else ANGLES
    for n, (H, W) in enumerate(eshapes):
        for k, ang in enumerate(angs):
            out.append(("case_constructor", {"H": H, "W": W, "kind": "elliptical", "angle": ang, "conc_scales": GRID_SCALES[(n + k) % 3], "level": "util"}))
    for n, (H, W) in enumerate([(3, 3), (3, 4)] if tier == "quick" else [(3, 3), (3, 4), (5, 4), (4, 4), (2, 5)]):
        for (a1, a2) in ([(0.0, 200.0), (30.0, 45.0)] if tier == "quick" else [(0.0, 200.0), (30.0, 45.0), (120.0, -60.0), (45.0, 45.0), (200.0, 30.0), (-60.0, 120.0)]):
            out.append(("case_constructor", {"H": H, "W": W, "kind": "elliptical_annular", "angle": a1, "angle2": a2,
                                             "conc_scales": GRID_SCALES[n % 3], "level": "util"}))
    for ang in ANGLES:
        out.append(("case_elliptical_radius", {"angle": ang}))
    for (H, W) in [(1, 2), (2, 3)] + ([] if tier == "quick" else [(3, 3), (4, 2), (1, 1)]):
        for kind in ("circular", "annular", "anti_annular", "elliptical", "elliptical_annular"):
            out.append(("case_constructor", {"H": H, "W": W, "kind": kind, "angle": 30.0, "angle2": 45.0, "conc_scales": None, "level": "class"}))
            if (H, W) == (2, 3):
                for nq, qq in enumerate([(0.5, 0.75), (1.5, 2.0), (2.0, 0.5)] if tier == "quick" else [(0.5, 0.75), (1.5, 2.0), (2.0, 0.5), (1.0, 1.0), (4.0, 1.25)]):
                    if kind in ("elliptical", "elliptical_annular") or nq == 0:
                        out.append(("case_constructor", {"H": 3, "W": 3, "kind": kind, "angle": 30.0, "angle2": 120.0, "conc_scales": GRID_SCALES[nq % 3],
                                                         "level": "e2e", "conc_ratios": qq, "conc_centre": (0.25, -0.5)}))
                for om in ("centre", "origin", "both"):
                    out.append(("case_constructor", {"H": H, "W": W, "kind": kind, "angle": 30.0, "angle2": 45.0, "conc_scales": None,
                                                     "level": "class", "omit": om}))
    return out


def replay(cand):
    kw = dict(cand["case_kwargs"])
    body = BODIES[cand["case_fn"]]
    c2 = dict(cand)
    if cand["case_fn"] == "case_scalar_symbolic_shape":
        c2["case_kwargs"] = {}
    elif cand["case_fn"] == "case_scalar_concrete_shape":
        c2["case_kwargs"] = {"conc_shape": (kw["H"], kw["W"])}
    elif cand["case_fn"] == "case_grid":
        kw.pop("scales", None)
        c2["case_kwargs"] = kw
    elif cand["case_fn"] == "case_constructor":
        kw.pop("conc_scales", None)
        kw.pop("conc_ratios", None)
        kw.pop("conc_centre", None)
        c2["case_kwargs"] = kw
    return hx.replay_body(body, c2, tol=1e-7)
