"""C11 - queries are pure: no input mutation, no order dependence, deterministic seeded simulation (bounded claim).

Part A (case_ctor_*):   constructors receive caller-owned arrays of symbolic values; afterwards every element of
                        every caller-owned array / object must still be the original term.
Part B (case_hist_*):   histories of k reads / derivations chosen by symbolic integers, then one observation; the
                        observation must equal the same observation on a freshly built object graph on which only the
                        derivation steps (no reads) were replayed.
Part C (case_rng_*):    numpy's global RNG is replaced by uninterpreted functions of (seed state, draw counter, index,
                        parameter); the simulated dataset must not depend on the prior-state symbol.
"""
import os

import numpy as np
import z3

from symx import hx, shim, values as V

PROPERTY = "C11"
FUNCTIONS = [
    "autoarray.structures.arrays.array_2d_util.convert_array_2d",
    "autoarray.structures.grids.grid_2d_util.convert_grid_2d",
    "autoarray.abstract_ndarray.AbstractNDArray.with_new_array",
    "autoarray.abstract_ndarray.AbstractNDArray.__copy__",
    "autoarray.abstract_ndarray.AbstractNDArray.__getitem__",
    "autoarray.structures.arrays.uniform_2d.AbstractArray2D.__init__",
    "autoarray.structures.arrays.uniform_2d.AbstractArray2D.trimmed_after_convolution_from",
    "autoarray.structures.arrays.kernel_2d.Kernel2D.__init__",
    "autoarray.structures.arrays.kernel_2d.Kernel2D.normalized",
    "autoarray.structures.grids.uniform_2d.Grid2D.__init__",
    "autoarray.structures.grids.uniform_2d.Grid2D.is_uniform",
    "autoarray.structures.vectors.uniform.VectorYX2D.__init__",
    "autoarray.structures.visibilities.AbstractVisibilities.__init__",
    "autoarray.structures.visibilities.AbstractVisibilities.amplitudes",
    "autoarray.structures.visibilities.AbstractVisibilities.phases",
    "autoarray.mask.mask_2d.Mask2D.__init__",
    "autoarray.mask.mask_2d.Mask2D.circular_radius",
    "autoarray.dataset.abstract.dataset.AbstractDataset.__init__",
    "autoarray.dataset.abstract.dataset.AbstractDataset.trimmed_after_convolution_from",
    "autoarray.dataset.imaging.dataset.Imaging.__init__",
    "autoarray.dataset.imaging.dataset.Imaging.apply_mask",
    "autoarray.dataset.imaging.dataset.Imaging.apply_noise_scaling",
    "autoarray.dataset.imaging.simulator.SimulatorImaging.__init__",
    "autoarray.dataset.imaging.simulator.SimulatorImaging.via_image_from",
    "autoarray.dataset.preprocess.setup_random_seed",
    "autoarray.dataset.preprocess.poisson_noise_via_data_eps_from",
    "autoarray.dataset.preprocess.data_eps_with_poisson_noise_added",
    "autoarray.dataset.preprocess.gaussian_noise_via_shape_and_sigma_from",
    "autoarray.dataset.preprocess.data_with_gaussian_noise_added",
    "autoarray.dataset.preprocess.data_with_complex_gaussian_noise_added",
    "autoarray.inversion.pixelization.mappers.abstract.AbstractMapper.mapping_matrix",
    "autoarray.inversion.pixelization.mappers.abstract.AbstractMapper.unique_mappings",
    "autoarray.inversion.inversion.mapper_valued.MapperValued.values_masked",
    "autoarray.inversion.inversion.mapper_valued.MapperValued.mapped_reconstructed_image_from",
    "autoarray.inversion.inversion.mapper_valued.MapperValued.max_pixel_list_from",
    "autoarray.inversion.inversion.factory.inversion_from",
    "autoarray.inversion.inversion.factory.inversion_imaging_from",
    "autoarray.inversion.inversion.factory.inversion_interferometer_from",
    "autoarray.inversion.inversion.abstract.AbstractInversion.curvature_reg_matrix",
    "autoarray.inversion.inversion.abstract.AbstractInversion.reconstruction",
    "autoarray.inversion.inversion.abstract.AbstractInversion.regularization_matrix",
    "autoarray.inversion.inversion.abstract.AbstractInversion.mapped_reconstructed_data",
    "autoarray.inversion.inversion.imaging.mapping.InversionImagingMapping.data_vector",
    "autoarray.inversion.inversion.imaging.mapping.InversionImagingMapping.curvature_matrix",
    "autoarray.inversion.inversion.imaging.w_tilde.InversionImagingWTilde.data_vector",
    "autoarray.inversion.inversion.imaging.w_tilde.InversionImagingWTilde.curvature_matrix",
    "autoarray.inversion.regularization.regularization_util.constant_regularization_matrix_from",
    "autoarray.structures.mesh.triangulation_2d.Abstract2DMeshTriangulation.voronoi_pixel_areas",
    "autoarray.structures.mesh.triangulation_2d.Abstract2DMeshTriangulation.voronoi_pixel_areas_for_split",
    "autoarray.structures.mesh.triangulation_2d.Abstract2DMeshTriangulation.split_cross",
    "autoarray.structures.mesh.voronoi_2d.Mesh2DVoronoi.areas_for_magnification",
]
BOUNDS = {
    "quick": "Part A: all masks (>=1 unmasked pixel) of every shape <=3x3 for Mask2D/Array2D/Kernel2D/Grid2D/VectorYX2D/irregular "
             "structures (native and slim input, both storage modes; payload values symbolic reals); Imaging, SimulatorImaging, "
             "Kernel2D.normalized, apply_noise_scaling, MapperGrids/Mapper (rectangular 3x3 mesh), MapperValued, aa.Inversion (imaging: "
             "both formalisms by a forked use_w_tilde flag; interferometer route of the factory) for all masks with H*W<=6 (>=2 unmasked) "
             "inside a masked ring; data, noise, PSF, adapt data, values symbolic.  Part B: every history of k<=2 operations + 1 "
             "observation (indices = symbolic integers forked by the explorer; repeated operations and the no-op included) on: "
             "Visibilities (2 symbolic complex values; 18 ops, 13 observations), Array2D (native storage) and Kernel2D (slim and native "
             "storage) on 3x3 masks 'plus'/'all' (22 ops), Grid2D (2 unmasked pixels, slim and native storage; 21 ops), Mask2D (all 7 four-fold symmetric "
             "3x3 masks, symbolic pixel scale; 11 ops), masked Imaging 4x4 with slim- and natively-stored data / noise map (symbolic data/noise/origin, concrete PSF; 14 ops, the "
             "unmasked source dataset observed too), "
             "mapper + 2 valued mappers + inversion on 5x5 frames with 9 / 6 unmasked pixels (mapping formalism k<=2, w-tilde k<=1; "
             "symbolic data and mapper values; 20 ops, 16 observations; plus, in both formalisms, an inversion and a second inversion sharing "
             "caller-owned Preloads(curvature_matrix, regularization_matrix) at k<=2), and Mesh2DVoronoi / Mesh2DDelaunay on a CONCRETE perturbed 3x3 "
             "vertex lattice with unbounded edge cells (qhull runs natively; only the history and observation indices are solver "
             "variables there; 12 / 10 ops: voronoi_pixel_areas, voronoi_pixel_areas_for_split, split_cross, areas_for_magnification on the "
             "mesh and on x.copy() / x*2).  Part C: poisson/gaussian helpers of dataset.preprocess and "
             "SimulatorImaging.via_image_from (with and without PSF, all 8 combinations of add_poisson_noise_to_data / "
             "include_poisson_noise_in_noise_map / subtract_background_sky as forked booleans) on a 2x3 image: symbolic image, sky level, PSF, seed (every integer "
             "0 <= k < 2^32) and two symbolic prior generator states",
    "thorough": "Part A as quick.  Part B with the full operation lists (up to 33 ops per level), more masks (3x3 'L', 2x3 diagonal, "
                "5x5 frames with 9 / 6 pixels for the mapping / w-tilde formalism, both at k<=2), Visibilities with 3 values, k<=3 on "
                "the Visibilities level, all 63 masks of 2x3 at k<=1 on the Mask2D level.  "
                "Triangulation meshes on a 4x4 lattice with the full op list (edge_pixel_list, neighbors, delaunay, voronoi) and k<=3 on the 3x3 Voronoi mesh.  "
                "Part C also 3x3 images",
}
OUTSIDE = [
    "histories longer than the stated k (bounded model checking of the history quantifier, no induction)",
    "Interferometer datasets / transformers / the pylops inversion (pylops is absent); only the factory route for a non-Imaging dataset is constructed",
    "Imaging.w_tilde with a symbolic noise map or PSF (read only with concrete noise/PSF on the inversion level); signal_to_noise_map only in a dedicated k=1 case (it forks on the sign of every pixel; the k=2 case needed > 30 min for one task and was dropped)",
    "symbolic vertex positions of triangulation meshes (scipy.spatial.Voronoi / Delaunay need concrete vertices); Voronoi / Delaunay mappers, interpolated_array_from, magnification_*, max_pixel_* of MapperValued (argmax / argsort of symbolic values fork on every comparison); positive-only solver (use_positive_only_solver=False), check_reconstruction=False",
    "data_with_complex_gaussian_noise_added (complex arithmetic on the RNG draws) - its seeding goes through gaussian_noise_via_shape_and_sigma_from, which is covered",
    "bit-exact determinism of compiled / BLAS routines; float64 rounding (exact real arithmetic; every sat verdict replayed in float64)",
    "aliasing that never leads to a changed value (e.g. Grid2D(values=slim) keeps a reference to the caller's array)",
]
STUBS = [
    "numpy global RNG inside autoarray.dataset.preprocess: state = (seed term, draws since seeding); seed(k) sets it; randint/poisson/normal "
    "return uninterpreted functions rng_*(state, draw counter, element index, parameter). Contract: a draw depends on nothing but the generator state and its arguments",
    "scipy.signal.convolve2d(mode='same') inside kernel_2d for symbolic operands: direct double sum (validated against scipy under solver models each run)",
    "np.linalg.solve inside inversion_util with a CONCRETE matrix and symbolic right-hand side: inv(A) by LAPACK times b (linearity of the solve); cholesky/inv get float64 copies of all-concrete object arrays",
    "symbolic complex numbers: harness-level SymComplex(re, im) elements in an ndarray subclass with element-wise .real/.imag; np.real/np.imag facades extended accordingly",
    "boolean-mask indexing AbstractNDArray[cond] with a symbolic condition: the condition is concretised by forking before the real __getitem__ runs",
    "sqrt as an uninterpreted function in Part C only (equality of outputs needs congruence only)",
    "np.empty / np.empty_like (float) = uninitialised memory: every entry is a fresh unconstrained solver real per call; in the replay the autoarray modules see an np.empty that returns per-call distinct contents (a legal behaviour of uninitialised memory)",
    "np.arctan2 of symbolic arguments: the engine's unit-vector angle model; phases are compared as (cos, sin) pairs",
]
ASSUMPTIONS = [
    "relational oracle: the expected value of an observation is the same observation on a freshly built object graph on which only the derivation steps of the history were replayed (independent references: caller-owned arrays = their original terms; Visibilities.ordered_1d = concat(re, im) of the object's own contents; simulator output = values + (values - draw(seed k)/t))",
    "conf general.inversion.check_reconstruction is switched off for the inversion graphs (it adds one symbolic fork per solve)",
    "Visibilities level: real parts non-zero and different from the subtracted constant (the angle model and numpy disagree on the phase of exactly 0)",
    "noise maps >= 1/2, PSF sums >= 1/2, pixel scale >= 1/8, multiplier c != 0 on the Visibilities level",
    "known-finding regions are predicates over the (concrete) history and observation of a path, see known_findings.d/C11.json",
]
EXPLORER_OPTS = {"timeout_ms": 20000, "max_paths": 200000, "max_decisions": 600}
BUDGET_S = {"quick": 900, "thorough": 2300}
MAX_REPLAY = 40


def _known_ids():
    return set(x for x in os.environ.get("VERIF_KNOWN", "").split(",") if x)


class HarnessError(Exception):
    pass


def _arr(x):
    """plain ndarray content of a structure / array (no copy)"""
    return hx.unwrap(x)


def _snap(x):
    """snapshot (copy) of the current content of an array / structure; proxies are immutable so a shallow copy is exact"""
    a = _arr(x)
    if isinstance(a, np.ndarray):
        return np.array(a, copy=True)
    return a


def _mk(f, *a, **kw):
    """a construction the harness relies on: failure = inconclusive (harness error), never a verdict"""
    try:
        return f(*a, **kw)
    except (V.Unsupported, V.NonFinite):
        raise
    except Exception as e:  # noqa
        raise HarnessError("construction failed in the harness: %s: %s" % (type(e).__name__, str(e)[:300]))


def _pos(mask):
    return [(y, x) for y in range(mask.shape[0]) for x in range(mask.shape[1]) if not mask[y, x]]


# ---------------------------------------------------------------------------------------------------------------------
# symbolic complex payloads (Visibilities): the engine has no complex proxy, so the harness brings a minimal one.
# Elements are SymComplex(re, im) stored in an ndarray subclass whose .real/.imag are element-wise (a plain object
# array returns itself / zeros there); the repo's AbstractNDArray.real / .imag / arithmetic run unchanged on it.

class SymComplex:
    __slots__ = ("re", "im")
    __hash__ = None

    def __init__(self, re, im):
        self.re, self.im = re, im

    @staticmethod
    def of(o):
        if isinstance(o, SymComplex):
            return o
        if isinstance(o, (complex, np.complexfloating)):
            return SymComplex(np.float64(o.real), np.float64(o.imag))
        if V.is_sym(o) or V._is_num(o):
            return SymComplex(o, np.float64(0.0))
        return None

    real = property(lambda self: self.re)
    imag = property(lambda self: self.im)

    def conjugate(self):
        return SymComplex(self.re, -self.im)

    def __add__(self, o):
        if isinstance(o, np.ndarray):
            return NotImplemented
        o = SymComplex.of(o)
        return NotImplemented if o is None else SymComplex(self.re + o.re, self.im + o.im)

    __radd__ = __add__

    def __sub__(self, o):
        if isinstance(o, np.ndarray):
            return NotImplemented
        o = SymComplex.of(o)
        return NotImplemented if o is None else SymComplex(self.re - o.re, self.im - o.im)

    def __rsub__(self, o):
        if isinstance(o, np.ndarray):
            return NotImplemented
        o = SymComplex.of(o)
        return NotImplemented if o is None else SymComplex(o.re - self.re, o.im - self.im)

    def __neg__(self):
        return SymComplex(-self.re, -self.im)

    def __mul__(self, o):
        if isinstance(o, np.ndarray):
            return NotImplemented
        if V.is_sym(o) or V._is_num(o):
            return SymComplex(self.re * o, self.im * o)
        o = SymComplex.of(o)
        if o is None:
            return NotImplemented
        return SymComplex(self.re * o.re - self.im * o.im, self.re * o.im + self.im * o.re)

    __rmul__ = __mul__

    def __truediv__(self, o):
        if isinstance(o, np.ndarray):
            return NotImplemented
        if V.is_sym(o) or V._is_num(o):
            return SymComplex(self.re / o, self.im / o)
        return NotImplemented

    def __repr__(self):
        return "SymComplex(%r, %r)" % (self.re, self.im)


class CArr(np.ndarray):
    """object ndarray of SymComplex with element-wise .real / .imag"""

    def _part(self, name):
        out = np.empty(self.shape, dtype=object)
        fo, fi = out.reshape(-1), np.asarray(self).reshape(-1)
        for i in range(fi.shape[0]):
            e = fi[i]
            out.reshape(-1)[i] = getattr(e, name) if isinstance(e, SymComplex) else (e if name == "real" else np.float64(0.0))
        return out

    real = property(lambda self: self._part("real"))
    imag = property(lambda self: self._part("imag"))


def _complex_array(re, im):
    """complex payload: CArr of SymComplex when symbolic, complex128 when concrete"""
    re, im = np.asarray(re), np.asarray(im)
    if shim.has_sym(re) or shim.has_sym(im) or re.dtype == object or im.dtype == object:
        out = np.empty(re.shape, dtype=object)
        for idx in np.ndindex(*re.shape):
            out[idx] = SymComplex(re[idx], im[idx])
        return out.view(CArr)
    return re.astype(float) + 1j * im.astype(float)


def _has_cplx(x):
    x = hx.unwrap(x)
    return isinstance(x, np.ndarray) and x.dtype == object and x.size > 0 and any(isinstance(e, SymComplex) for e in x.reshape(-1))


def _split_complex(x):
    """[re, im] arrays of a complex array / structure (symbolic or concrete)"""
    a = hx.unwrap(x)
    if isinstance(a, np.ndarray) and a.dtype == object:
        c = a.view(CArr)
        return [c.real, c.imag]
    a = np.asarray(a)
    return [np.real(a).astype(float), np.imag(a).astype(float)]


def POST_INSTALL():
    F = shim.NPFacade
    _real, _imag = F.real, getattr(F, "imag", None)

    def real(self, x):
        if _has_cplx(x):
            return hx.unwrap(x).view(CArr).real
        return _real(self, x)

    def imag(self, x):
        if _has_cplx(x):
            return hx.unwrap(x).view(CArr).imag
        u = hx.unwrap(x)
        if isinstance(u, np.ndarray) and u.dtype == object:
            return shim.obj_full(u.shape, np.float64(0.0))
        return np.imag(u)

    F.real, F.imag = real, imag

    def mean(self, a, axis=None, where=None, **kw):
        """np.mean(x, axis, where=) of an object array (binned_across_rows / columns): sum of the selected entries / their number"""
        u = hx.unwrap(a)
        if isinstance(u, np.ndarray) and u.dtype == object:
            if not shim.has_sym(u):
                return np.mean(u.astype(float), axis=axis, **({} if where is None else {"where": where}), **kw)
            w = np.ones(u.shape, dtype=bool) if where is None else np.broadcast_to(np.asarray(hx.unwrap(where), dtype=bool), u.shape)
            cnt = w.sum(axis=axis)
            tot = (u * w).sum(axis=axis)
            return tot / cnt
        return np.mean(u, axis=axis, **({} if where is None else {"where": where}), **kw)

    F.mean = mean

    # np.empty / np.empty_like are UNINITIALISED memory: every float entry is a fresh unconstrained solver real, so an
    # output that depends on memory the code never wrote differs between two runs of the same computation
    _empty, _empty_like = F.empty, getattr(F, "empty_like", None)

    def _uninit(shape):
        out = np.empty(shape, dtype=object)
        flat = out.reshape(-1)
        for i in range(flat.shape[0]):
            flat[i] = V.SymReal(V.ctx().fresh_real("uninit"))
        return out.view(type(shim.obj_full((1,), np.float64(0.0))))

    def empty(self, shape, dtype=None, **kw):
        if shim.ENABLED[0] and V._CTX[0] is not None and shim._is_float_dtype(dtype):
            return _uninit(shape)
        if shim._is_float_dtype(dtype):      # native pass-through (validation): per-call distinct contents, as in the replay
            return _NPUninitNative(np).empty(shape, dtype=shim._real_dtype(dtype) or float, **kw)
        return _empty(self, shape, dtype=dtype, **kw)

    def empty_like(self, a, dtype=None, **kw):
        u = hx.unwrap(a)
        if shim.ENABLED[0] and V._CTX[0] is not None and dtype is None and isinstance(u, np.ndarray) and (u.dtype == object or u.dtype.kind == "f"):
            return _uninit(u.shape)
        return np.empty_like(shim.normalise(u), dtype=shim._real_dtype(dtype), **kw)

    F.empty, F.empty_like = empty, empty_like

    # boolean-mask indexing with a symbolic condition (e.g. `y_diff[y_diff != 0]` in Grid2D.is_uniform): numpy cannot
    # index with an object array of SymBool, so the condition is concretised by forking before the REAL method runs.
    from autoarray.abstract_ndarray import AbstractNDArray

    def _concrete_index(item):
        u = hx.unwrap(item)
        if isinstance(u, np.ndarray) and u.dtype == object and u.size and any(isinstance(e, (V.SymBool, bool, np.bool_)) for e in u.reshape(-1)):
            if shim.has_sym(u):
                return V.ctx().concrete_bools(u)
            return u.astype(bool)
        return item

    if not getattr(AbstractNDArray, "_c11_patched", False):
        _gi = AbstractNDArray.__getitem__
        AbstractNDArray.__getitem__ = lambda self, item: _gi(self, _concrete_index(item))
        AbstractNDArray._c11_patched = True


# =====================================================================================================================
# Part A - constructors never modify what is passed to them
# =====================================================================================================================

def _ctor(A, E, key, make, **arrays):
    """call make(**owned copies); afterwards every caller-owned array must still hold the original terms"""
    owned = {k: np.array(v, copy=True) for k, v in arrays.items()}
    obj = _mk(make, **owned)
    for k, v in arrays.items():
        A["%s:%s" % (key, k)] = owned[k]
        E["%s:%s" % (key, k)] = v
    return obj, owned


def body_ctor_struct(inp, H, W):
    import autoarray as aa
    mask_in = np.array(inp["mask"], dtype=bool).reshape(H, W)
    pos = _pos(mask_in)
    n = len(pos)
    v = np.asarray(inp["v"]).reshape(H, W)
    g = np.asarray(inp["g"]).reshape(H, W, 2)
    g2 = np.asarray(inp["g2"]).reshape(H, W, 2)
    s = np.asarray(inp["s"]).reshape(-1)[:n]
    gs = np.asarray(inp["gs"]).reshape(-1, 2)[:n]
    A, E = {}, {}
    # masks
    _ctor(A, E, "Mask2D", lambda mask: aa.Mask2D(mask=mask, pixel_scales=(1.0, 2.0)), mask=mask_in)
    _ctor(A, E, "Mask2D(invert)", lambda mask: aa.Mask2D(mask=mask, pixel_scales=(1.0, 2.0), invert=True), mask=mask_in)
    m = aa.Mask2D(mask=mask_in.copy(), pixel_scales=(1.0, 2.0))
    m_all = aa.Mask2D.all_false(shape_native=(H, W), pixel_scales=(1.0, 2.0))
    for sn in (False, True):
        t = "sn%d" % sn
        for nm, vals in (("native", v), ("slim", s)):
            _ctor(A, E, "Array2D(%s,%s)" % (nm, t), lambda values: aa.Array2D(values=values, mask=m, store_native=sn), values=vals)
            _ctor(A, E, "Kernel2D(%s,%s,normalize)" % (nm, t),
                  lambda values: aa.Kernel2D(values=values, mask=m, store_native=sn, normalize=True), values=vals)
        for nm, vals in (("native", g), ("slim", gs)):
            _ctor(A, E, "Grid2D(%s,%s)" % (nm, t), lambda values: aa.Grid2D(values=values, mask=m, store_native=sn), values=vals)
        for nm, vals, gr in (("native", g, g2), ("slim", gs, np.asarray(inp["gs2"]).reshape(-1, 2)[:n])):
            _ctor(A, E, "VectorYX2D(%s,%s)" % (nm, t),
                  lambda values, grid: aa.VectorYX2D(values=values, grid=grid, mask=m, store_native=sn), values=vals, grid=gr)
    # structures passed to constructors / masking of an existing structure: the source object keeps its contents
    for sn in (False, True):
        t = "sn%d" % sn
        src = aa.Array2D(values=v.copy(), mask=m_all, store_native=sn)
        before = _snap(src)
        for nm, f in ((("Array2D(values=array)", lambda: aa.Array2D(values=src, mask=m)),
                       ("Array2D(values=array,native)", lambda: aa.Array2D(values=src, mask=m, store_native=True))) if sn else ()) + (
                      ("array.apply_mask", lambda: src.apply_mask(mask=m)),
                      ("Kernel2D(values=array,normalize)", lambda: aa.Kernel2D(values=src, mask=m_all, normalize=True, store_native=sn)),
                      ("Kernel2D(values=array,normalize,slim)", lambda: aa.Kernel2D(values=src, mask=m_all, normalize=True))):
            before = _snap(src)
            _mk(f)
            A["%s,%s:source" % (nm, t)] = _snap(src)
            E["%s,%s:source" % (nm, t)] = before
        gsrc = aa.Grid2D(values=g.copy(), mask=m_all, store_native=sn)
        before = _snap(gsrc)
        for nm, f in ((("Grid2D(values=grid)", lambda: aa.Grid2D(values=gsrc, mask=m)),
                       ("Grid2D(values=grid,native)", lambda: aa.Grid2D(values=gsrc, mask=m, store_native=True)),
                       ("VectorYX2D(values=grid,grid=grid)", lambda: aa.VectorYX2D(values=gsrc, grid=gsrc, mask=m))) if sn else ()) + (
                      ("Grid2D(values=grid,same mask)", lambda: aa.Grid2D(values=gsrc, mask=m_all, store_native=not sn)),
                      ("VectorYX2D.from_mask", lambda: aa.VectorYX2D.from_mask(values=gsrc.native, mask=m))):
            before = _snap(gsrc)
            _mk(f)
            A["%s,%s:source" % (nm, t)] = _snap(gsrc)
            E["%s,%s:source" % (nm, t)] = before
    # no_mask / irregular constructors
    _ctor(A, E, "Array2D.no_mask", lambda values: aa.Array2D.no_mask(values=values, pixel_scales=1.0), values=v)
    _ctor(A, E, "Kernel2D.no_mask(normalize)", lambda values: aa.Kernel2D.no_mask(values=values, pixel_scales=1.0, normalize=True), values=v)
    _ctor(A, E, "Grid2D.no_mask", lambda values: aa.Grid2D.no_mask(values=values, pixel_scales=1.0), values=g)
    _ctor(A, E, "Grid2DIrregular", lambda values: aa.Grid2DIrregular(values=values), values=gs)
    _ctor(A, E, "ArrayIrregular", lambda values: aa.ArrayIrregular(values=values), values=s)
    return A, E


def body_ctor_graph(inp, H, W):
    """datasets, simulator, mappers, valued mappers, inversions: construction leaves every object passed in unchanged"""
    import autoarray as aa
    from autoarray.inversion.inversion import factory
    from autoconf import conf
    conf.instance["general"]["inversion"]["check_reconstruction"] = False     # (a fork on "all values equal" per solve otherwise)
    _install_linalg_stub()
    inner = np.array(inp["mask"], dtype=bool).reshape(H, W)
    mask_in = np.ones((H + 2, W + 2), dtype=bool)       # one masked ring around the forked mask: room for the 3x3 PSF
    mask_in[1:-1, 1:-1] = inner
    H, W = H + 2, W + 2
    n = len(_pos(mask_in))
    dv, nv, pv = np.asarray(inp["data"]).reshape(H, W), np.asarray(inp["noise"]).reshape(H, W), np.asarray(inp["psf"]).reshape(3, 3)
    vals = np.asarray(inp["vals"]).reshape(-1)[:9]
    adapt = np.asarray(inp["adapt"]).reshape(H, W)
    use_w_tilde = bool(inp["use_w_tilde"])
    A, E = {}, {}
    m = aa.Mask2D(mask=mask_in.copy(), pixel_scales=(1.0, 1.0))
    mask_before = _snap(m)
    data = aa.Array2D(values=dv.copy(), mask=m)
    noise = aa.Array2D(values=nv.copy(), mask=m)
    psf = aa.Kernel2D.no_mask(values=pv.copy(), pixel_scales=(1.0, 1.0))
    ncm = np.array(np.diag(nv.reshape(-1)[:n]), copy=True)
    ncm_before = ncm.copy()
    before = {"data": _snap(data), "noise": _snap(noise), "psf": _snap(psf), "mask": mask_before, "ncm": ncm_before}

    def unchanged(tag):
        A[tag] = [_snap(data), _snap(noise), _snap(psf), _snap(m), ncm.copy()]
        E[tag] = [before["data"], before["noise"], before["psf"], before["mask"], before["ncm"]]
        # every check is relative to the state just before its own call
        before.update({"data": _snap(data), "noise": _snap(noise), "psf": _snap(psf), "mask": _snap(m), "ncm": ncm.copy()})

    ds = _mk(aa.Imaging, data=data, noise_map=noise, psf=psf, noise_covariance_matrix=ncm)
    unchanged("Imaging(data, noise_map, psf, noise_covariance_matrix): inputs")
    _mk(aa.Imaging, data=data, noise_map=noise, psf=psf, use_normalized_psf=False, check_noise_map=False)
    unchanged("Imaging(use_normalized_psf=False): inputs")
    _mk(aa.SimulatorImaging, exposure_time=2.0, psf=psf)
    unchanged("SimulatorImaging(psf): inputs")
    _mk(lambda: psf.normalized)
    unchanged("Kernel2D.normalized: source kernel")
    hx.attempt(lambda: ds.apply_noise_scaling(mask=m, noise_value=inp["vals"][0]))
    unchanged("Imaging.apply_noise_scaling: inputs")
    # the same dataset with natively stored data / noise map (store_native=True): derivations leave the source dataset
    # and the caller's structures unchanged
    data_n = aa.Array2D(values=dv.copy(), mask=m, store_native=True)
    noise_n = aa.Array2D(values=nv.copy(), mask=m, store_native=True)
    bn = [_snap(data_n), _snap(noise_n)]
    ds_n = _mk(aa.Imaging, data=data_n, noise_map=noise_n, psf=psf, check_noise_map=False)
    for nm, f in (("apply_noise_scaling(noise_value)", lambda: ds_n.apply_noise_scaling(mask=m, noise_value=inp["vals"][0])),
                  ("apply_noise_scaling(noise_value, keep data)", lambda: ds_n.apply_noise_scaling(mask=m, noise_value=inp["vals"][1], should_zero_data=False)),
                  ("trimmed_after_convolution_from", lambda: ds_n.trimmed_after_convolution_from(kernel_shape=(3, 3))),
                  ("apply_over_sampling", lambda: ds_n.apply_over_sampling(over_sampling=aa.OverSamplingDataset(uniform=aa.OverSamplingUniform(sub_size=2))))):
        hx.attempt(f)
        key = "Imaging(native-stored data, noise_map).%s: source dataset and caller structures" % nm
        A[key] = [_snap(data_n), _snap(noise_n), _snap(ds_n.data), _snap(ds_n.noise_map)]
        E[key] = [bn[0], bn[1], bn[0], bn[1]]
        bn = [_snap(data_n), _snap(noise_n)]
    # mapper graph (concrete geometry from the mask; adapt data symbolic)
    grid = aa.Grid2D.from_mask(mask=m)
    mesh_grid = aa.Mesh2DRectangular.overlay_grid(shape_native=(3, 3), grid=grid)
    adapt_data = aa.Array2D(values=adapt.copy(), mask=m)
    g_before, mesh_before, adapt_before = _snap(grid), _snap(mesh_grid), _snap(adapt_data)
    mg = _mk(aa.MapperGrids, mask=m, source_plane_data_grid=grid, source_plane_mesh_grid=mesh_grid, adapt_data=adapt_data)
    reg = aa.reg.Constant(coefficient=2.0)
    mapper = _mk(aa.Mapper, mapper_grids=mg, over_sampler=aa.OverSamplerUniform(mask=m, sub_size=1), regularization=reg)
    A["MapperGrids / Mapper: inputs"] = [_snap(grid), _snap(mesh_grid), _snap(adapt_data), _snap(m)]
    E["MapperGrids / Mapper: inputs"] = [g_before, mesh_before, adapt_before, mask_before]
    mm_before = _snap(mapper.mapping_matrix)
    src_vals, pix_mask = np.array(vals, copy=True), np.array([True, False, False, False, True, False, False, False, False])
    _mk(aa.MapperValued, mapper=mapper, values=src_vals, mesh_pixel_mask=pix_mask)
    A["MapperValued(mapper, values, mesh_pixel_mask): inputs"] = [src_vals, pix_mask, _snap(mapper.mapping_matrix)]
    E["MapperValued(mapper, values, mesh_pixel_mask): inputs"] = [vals, np.array([True, False, False, False, True, False, False, False, False]), mm_before]
    # inversion factories: dataset, linear objects and settings passed in
    def settings_state(st):
        return [bool(st.use_w_tilde), bool(st.use_linear_operators), bool(st.force_edge_pixels_to_zeros), bool(st.use_w_tilde_numpy)]

    st = aa.SettingsInversion(use_w_tilde=use_w_tilde, use_positive_only_solver=False)
    st_before = settings_state(st)
    lol = [mapper]
    # (the w-tilde route computes the noise/PSF preload at construction: concrete noise and PSF, symbolic data)
    noise_c = aa.Array2D(values=1.0 + 0.5 * (np.arange(H * W).reshape(H, W) % 3), mask=m)
    psf_c = aa.Kernel2D.no_mask(values=[[0.0, 0.25, 0.0], [0.25, 1.0, 0.25], [0.0, 0.25, 0.0]], pixel_scales=(1.0, 1.0))
    nc_before, pc_before = _snap(noise_c), _snap(psf_c)
    ds = _mk(aa.Imaging, data=data, noise_map=noise_c, psf=psf_c)
    inv = _mk(aa.Inversion, dataset=ds, linear_obj_list=lol, settings=st)
    hx.attempt(lambda: inv.reconstruction)
    A["Inversion(imaging, [mapper], settings) + reconstruction: dataset"] = [_snap(data), _snap(noise_c), _snap(psf_c), _snap(m),
                                                                            _snap(ds.data), _snap(ds.noise_map), _snap(ds.psf)]
    E["Inversion(imaging, [mapper], settings) + reconstruction: dataset"] = [before["data"], nc_before, pc_before, mask_before,
                                                                            before["data"], nc_before, _snap(psf_c.normalized)]
    A["Inversion(imaging, [mapper], settings): settings, linear_obj_list, mapper"] = [settings_state(st), len(lol), lol[0] is mapper, _snap(mapper.mapping_matrix)]
    E["Inversion(imaging, [mapper], settings): settings, linear_obj_list, mapper"] = [st_before, 1, True, mm_before]
    # interferometer route of the same factory (visibilities from the symbolic payload)
    dflt = factory.inversion_from.__defaults__[0]
    dflt.use_w_tilde = True                      # interpreter-fresh state of the shared default (harness hygiene)
    k_before = type(_mk(aa.Inversion, dataset=ds, linear_obj_list=lol)).__name__
    vis = aa.Visibilities(visibilities=_complex_array(vals[:3], vals[3:6]))
    vnm = aa.VisibilitiesNoiseMap(visibilities=np.array([1.0 + 1.0j, 2.0 + 1.0j, 1.0 + 2.0j]))
    vis_before = _val(vis)
    dsi = aa.DatasetInterface(data=vis, noise_map=vnm, transformer=None)
    st2 = aa.SettingsInversion(use_w_tilde=use_w_tilde, use_positive_only_solver=False)
    _mk(aa.Inversion, dataset=dsi, linear_obj_list=lol, settings=st2)
    A["Inversion(interferometer dataset, [mapper], settings): settings"] = settings_state(st2)
    E["Inversion(interferometer dataset, [mapper], settings): settings"] = st_before
    A["Inversion(interferometer dataset, [mapper], settings): visibilities"] = _val(vis)
    E["Inversion(interferometer dataset, [mapper], settings): visibilities"] = vis_before
    _mk(aa.Inversion, dataset=dsi, linear_obj_list=lol)
    A["Inversion(imaging) with default settings, after an interferometer inversion with default settings: same formalism"] = \
        type(_mk(aa.Inversion, dataset=ds, linear_obj_list=lol)).__name__
    E["Inversion(imaging) with default settings, after an interferometer inversion with default settings: same formalism"] = k_before
    dflt.use_w_tilde = True
    return A, E


def case_ctor_graph(ctx, H, W):
    mask = _sym_mask(ctx, (H, W), min_unmasked=2)
    uw = ctx.fork_bool(V.boolean("use_w_tilde"))
    ctx.set_case(mask=mask.tolist(), use_w_tilde=bool(uw))
    psf = V.real_array("p", (3, 3))
    ctx.assume(z3.Sum([e.t for e in psf.reshape(-1)]) >= z3.RealVal("1/2"))
    inputs = {"mask": mask, "use_w_tilde": bool(uw), "psf": psf,
              "vals": V.real_array("s", (9,)), "adapt": V.real_array("a", (H, W))}
    inputs.update({"data": V.real_array("d", (H + 2, W + 2)), "adapt": V.real_array("a", (H + 2, W + 2))})
    noise = V.real_array("n", (H + 2, W + 2))
    for e in noise.reshape(-1):
        ctx.assume(e.t >= z3.RealVal("1/2"))
    inputs["noise"] = noise
    known = {}
    if "interferometer-factory-mutates-settings" in _known_ids():
        if uw:
            known["Inversion(interferometer dataset, [mapper], settings): settings"] = {"interferometer-factory-mutates-settings": z3.BoolVal(True)}
        known["Inversion(imaging) with default settings, after an interferometer inversion with default settings: same formalism"] = \
            {"interferometer-factory-mutates-settings": z3.BoolVal(True)}
    hx.run_body(ctx, body_ctor_graph, inputs, {"H": H, "W": W}, validate_every=64, known=known)


def _sym_mask(ctx, shape, name="m", min_unmasked=1):
    m = V.bool_array(name, shape)
    bits = [z3.If(b.t, 0, 1) for b in m.reshape(-1)]
    ctx.assume(z3.Sum(bits) >= min_unmasked)
    return ctx.concrete_bools(m)


def case_ctor_struct(ctx, H, W):
    mask = _sym_mask(ctx, (H, W))
    ctx.set_case(mask=mask.tolist())
    inputs = {"mask": mask, "v": V.real_array("v", (H, W)), "g": V.real_array("g", (H, W, 2)), "g2": V.real_array("h", (H, W, 2)),
              "s": V.real_array("s", (H * W,)), "gs": V.real_array("gs", (H * W, 2)), "gs2": V.real_array("hs", (H * W, 2))}
    known = {}
    if "grid-native-input-masked-in-place" in _known_ids():
        # region: the mask has at least one masked pixel (there the caller's native (y,x) entries are overwritten by 0)
        reg = z3.BoolVal(bool(mask.any()))
        for key in ("Grid2D(native,sn0):values", "Grid2D(native,sn1):values", "VectorYX2D(native,sn0):values",
                    "VectorYX2D(native,sn1):values", "VectorYX2D(native,sn0):grid", "VectorYX2D(native,sn1):grid",
                    "Grid2D(values=grid),sn1:source", "Grid2D(values=grid,native),sn1:source",
                    "VectorYX2D(values=grid,grid=grid),sn1:source", "VectorYX2D.from_mask,sn1:source"):
            known[key] = {"grid-native-input-masked-in-place": reg}
    hx.run_body(ctx, body_ctor_struct, inputs, {"H": H, "W": W}, validate_every=64, known=known)


# =====================================================================================================================
# Part B - histories of reads / derivations, then one observation
# =====================================================================================================================
# A level describes an object graph: build() makes a FRESH graph G (dict) from copies of the inputs; ops is a list of
# (name, kind, fn(G)) with kind "read" (result discarded) or "derive" (binds G["d"], the derived object under
# observation); obs is a list of (name, fn(G)) returning a comparable value.  Obligation for a history h and an
# observation o:   o(G after h)  ==  o(G' after the derive-steps of h only)   with G' freshly built (derive-steps are
# replayed only when o observes the derived object d; observations of the source side use an untouched G').
# An observation may return Spec(actual, expected): then `expected` (an independent reference computed from the
# object's own contents) is used instead of the fresh-graph value.

class Spec:
    def __init__(self, actual, expected):
        self.actual, self.expected = actual, expected


def _val(x, depth=0):
    """comparable snapshot of an observation"""
    if isinstance(x, (hx.Raised, str)) or x is None:
        return x
    if isinstance(x, shim.Angle):
        return [x.c, x.s]
    a = hx.unwrap(x)
    if isinstance(a, np.ndarray):
        if a.dtype == object and a.size and any(isinstance(e, shim.Angle) for e in a.reshape(-1)):
            return [[e.c, e.s] if isinstance(e, shim.Angle) else [np.cos(e), np.sin(e)] for e in a.reshape(-1)]
        if _has_cplx(a) or a.dtype.kind == "c":
            return _split_complex(a)
        return np.array(a, copy=True)
    if isinstance(x, (list, tuple)) and depth < 4:
        return [_val(e, depth + 1) for e in x]
    if isinstance(x, dict):
        return [_val(x[k], depth + 1) for k in sorted(x, key=str)]
    if V.is_sym(x) or isinstance(x, (bool, int, float, np.number, np.bool_)):
        return x
    return "<%s>" % type(x).__name__


def _structure(x):
    """contents + geometry of a structure"""
    if x is None:
        raise LookupError("no derived object yet")
    m = getattr(x, "mask", None)
    out = [_val(x)]
    if m is not None and hasattr(m, "pixel_scales"):
        out += [np.array(hx.unwrap(m), dtype=bool), list(m.pixel_scales), list(m.origin)]
    return out


def _run_op(op, G):
    try:
        op[2](G)
        return "ok"
    except (V.Unsupported, V.NonFinite):
        raise
    except Exception as e:  # noqa - a query that raises is a query without a result; its side effects (if any) stay
        return type(e).__name__


def _observe(ob, G):
    r = hx.attempt(ob[1], G)
    if isinstance(r, Spec):
        return _val(r.actual), _val(r.expected)
    return _val(r), None


def body_hist(inp, level, **kw):
    build, ops, obs = LEVELS[level](inp, **kw)
    hist = [int(i) for i in inp["hist"]]
    ob = obs[int(inp["obs"])]
    G = build()
    outcome = [_run_op(ops[i], G) for i in hist]
    a, spec = _observe(ob, G)
    if spec is None:
        G2 = build()
        if ob[0] == "d" or ob[0].startswith("d."):
            # only an observation of the derived object needs the derivation steps; everything else (the source
            # object, the objects it was built from, the caller's arrays) is compared with an untouched fresh graph,
            # so a derivation that writes into its source is seen
            for i in hist:
                if ops[i][1] == "derive":
                    _run_op(ops[i], G2)
        e, _ = _observe(ob, G2)
    else:
        e = spec
    # harness sanity (never a verdict by itself): which operations of the history raised - the per-path native
    # cross-validation compares this string too, so an operation that only fails on proxies cannot hide as a no-op
    oc = "|".join(outcome)
    return {ob[0]: a, "history outcome": oc}, {ob[0]: e, "history outcome": oc}


def _choose(ctx, name, n, fixed=None):
    if fixed is not None:
        return int(fixed)
    i = V.integer(name)
    ctx.assume(z3.And(i.t >= 0, i.t < n))
    return ctx.concretize_int(i.t)


def _hist_case(ctx, level, inputs, kw, k, op0=None, tol=None, validate_every=13):
    """fork over the history (k operation indices) and the observation index - symbolic integers decided by the explorer"""
    _, ops, obs = LEVELS[level](inputs, **kw)
    if isinstance(op0, str):
        op0 = [o[0] for o in ops].index(op0)
    hist = [_choose(ctx, "op%d" % t, len(ops), op0 if t == 0 else None) for t in range(k)]
    j = _choose(ctx, "obs", len(obs))
    names = [ops[i][0] for i in hist]
    ctx.set_case(hist=hist, obs=j, hist_names=names, obs_name=obs[j][0])
    inputs = dict(inputs)
    inputs["hist"], inputs["obs"] = hist, j
    known = {}
    ids = _known_ids()
    for fid, pred in KNOWN_REGIONS.get(level, {}).items():
        if fid not in ids:
            continue                      # only status "known" ids reach here: a fixed finding suppresses nothing
        reg = pred(names, obs[j][0], ops, kw, inputs)
        if reg is True:
            reg = z3.BoolVal(True)
        if reg is not False and reg is not None:
            known.setdefault(obs[j][0], {})[fid] = reg
    kw2 = dict(kw)
    kw2["level"] = level
    if "is_uniform" in obs[j][0]:
        # the model of a path through `abs(y_diff - pixel_scale) > 1e-8` sits exactly on that threshold, where float64
        # rounding decides differently from exact arithmetic: no native cross-validation of this one boolean
        validate_every = 0
    hx.run_body(ctx, body_hist, inputs, kw2, validate_every=validate_every, known=known, tol=tol)


LEVELS = {}
KNOWN_REGIONS = {}


# ---------------------------------------------------------------------------------------------------- level: visibilities
def level_vis(inp, n, full=False):
    import autoarray as aa
    re, im = np.asarray(inp["re"]).reshape(-1)[:n], np.asarray(inp["im"]).reshape(-1)[:n]
    c, wr, wi = inp["c"], inp["w"][0], inp["w"][1]

    def build():
        src = _complex_array(re, im)
        return {"src": src, "x": _mk(aa.Visibilities, visibilities=src), "d": None}

    def rd(attr, who):
        return lambda G: getattr(G[who], attr)

    ops = [("noop", "read", lambda G: None)]
    for who in ("x", "d"):
        for attr in ("amplitudes", "phases", "in_array", "scaled_maxima", "ordered_1d") + (("in_grid", "scaled_minima", "slim", "native") if full else ()):
            ops.append(("%s.%s" % (who, attr), "read", rd(attr, who)))
    w = _complex_array(np.array([wr], dtype=object), np.array([wi], dtype=object))[0] if V.is_sym(wr) or V.is_sym(wi) else complex(wr, wi)

    def setd(f):
        def g(G):
            G["d"] = f(G)
        return g

    ops += [("d=x*c", "derive", setd(lambda G: G["x"] * c)),
            ("d=x+x", "derive", setd(lambda G: G["x"] + G["x"])),
            ("d=x-w", "derive", setd(lambda G: G["x"] - w)),
            ("d=-x", "derive", setd(lambda G: -G["x"])),
            ("d=x[0:%d]" % (n - 1), "derive", setd(lambda G: G["x"][0:n - 1])),
            ("d=x.copy()", "derive", setd(lambda G: G["x"].copy())),
            ("d=d*c", "derive", setd(lambda G: G["d"] * c))]
    if full:
        ops += [("d=c*x", "derive", setd(lambda G: c * G["x"])),
                ("d=x/c", "derive", setd(lambda G: G["x"] / c)),
                ("d=x[1:]", "derive", setd(lambda G: G["x"][1:])),
                ("d=d.copy()", "derive", setd(lambda G: G["d"].copy()))]

    def own(G, who):
        parts = _split_complex(G[who])
        return np.concatenate((parts[0], parts[1]), axis=0)

    obs = [("src", lambda G: _split_complex(G["src"]))]
    for who in ("x", "d"):
        obs += [("%s.array" % who, lambda G, who=who: _split_complex(G[who])),
                ("%s.amplitudes" % who, lambda G, who=who: _get(G, who).amplitudes),
                ("%s.phases" % who, lambda G, who=who: _get(G, who).phases),
                ("%s.in_array" % who, lambda G, who=who: _get(G, who).in_array),
                ("%s.scaled_maxima" % who, lambda G, who=who: _get(G, who).scaled_maxima),
                ("%s.ordered_1d (own contents)" % who, lambda G, who=who: Spec(_get(G, who).ordered_1d, own(G, who)))]
    return build, ops, obs


LEVELS["vis"] = level_vis


def _carries_dict(name):
    """derivations implemented with copy()/with_new_array (the instance __dict__, cached values included, travels along)"""
    tail = name[2:]
    return any(t in tail for t in ("*c", "c*", "+x", "-w", "-off", "-x", "/c", "[", "invert()", "flipped", "abs(", "in_radians"))


def _stale_cache_region(attr):
    """a cached quantity `attr` sits in the __dict__ of an object when another object is derived from it by arithmetic /
    slicing / invert(); the derived object carries the value although its contents differ, and its `attr` is observed"""
    def pred(names, obs_name, ops, kw):
        if obs_name != "d." + attr:
            return False
        x_has = d_has = d_stale = False
        for nm in names:
            if nm == "x." + attr:
                x_has = True
            elif nm == "d." + attr:
                if not d_has:
                    d_has, d_stale = True, False          # computed from d's own contents
            elif nm.startswith("d="):
                src_has, src_stale = (x_has, False) if not nm.startswith("d=d") else (d_has, d_stale)
                if nm.endswith("copy()"):
                    d_has, d_stale = src_has, src_stale
                elif _carries_dict(nm):
                    d_has, d_stale = src_has, src_has
                else:                                      # built by a constructor: no cache
                    d_has, d_stale = False, False
        return d_stale
    return pred


KNOWN_REGIONS["vis"] = {
    "stale-cache-after-derivation": lambda names, o, ops, kw, inp=None: any(_stale_cache_region(a)(names, o, ops, kw) for a in ("amplitudes", "phases")),
    "visibilities-ordered-1d-not-rederived": lambda names, o, ops, kw, inp=None: o == "d.ordered_1d (own contents)",
}


def case_hist_vis(ctx, n, k, op0=None, full=False):
    c = V.real("c")
    inputs = {"re": V.real_array("re", (n,)), "im": V.real_array("im", (n,)), "c": c, "w": [V.real("wr"), V.real("wi")]}
    ctx.assume(c.t != 0)
    for e in inputs["re"].reshape(-1):
        # phases of exactly-zero visibilities are the one place where the angle model (0,0) and numpy (angle 0) differ
        ctx.assume(z3.And(e.t != 0, e.t != inputs["w"][0].t))
    _hist_case(ctx, "vis", inputs, {"n": n, "full": full}, k, op0)


# ---------------------------------------------------------------------------------------------------- level: Array2D / Kernel2D
MASKS = {
    "3x3_all": [[0, 0, 0], [0, 0, 0], [0, 0, 0]],
    "3x3_plus": [[1, 0, 1], [0, 0, 0], [1, 0, 1]],
    "3x3_L": [[0, 1, 1], [0, 0, 1], [1, 1, 1]],
    "3x3_centre": [[1, 1, 1], [1, 0, 1], [1, 1, 1]],
    "2x3_diag": [[0, 1, 0], [1, 0, 1]],
    "2x2_diag": [[0, 1], [1, 0]],
    "4x4_inner": [[1, 1, 1, 1], [1, 0, 0, 1], [1, 0, 0, 1], [1, 1, 1, 1]],
    "4x3_mixed": [[1, 0, 1], [0, 0, 0], [1, 0, 0], [1, 1, 0]],
    "5x5_inner": [[1] * 5, [1, 0, 0, 0, 1], [1, 0, 0, 0, 1], [1, 0, 0, 0, 1], [1] * 5],
    "5x5_inner_L": [[1] * 5, [1, 0, 1, 1, 1], [1, 0, 0, 1, 1], [1, 0, 0, 0, 1], [1] * 5],
}


def _mask_arr(mask_id):
    return np.array(MASKS[mask_id], dtype=bool)


def _setd(f):
    def g(G):
        G["d"] = f(G)
    return g


def _rd(who, f):
    return lambda G: f(_get(G, who))


def _get(G, who):
    if G[who] is None:
        raise LookupError("no derived object yet")
    return G[who]


def level_array(inp, mask_id, cls, sn, full=False):
    import autoarray as aa
    mk = _mask_arr(mask_id)
    H, W = mk.shape
    v = np.asarray(inp["v"]).reshape(H, W)
    c = inp["c"]
    kernel = cls == "Kernel2D"
    klass = aa.Kernel2D if kernel else aa.Array2D
    m2 = np.array(mk, copy=True)
    m2[_pos(mk)[0]] = True     # a second mask with one more masked pixel

    def build():
        m = aa.Mask2D(mask=mk.copy(), pixel_scales=(1.0, 2.0))
        src = np.array(v, copy=True)
        return {"src": src, "m": m, "m2": aa.Mask2D(mask=m2.copy(), pixel_scales=(1.0, 2.0)),
                "x": _mk(klass, values=src, mask=m, store_native=bool(sn)), "d": None}

    reads = [("native", lambda o: o.native), ("slim", lambda o: o.slim), ("native_skip_mask", lambda o: o.native_skip_mask),
             ("binned_across_rows", lambda o: o.binned_across_rows)]
    if kernel:
        reads += [("normalized", lambda o: o.normalized)]
    if full:
        reads += [("binned_across_columns", lambda o: o.binned_across_columns), ("sum", lambda o: o.sum()),
                  ("extent_of_zoomed_array", lambda o: o.extent_of_zoomed_array(buffer=0))]
    ops = [("noop", "read", lambda G: None)]
    for who in ("x", "d"):
        ops += [("%s.%s" % (who, nm), "read", _rd(who, f)) for nm, f in reads]
    ops += [("d=x*c", "derive", _setd(lambda G: G["x"] * c)),
            ("d=x+x", "derive", _setd(lambda G: G["x"] + G["x"])),
            ("d=x[0:2]", "derive", _setd(lambda G: G["x"][0:2])),
            ("d=x.copy()", "derive", _setd(lambda G: G["x"].copy())),
            ("d=x.native", "derive", _setd(lambda G: G["x"].native)),
            ("d=x.slim", "derive", _setd(lambda G: G["x"].slim)),
            ("d=x.trimmed_after_convolution_from((3,1))", "derive", _setd(lambda G: G["x"].trimmed_after_convolution_from(kernel_shape=(3, 1)))),
            ("d=x.resized_from", "derive", _setd(lambda G: G["x"].resized_from(new_shape=(H + 1, W + 2)))),
            ("d=x.zoomed_around_mask(1)", "derive", _setd(lambda G: G["x"].zoomed_around_mask(buffer=1))),    # window reaches beyond the array
            ("d=d*c", "derive", _setd(lambda G: G["d"] * c)),
            ("d=d.native", "derive", _setd(lambda G: G["d"].native))]
    if kernel:
        ops += [("d=x.normalized", "derive", _setd(lambda G: G["x"].normalized))]
    else:
        ops += [("d=x.apply_mask(m2)", "derive", _setd(lambda G: G["x"].apply_mask(mask=G["m2"])))]
    if full:
        ops += [("d=abs(x)", "derive", _setd(lambda G: abs(G["x"]))),
                ("d=x.padded_before_convolution_from((3,3))", "derive", _setd(lambda G: G["x"].padded_before_convolution_from(kernel_shape=(3, 3)))),
                ("d=x.zoomed_around_mask(0)", "derive", _setd(lambda G: G["x"].zoomed_around_mask(buffer=0))),
                ("d=d.copy()", "derive", _setd(lambda G: G["d"].copy()))]
    obs = [("src", lambda G: G["src"]), ("mask", lambda G: np.array(hx.unwrap(G["m"]), dtype=bool))]
    for who in ("x", "d"):
        obs += [("%s" % who, lambda G, who=who: _structure(G[who])),
                ("%s.native" % who, lambda G, who=who: _structure(_get(G, who).native)),
                ("%s.slim" % who, lambda G, who=who: _structure(_get(G, who).slim))]
        if kernel:
            obs += [("%s.normalized" % who, lambda G, who=who: _structure(_get(G, who).normalized))]
    return build, ops, obs


LEVELS["array"] = level_array


def case_hist_array(ctx, mask_id, cls, sn, k, op0=None, full=False):
    H, W = _mask_arr(mask_id).shape
    inputs = {"v": V.real_array("v", (H, W)), "c": V.real("c")}
    _hist_case(ctx, "array", inputs, {"mask_id": mask_id, "cls": cls, "sn": sn, "full": full}, k, op0)


# ---------------------------------------------------------------------------------------------------- level: Grid2D
def level_grid(inp, mask_id, sn, full=False):
    import autoarray as aa
    mk = _mask_arr(mask_id)
    H, W = mk.shape
    n = len(_pos(mk))
    gs = np.asarray(inp["gs"]).reshape(-1, 2)[:n]
    g = np.asarray(inp["g"]).reshape(H, W, 2)
    c, off = inp["c"], inp["off"]

    def build():
        m = aa.Mask2D(mask=mk.copy(), pixel_scales=(1.0, 2.0))
        src = np.array(g if sn else gs, copy=True)
        x = _mk(aa.Grid2D, values=src, mask=m, store_native=bool(sn), over_sampling=aa.OverSamplingUniform(sub_size=1))
        defl = aa.Grid2D(values=np.array(gs, copy=True) * 0.5, mask=m)
        return {"src": src, "m": m, "x": x, "d": None, "defl": defl}

    reads = [("is_uniform", lambda o: o.is_uniform), ("native", lambda o: o.native), ("slim", lambda o: o.slim),
             ("shape_native_scaled_interior", lambda o: o.shape_native_scaled_interior), ("over_sampler", lambda o: o.over_sampler)]
    if full:
        reads += [("flipped", lambda o: o.flipped), ("in_radians", lambda o: o.in_radians),
                  ("squared_distances_to_coordinate_from", lambda o: o.squared_distances_to_coordinate_from(coordinate=(0.5, 0.25)))]
    ops = [("noop", "read", lambda G: None)]
    for who in ("x", "d"):
        ops += [("%s.%s" % (who, nm), "read", _rd(who, f)) for nm, f in reads]
    ops += [("d=x*c", "derive", _setd(lambda G: G["x"] * c)),
            ("d=x-off", "derive", _setd(lambda G: G["x"] - np.array([off[0], off[1]], dtype=object if V.is_sym(off[0]) else float))),
            ("d=x[0:2]", "derive", _setd(lambda G: G["x"][0:2])),
            ("d=x.copy()", "derive", _setd(lambda G: G["x"].copy())),
            ("d=x.native", "derive", _setd(lambda G: G["x"].native)),
            ("d=x.slim", "derive", _setd(lambda G: G["x"].slim)),
            ("d=x.subtracted_from(off)", "derive", _setd(lambda G: G["x"].subtracted_from(offset=(off[0], off[1])))),
            ("d=x.grid_2d_via_deflection_grid_from", "derive", _setd(lambda G: G["x"].grid_2d_via_deflection_grid_from(deflection_grid=G["defl"]))),
            ("d=d*c", "derive", _setd(lambda G: G["d"] * c)),
            ("d=d.native", "derive", _setd(lambda G: G["d"].native))]
    if full:
        ops += [("d=x+x", "derive", _setd(lambda G: G["x"] + G["x"])),
                ("d=x.flipped", "derive", _setd(lambda G: G["x"].flipped)),
                ("d=x.padded_grid_from((3,3))", "derive", _setd(lambda G: G["x"].padded_grid_from(kernel_shape_native=(3, 3)))),
                ("d=d.copy()", "derive", _setd(lambda G: G["d"].copy()))]
    obs = [("src", lambda G: G["src"]), ("defl", lambda G: _structure(G["defl"]))]
    for who in ("x", "d"):
        obs += [("%s" % who, lambda G, who=who: _structure(G[who])),
                ("%s.native" % who, lambda G, who=who: _structure(_get(G, who).native)),
                ("%s.is_uniform" % who, lambda G, who=who: _get(G, who).is_uniform),
                ("%s.shape_native_scaled_interior" % who, lambda G, who=who: _get(G, who).shape_native_scaled_interior)]
        obs += [("%s.is_uniform (own contents)" % who, lambda G, who=who: _is_uniform_spec(_get(G, who)))]
    return build, ops, obs


def _is_uniform_spec(o):
    """independent reference for Grid2D.is_uniform from the object's OWN contents (slim [n,2] or native [H,W,2] storage), as documented:
    every non-zero step between consecutive y coordinates equals the y pixel scale pixel_scales[0] (tolerance 1e-8)"""
    a = np.asarray(hx.unwrap(o))
    if a.ndim == 3:
        # natively stored [H,W,2]: the grid's coordinates are the entries at the unmasked pixels, in row-major order
        mk = np.array(hx.unwrap(o.mask), dtype=bool)
        if mk.shape != a.shape[:2]:
            raise LookupError("contents do not match the mask")
        a = np.array([[a[p][0], a[p][1]] for p in _pos(mk)], dtype=object).reshape(-1, 2)
    elif a.ndim != 2:
        raise LookupError("not a grid")
    ps = o.pixel_scales[0]
    ok = True
    for i in range(a.shape[0] - 1):
        dy = a[i, 0] - a[i + 1, 0]
        bad = (dy != 0) & (abs(dy - ps) > 1.0e-8)
        ok = (~bad) & ok if V.is_sym(bad) or V.is_sym(ok) else (ok and not bad)
    return Spec(o.is_uniform, ok)


def _grid_rewrap_region(names, obs_name, kw):
    """same in-place masking, seen as a read changing other quantities: a NATIVE-stored grid whose masked entries are
    non-zero (after `x - off`, or `x.flipped`, which is a reversed VIEW of x's buffer - itself the caller's array) is
    re-wrapped by .native / .slim (Grid2D(values=self, mask)); the constructor zeroes those entries in place: in d
    itself and, through the view, in x and in the caller's array"""
    if not kw.get("sn"):
        return False
    dirty = None
    for nm in names:
        if nm in ("d=x-off", "d=x.flipped"):
            dirty = nm
        elif nm.startswith("d=x") or nm == "d=d.native":
            if dirty and nm == "d=d.native":
                return obs_name.startswith("d") or dirty == "d=x.flipped"
            dirty = None
        elif nm in ("d.native", "d.slim") and dirty:
            return obs_name.startswith("d") or dirty == "d=x.flipped"
    return False


LEVELS["grid"] = level_grid
KNOWN_REGIONS["grid"] = {
    "stale-cache-after-derivation": lambda names, o, ops, kw, inp=None: _stale_cache_region("is_uniform")(names, o, ops, kw),
    "grid-native-input-masked-in-place": lambda names, o, ops, kw, inp=None: _grid_rewrap_region(names, o, kw),
}


def case_hist_grid(ctx, mask_id, sn, k, op0=None, full=False):
    H, W = _mask_arr(mask_id).shape
    c = V.real("c")
    inputs = {"g": V.real_array("g", (H, W, 2)), "gs": V.real_array("gs", (H * W, 2)), "c": c, "off": [V.real("offy"), V.real("offx")]}
    _hist_case(ctx, "grid", inputs, {"mask_id": mask_id, "sn": sn, "full": full}, k, op0)


# ---------------------------------------------------------------------------------------------------- level: Mask2D
def level_mask(inp, H, W, full=False):
    import autoarray as aa
    mk = np.array(inp["mask"], dtype=bool).reshape(H, W)
    ps = inp["ps"]

    def build():
        src = np.array(mk, copy=True)
        return {"src": src, "x": _mk(aa.Mask2D, mask=src, pixel_scales=(ps, ps)), "d": None}

    reads = [("circular_radius", lambda o: o.circular_radius), ("mask_centre", lambda o: o.mask_centre)]
    if full:
        reads += [("is_circular", lambda o: o.is_circular), ("zoom_region", lambda o: o.zoom_region),
                  ("derive_mask.edge", lambda o: o.derive_mask.edge), ("derive_indexes.native_for_slim", lambda o: o.derive_indexes.native_for_slim),
                  ("derive_grid.unmasked", lambda o: o.derive_grid.unmasked), ("zoom_mask_unmasked", lambda o: o.zoom_mask_unmasked)]
    ops = [("noop", "read", lambda G: None)]
    for who in ("x", "d"):
        ops += [("%s.%s" % (who, nm), "read", _rd(who, f)) for nm, f in reads]
    ops += [("d=x.invert()", "derive", _setd(lambda G: G["x"].invert())),
            ("d=x[0:%d]" % (H - 1), "derive", _setd(lambda G: G["x"][0:H - 1])),
            ("d=x[:,1:]", "derive", _setd(lambda G: G["x"][:, 1:])),
            ("d=x.copy()", "derive", _setd(lambda G: G["x"].copy())),
            ("d=x.resized_from", "derive", _setd(lambda G: G["x"].resized_from(new_shape=(H + 2, W + 2), pad_value=1))),
            ("d=d.invert()", "derive", _setd(lambda G: G["d"].invert()))]
    if full:
        ops += [("d=x.rescaled_from(2)", "derive", _setd(lambda G: G["x"].rescaled_from(rescale_factor=2.0))),
                ("d=x.derive_mask.edge", "derive", _setd(lambda G: G["x"].derive_mask.edge))]
    obs = [("src", lambda G: G["src"])]
    for who in ("x", "d"):
        obs += [("%s" % who, lambda G, who=who: [np.array(hx.unwrap(_get(G, who)), dtype=bool), list(_get(G, who).pixel_scales), list(_get(G, who).origin)]),
                ("%s.circular_radius" % who, lambda G, who=who: _get(G, who).circular_radius),
                ("%s.mask_centre" % who, lambda G, who=who: list(_get(G, who).mask_centre)),
                ("%s.pixels_in_mask" % who, lambda G, who=who: _get(G, who).pixels_in_mask)]
    return build, ops, obs


LEVELS["mask"] = level_mask
KNOWN_REGIONS["mask"] = {
    "stale-cache-after-derivation": lambda names, o, ops, kw, inp=None: _stale_cache_region("circular_radius")(names, o, ops, kw),
}


def case_hist_mask(ctx, H, W, k, op0=None, full=False, family="all"):
    m = V.bool_array("m", (H, W))
    bits = [z3.If(b.t, 0, 1) for b in m.reshape(-1)]
    ctx.assume(z3.Sum(bits) >= 1)
    if family == "sym4":
        # masks symmetric under the 4 reflections of the square (the family on which circular_radius is defined)
        for y in range(H):
            for x in range(W):
                ctx.assume(m[y, x].t == m[H - 1 - y, x].t)
                ctx.assume(m[y, x].t == m[y, W - 1 - x].t)
                if H == W:
                    ctx.assume(m[y, x].t == m[x, y].t)
    mask = ctx.concrete_bools(m)
    ps = V.real("ps")
    ctx.assume(ps.t >= z3.RealVal("1/8"))
    ctx.set_case(mask=mask.tolist())
    inputs = {"mask": mask, "ps": ps}
    _hist_case(ctx, "mask", inputs, {"H": H, "W": W, "full": full}, k, op0)


# ---------------------------------------------------------------------------------------------------- level: Imaging dataset
def _imaging_inputs(inp, H, W, KH=3, KW=3):
    return (np.asarray(inp["data"]).reshape(H, W), np.asarray(inp["noise"]).reshape(H, W), np.asarray(inp["psf"]).reshape(KH, KW))


def level_imaging(inp, mask_id, full=False, snr=False, sn=0, snv=False):
    import autoarray as aa
    mk = _mask_arr(mask_id)               # the mask applied later by apply_mask / apply_noise_scaling
    H, W = mk.shape
    dv, nv, pv = _imaging_inputs(inp, H, W)
    oy, ox = inp["origin"]
    c = inp["c"]

    def build():
        m0 = aa.Mask2D.all_false(shape_native=(H, W), pixel_scales=(1.0, 0.5), origin=(oy, ox))
        data = aa.Array2D(values=np.array(dv, copy=True), mask=m0, store_native=bool(sn))
        noise = aa.Array2D(values=np.array(nv, copy=True), mask=m0, store_native=bool(sn))
        psf = aa.Kernel2D.no_mask(values=np.array(pv, copy=True), pixel_scales=(1.0, 0.5))
        m = aa.Mask2D(mask=mk.copy(), pixel_scales=(1.0, 0.5), origin=(oy, ox))
        m2 = np.array(mk, copy=True)
        m2[_pos(mk)[-1]] = True
        m2 = aa.Mask2D(mask=m2, pixel_scales=(1.0, 0.5), origin=(oy, ox))
        u = _mk(aa.Imaging, data=data, noise_map=noise, psf=psf, check_noise_map=False)      # the unmasked source dataset
        x = _mk(lambda: u.apply_mask(mask=m))
        return {"data": data, "noise": noise, "psf": psf, "m": m, "m2": m2, "u": u, "x": x, "d": None}

    reads = [("grids.uniform", lambda o: o.grids.uniform), ("grids.blurring", lambda o: o.grids.blurring),
             ("convolver", lambda o: o.convolver)]
    if snr:       # forks on the sign of every pixel: only in a dedicated case
        reads += [("signal_to_noise_map", lambda o: o.signal_to_noise_map), ("signal_to_noise_max", lambda o: o.signal_to_noise_max)]
    if full:
        reads += [("grids.pixelization", lambda o: o.grids.pixelization), ("grid", lambda o: o.grid),
                  ("grids.border_relocator", lambda o: o.grids.border_relocator)]
    ops = [("noop", "read", lambda G: None)]
    for who in ("x", "d"):
        ops += [("%s.%s" % (who, nm), "read", _rd(who, f)) for nm, f in reads]
    ops += [("d=x.apply_mask(m2)", "derive", _setd(lambda G: G["x"].apply_mask(mask=G["m2"]))),
            ("d=x.unmasked.apply_noise_scaling(m,c)", "derive", _setd(lambda G: G["x"].unmasked.apply_noise_scaling(mask=G["m"], noise_value=c))),
            ("d=x.trimmed_after_convolution_from((3,3))", "derive", _setd(lambda G: G["x"].trimmed_after_convolution_from(kernel_shape=(3, 3)))),
            ("d=x.apply_over_sampling", "derive", _setd(lambda G: G["x"].apply_over_sampling(
                over_sampling=aa.OverSamplingDataset(uniform=aa.OverSamplingUniform(sub_size=2))))),
            ("d=d.trimmed_after_convolution_from((1,3))", "derive", _setd(lambda G: G["d"].trimmed_after_convolution_from(kernel_shape=(1, 3)))),
            ("d=d.apply_mask(m)", "derive", _setd(lambda G: G["d"].apply_mask(mask=G["m"]))),     # a later mask that unmasks pixels again
            ("d=u.trimmed_after_convolution_from((3,3))", "derive", _setd(lambda G: G["u"].trimmed_after_convolution_from(kernel_shape=(3, 3)))),
            ("d=u.apply_over_sampling", "derive", _setd(lambda G: G["u"].apply_over_sampling(
                over_sampling=aa.OverSamplingDataset(uniform=aa.OverSamplingUniform(sub_size=2)))))]
    if snv:       # needs np.median of the data: only in a dedicated case with concrete data
        ops += [("d=u.apply_noise_scaling(m,signal_to_noise_value)", "derive",
                 _setd(lambda G: G["u"].apply_noise_scaling(mask=G["m"], signal_to_noise_value=4.0)))]
    if full:
        ops += [("d=d.apply_mask(m2)", "derive", _setd(lambda G: G["d"].apply_mask(mask=G["m2"]))),
                ("d=x.unmasked.apply_noise_scaling(m,c,keep data)", "derive",
                 _setd(lambda G: G["x"].unmasked.apply_noise_scaling(mask=G["m"], noise_value=c, should_zero_data=False)))]

    def conv(o):
        cv = o.convolver
        return [np.array(hx.unwrap(cv.mask), dtype=bool), _val(cv.kernel)]

    def masked_spec(G, o):
        """independent reference for datasets produced by (chains of) apply_mask from the unmasked dataset u: data and
        noise map are the caller's unmasked values at the unmasked pixels of the dataset's own mask, whatever masks
        were applied before"""
        if getattr(o, "unmasked", None) is not G["u"] or tuple(o.data.mask.shape) != (H, W):
            raise LookupError("not a masked version of the unmasked dataset")
        pos = _pos(np.array(hx.unwrap(o.data.mask), dtype=bool))
        return Spec([_val(o.data.slim), _val(o.noise_map.slim)],
                    [np.array([dv[p] for p in pos], dtype=object), np.array([nv[p] for p in pos], dtype=object)])

    obs = [("inputs", lambda G: [_structure(G["data"]), _structure(G["noise"]), _structure(G["psf"]), _structure(G["m"]), _structure(G["m2"])]),
           ("u (unmasked source dataset)", lambda G: [_structure(G["u"].data), _structure(G["u"].noise_map), _structure(G["u"].psf)])]
    for who in ("x", "d"):
        obs += [("%s.data" % who, lambda G, who=who: _structure(_get(G, who).data)),
                ("%s.noise_map" % who, lambda G, who=who: _structure(_get(G, who).noise_map)),
                ("%s.psf" % who, lambda G, who=who: _structure(_get(G, who).psf)),
                ("%s.grids.uniform" % who, lambda G, who=who: _structure(_get(G, who).grids.uniform)),
                ("%s.grids.blurring" % who, lambda G, who=who: _structure(_get(G, who).grids.blurring)),
                ("%s.convolver" % who, lambda G, who=who: conv(_get(G, who))),
                ("%s: masked dataset holds the unmasked data under its own mask" % who, lambda G, who=who: masked_spec(G, _get(G, who)))]
        if snr:
            obs += [("%s.signal_to_noise_map" % who, lambda G, who=who: _structure(_get(G, who).signal_to_noise_map))]
    return build, ops, obs


def _stale_dataset_region(names, obs_name, ops, kw, inp=None):
    """cached `grids` / `convolver` of a dataset travel into the shallow copy made by trimmed_after_convolution_from"""
    key = {"d.grids.uniform": "grids", "d.grids.blurring": "grids", "d.convolver": "convolver"}.get(obs_name)
    if key is None:
        return False

    def cache_key(nm):
        q = nm.split(".", 1)[1]
        return "grids" if q.startswith("grid") else ("convolver" if q == "convolver" else None)

    x_cached, d_cached, d_stale = set(), set(), set()
    for nm in names:
        if nm.startswith("x.") and not nm.startswith("x.unmasked"):
            x_cached.add(cache_key(nm))
        elif nm.startswith("d=x.trimmed"):
            d_stale, d_cached = set(x_cached), set()
        elif nm.startswith("d=x."):
            d_stale, d_cached = set(), set()
        elif nm.startswith("d=d.trimmed"):
            d_stale, d_cached = d_stale | d_cached, set()      # a second shallow copy: caches filled on d in between are stale too
        elif nm.startswith("d=d."):
            d_stale, d_cached = set(), set()
        elif nm.startswith("d."):
            d_cached.add(cache_key(nm))
    return key in d_stale


LEVELS["imaging"] = level_imaging
KNOWN_REGIONS["imaging"] = {"stale-cache-after-derivation": _stale_dataset_region}


def case_hist_imaging(ctx, mask_id, k, op0=None, full=False, snr=False, sn=0, snv=False):
    H, W = _mask_arr(mask_id).shape
    noise = V.real_array("n", (H, W))
    for e in noise.reshape(-1):
        ctx.assume(e.t >= z3.RealVal("1/2"))
    # concrete PSF at this level (its normalisation p/sum(p) would make every path condition non-linear; the symbolic
    # PSF is covered by case_ctor_graph and case_rng)
    psf = np.array([[0.0, 0.25, 0.0], [0.25, 1.0, 0.25], [0.0, 0.25, 0.0]])
    inputs = {"data": V.real_array("d", (H, W)), "noise": noise, "psf": psf, "origin": [V.real("oy"), V.real("ox")], "c": V.real("c")}
    if snv:
        inputs["data"] = 1.0 + 0.25 * ((np.arange(H * W).reshape(H, W) * 5) % 7)     # concrete data: np.median sorts it
    _hist_case(ctx, "imaging", inputs, {"mask_id": mask_id, "full": full, "snr": snr, "sn": sn, "snv": snv}, k, op0)


# ---------------------------------------------------------------------------------------------------- level: mapper / valued mapper / inversion
class _LinalgStub:
    """np.linalg for autoarray.inversion.inversion.inversion_util: solve(A, b) with a CONCRETE matrix and a symbolic
    right-hand side is inv(A) (real LAPACK) times b; everything else is the real numpy.linalg"""

    def __getattr__(self, name):
        return getattr(np.linalg, name)

    def solve(self, a, b):
        a = shim.normalise(a)
        if shim.has_sym(b):
            if shim.has_sym(a):
                raise V.Unsupported("linear solve with a symbolic matrix")
            inv = np.linalg.inv(np.asarray(a, dtype=float))
            return np.dot(shim.as_obj(inv), np.asarray(hx.unwrap(b), dtype=object))
        return np.linalg.solve(a, shim.normalise(b))

    def cholesky(self, a):
        return np.linalg.cholesky(shim.normalise(a))

    def inv(self, a):
        return np.linalg.inv(shim.normalise(a))


class _NPWithLinalg:
    def __init__(self, base):
        object.__setattr__(self, "_base", base)
        object.__setattr__(self, "linalg", _LinalgStub())

    def __getattr__(self, name):
        return getattr(self._base, name)


def _install_linalg_stub():
    from autoarray.inversion.inversion import inversion_util, abstract
    for mod in (inversion_util, abstract):
        if not isinstance(mod.np, _NPWithLinalg):
            mod.np = _NPWithLinalg(mod.np)
    if not getattr(abstract.csc_matrix, "_c11", False):
        real_csc = abstract.csc_matrix

        def csc(a, *args, **kw):          # scipy.sparse boundary: all-concrete object arrays enter as float64
            return real_csc(shim.normalise(a), *args, **kw)

        csc._c11 = True
        abstract.csc_matrix = csc


_PRELOAD_CACHE = {}


def level_inversion(inp, mask_id, w_tilde, full=False, preloads=0):
    import autoarray as aa
    mk = _mask_arr(mask_id)
    H, W = mk.shape
    n = len(_pos(mk))
    dv = np.asarray(inp["data"]).reshape(H, W)
    vals = np.asarray(inp["vals"]).reshape(-1)[:9]
    noise_c = 1.0 + 0.5 * ((np.arange(H * W).reshape(H, W) % 3))          # concrete, dyadic
    psf_c = np.array([[0.0, 0.25, 0.0], [0.25, 1.0, 0.25], [0.0, 0.25, 0.0]])
    pix_mask = np.array([True, False, False, False, True, False, False, False, False])

    def build():
        from autoconf import conf
        conf.instance["general"]["inversion"]["check_reconstruction"] = False     # (a fork on "all values equal" per solve otherwise)
        m = aa.Mask2D(mask=mk.copy(), pixel_scales=(1.0, 1.0))
        data = aa.Array2D(values=np.array(dv, copy=True), mask=m)
        noise = aa.Array2D(values=noise_c.copy(), mask=m)
        psf = aa.Kernel2D.no_mask(values=psf_c.copy(), pixel_scales=(1.0, 1.0))
        ds = _mk(aa.Imaging, data=data, noise_map=noise, psf=psf)
        grid = aa.Grid2D.from_mask(mask=m)
        mesh_grid = aa.Mesh2DRectangular.overlay_grid(shape_native=(3, 3), grid=grid)
        mg = aa.MapperGrids(mask=m, source_plane_data_grid=grid, source_plane_mesh_grid=mesh_grid)
        mapper = _mk(aa.Mapper, mapper_grids=mg, over_sampler=aa.OverSamplerUniform(mask=m, sub_size=1),
                     regularization=aa.reg.Constant(coefficient=2.0))
        settings = aa.SettingsInversion(use_w_tilde=bool(w_tilde), use_positive_only_solver=False, no_regularization_add_to_curvature_diag_value=False)
        pre, pre_src = None, {}
        if preloads:
            # caller-owned Preloads: arrays taken (as copies) from an independent inversion of the same concrete noise / PSF / mapper
            key = (mask_id, bool(w_tilde))
            if key not in _PRELOAD_CACHE:
                inv0 = _mk(aa.Inversion, dataset=ds, linear_obj_list=[mapper], settings=settings)
                _PRELOAD_CACHE[key] = {"curvature_matrix": np.array(shim.normalise(inv0.curvature_matrix), dtype=float),
                                       "regularization_matrix": np.array(shim.normalise(inv0.regularization_matrix), dtype=float),
                                       "operated_mapping_matrix": np.array(shim.normalise(inv0.operated_mapping_matrix), dtype=float),
                                       "curvature_matrix_mapper_diag": np.array(shim.normalise(inv0.curvature_matrix), dtype=float)}
            slots = ("curvature_matrix", "regularization_matrix") if preloads == 1 else tuple(_PRELOAD_CACHE[key])
            if preloads >= 2 and w_tilde:
                slots = tuple(sl for sl in slots if sl != "operated_mapping_matrix")
            pre_src = {sl: _PRELOAD_CACHE[key][sl].copy() for sl in slots}
            from autoarray.preloads import Preloads
            pre = Preloads(**pre_src)
        inv = _mk(aa.Inversion, dataset=ds, linear_obj_list=[mapper], settings=settings, **({"preloads": pre} if pre is not None else {}))
        inv2 = _mk(aa.Inversion, dataset=ds, linear_obj_list=[mapper], settings=settings, preloads=pre) if pre is not None else None
        src_vals = np.array(vals, copy=True)
        src_pix_mask = pix_mask.copy()
        mv = _mk(aa.MapperValued, mapper=mapper, values=src_vals, mesh_pixel_mask=src_pix_mask)
        src_vals0 = np.array(vals, copy=True)
        mv0 = _mk(aa.MapperValued, mapper=mapper, values=src_vals0)
        return {"data": data, "noise": noise, "psf": psf, "m": m, "ds": ds, "grid": grid, "mesh_grid": mesh_grid, "mapper": mapper,
                "settings": settings, "inv": inv, "inv2": inv2, "pre": pre, "pre_src": pre_src, "mv": mv, "mv0": mv0, "src_vals": src_vals,
                "src_vals0": src_vals0, "src_pix_mask": src_pix_mask, "d": None}

    def um(o):
        u = o.unique_mappings
        return [u.data_to_pix_unique, u.data_weights, u.pix_lengths]

    q_mapper = [("mapping_matrix", lambda o: o.mapping_matrix), ("unique_mappings", um),
                ("pix_weights_for_sub_slim_index", lambda o: o.pix_weights_for_sub_slim_index)]
    q_inv = [("data_vector", lambda o: o.data_vector), ("curvature_matrix", lambda o: o.curvature_matrix),
             ("regularization_matrix", lambda o: o.regularization_matrix), ("curvature_reg_matrix", lambda o: o.curvature_reg_matrix),
             ("reconstruction", lambda o: o.reconstruction), ("mapped_reconstructed_data", lambda o: o.mapped_reconstructed_data),
             ("mapped_reconstructed_image", lambda o: o.mapped_reconstructed_image), ("regularization_term", lambda o: o.regularization_term),
             ("log_det_curvature_reg_matrix_term", lambda o: o.log_det_curvature_reg_matrix_term)]
    q_mv = [("values_masked", lambda o: o.values_masked), ("mapped_reconstructed_image_from", lambda o: o.mapped_reconstructed_image_from())]
    if full:
        q_mapper += [("sub_slim_indexes_for_pix_index", lambda o: o.sub_slim_indexes_for_pix_index),
                     ("pix_indexes_for_sub_slim_index", lambda o: o.pix_indexes_for_sub_slim_index)]
        q_inv += [("mapping_matrix", lambda o: o.mapping_matrix), ("operated_mapping_matrix", lambda o: o.operated_mapping_matrix),
                  ("log_det_regularization_matrix_term", lambda o: o.log_det_regularization_matrix_term),
                  ("reconstruction_dict", lambda o: list(o.reconstruction_dict.values())),
                  ("data_subtracted_dict", lambda o: list(o.data_subtracted_dict.values())),
                  ("curvature_reg_matrix_reduced", lambda o: o.curvature_reg_matrix_reduced)]
    ops = [("noop", "read", lambda G: None)]
    for who, qs in (("mapper", q_mapper), ("inv", q_inv), ("mv", q_mv), ("mv0", q_mv)):
        ops += [("%s.%s" % (who, nm), "read", _rd(who, f)) for nm, f in qs]
    ops += [("ds.convolver", "read", lambda G: G["ds"].convolver), ("ds.w_tilde", "read", lambda G: G["ds"].w_tilde.curvature_preload),
            ("MapperValued(mapper, inv.reconstruction).mapped_reconstructed_image_from", "read",
             lambda G: aa.MapperValued(mapper=G["mapper"], values=G["inv"].reconstruction, mesh_pixel_mask=G["src_pix_mask"]).mapped_reconstructed_image_from())]

    def settings_state(G):
        st = G["settings"]
        return [bool(st.use_w_tilde), bool(st.use_positive_only_solver), bool(st.use_linear_operators), bool(st.force_edge_pixels_to_zeros)]

    obs = [("inputs", lambda G: [_structure(G["data"]), _structure(G["noise"]), _structure(G["psf"]), _structure(G["m"]), _structure(G["grid"]),
                                 _val(G["mesh_grid"]), G["src_vals0"], G["src_pix_mask"], settings_state(G)]),
           ("mv.values (caller array)", lambda G: G["src_vals"])]
    for who, qs in (("mapper", q_mapper[:2]), ("inv", [q for q in q_inv if q[0] != "regularization_term"]), ("mv", q_mv[:2]), ("mv0", q_mv[:2])):
        obs += [("%s.%s" % (who, nm), lambda G, who=who, f=f: f(G[who])) for nm, f in qs]
    if preloads:
        # focused variant: the inversion, a second inversion sharing the caller's Preloads, and the preload arrays
        ops = [o for o in ops if o[0] == "noop" or o[0].startswith("inv.") or o[0].startswith("ds.")]
        q2 = [q for q in q_inv if q[0] in ("curvature_matrix", "curvature_reg_matrix", "reconstruction", "data_vector")]
        ops += [("inv2.%s" % nm, "read", _rd("inv2", f)) for nm, f in q2]
        obs = [o for o in obs if o[0] == "inputs" or o[0].startswith("inv.")]
        obs += [("inv2.%s" % nm, lambda G, f=f: f(G["inv2"])) for nm, f in q2[:3]]

        def obs_pre(G):
            # the caller-owned preload arrays and the arrays held by the Preloads object; reference = the values handed in
            names, ref = sorted(G["pre_src"]), _PRELOAD_CACHE[(mask_id, bool(w_tilde))]
            return Spec([G["pre_src"][nm] for nm in names] + [getattr(G["pre"], nm) for nm in names], [ref[nm] for nm in names] * 2)

        obs += [("preloads (caller arrays)", obs_pre)]
    return build, ops, obs


PIX_MASK_IDX = (0, 4)           # the masked mesh pixels of the valued mapper `mv` (see pix_mask in level_inversion)


def _nonzero_any(terms):
    ts = [V.to_real_term(t) != 0 for t in terms if V.is_sym(t)]
    if any((not V.is_sym(t)) and float(t) != 0.0 for t in terms):
        return z3.BoolVal(True)
    return z3.Or(*ts) if ts else z3.BoolVal(False)


def _values_masked_region(names, obs_name, ops, kw, inp=None):
    """MapperValued.values_masked zeroes the caller's `values` array in place.  Region (a z3 term over the payload):
    a mesh_pixel_mask is given and some masked entry of the values array is non-zero - outside of it the in-place write
    changes nothing.  Two caller arrays exist on this level: the symbolic `vals` passed to `mv` (observed directly), and
    the inversion's cached `reconstruction` passed to MapperValued(mapper, inv.reconstruction, mask) - there the write
    shows in inv.reconstruction and in the quantities computed from it.  (The mapper's mapping matrix is no longer
    covered: that part was fixed by e5dd06f.)"""
    if obs_name == "mv.values (caller array)":
        if any(nm in ("mv.values_masked", "mv.mapped_reconstructed_image_from") for nm in names):
            vals = np.asarray(inp["vals"]).reshape(-1)
            return _nonzero_any([vals[i] for i in PIX_MASK_IDX])
        return False
    if obs_name in ("inv.reconstruction", "inv.mapped_reconstructed_data", "inv.mapped_reconstructed_image",
                    "inv.reconstruction_dict", "inv.data_subtracted_dict"):
        if any(nm.startswith("MapperValued(mapper, inv.reconstruction)") for nm in names):
            build, _, _ = LEVELS["inversion"](inp, **kw)
            rec = np.asarray(hx.unwrap(build()["inv"].reconstruction), dtype=object).reshape(-1)
            return _nonzero_any([rec[i] for i in PIX_MASK_IDX])
    return False


LEVELS["inversion"] = level_inversion
KNOWN_REGIONS["inversion"] = {"mapper-valued-values-masked-in-place": _values_masked_region}


def case_hist_inversion(ctx, mask_id, w_tilde, k, op0=None, full=False, preloads=0):
    _install_linalg_stub()
    H, W = _mask_arr(mask_id).shape
    inputs = {"data": V.real_array("d", (H, W)), "vals": V.real_array("s", (9,))}
    _hist_case(ctx, "inversion", inputs, {"mask_id": mask_id, "w_tilde": w_tilde, "full": full, "preloads": preloads}, k, op0, tol=1e-9)


# ---------------------------------------------------------------------------------------------------- level: triangulation meshes
def _mesh_points(n):
    """concrete, slightly perturbed n x n lattice of (y,x) vertices: interior Voronoi cells are bounded, edge cells are
    unbounded (area marker -1); scipy.spatial.Voronoi / Delaunay run natively on it"""
    r = range(-(n // 2), n - n // 2)
    return np.array([[y + 0.125 * ((3 * x + y) % 4), x + 0.0625 * ((x + 2 * y) % 3)] for y in r for x in r], dtype=float)


def level_mesh(inp, cls, n, full=False):
    import autoarray as aa
    klass = aa.Mesh2DVoronoi if cls == "Voronoi" else aa.Mesh2DDelaunay
    pts = _mesh_points(n)

    def build():
        src = pts.copy()
        return {"src": src, "x": _mk(klass, values=src), "d": None}

    reads = [("voronoi_pixel_areas", lambda o: o.voronoi_pixel_areas),
             ("voronoi_pixel_areas_for_split", lambda o: o.voronoi_pixel_areas_for_split),
             ("split_cross", lambda o: o.split_cross)]
    if cls == "Voronoi":
        reads += [("areas_for_magnification", lambda o: o.areas_for_magnification)]
    if full:
        reads += [("edge_pixel_list", lambda o: o.edge_pixel_list), ("neighbors", lambda o: o.neighbors),
                  ("delaunay.simplices", lambda o: o.delaunay.simplices), ("voronoi.vertices", lambda o: o.voronoi.vertices)]
    ops = [("noop", "read", lambda G: None)]
    for who in ("x", "d"):
        ops += [("%s.%s" % (who, nm), "read", _rd(who, f)) for nm, f in reads]
    ops += [("d=x.copy()", "derive", _setd(lambda G: G["x"].copy())),
            ("d=x*2", "derive", _setd(lambda G: G["x"] * 2.0)),
            ("d=d*2", "derive", _setd(lambda G: G["d"] * 2.0))]
    obs = [("src", lambda G: G["src"])]
    for who in ("x", "d"):
        obs += [("%s" % who, lambda G, who=who: _val(_get(G, who)))]
        obs += [("%s.%s" % (who, nm), lambda G, who=who, f=f: f(_get(G, who))) for nm, f in reads[:4]]
        if full:
            obs += [("%s.edge_pixel_list" % who, lambda G, who=who: list(_get(G, who).edge_pixel_list))]
    return build, ops, obs


LEVELS["mesh"] = level_mesh


def case_hist_mesh(ctx, cls, n, k, op0=None, full=False):
    # the vertex set is concrete (qhull is a library boundary): what the solver explores here is the history itself -
    # the operation and observation indices are symbolic integers
    _hist_case(ctx, "mesh", {}, {"cls": cls, "n": n, "full": full}, k, op0, tol=1e-9)


# =====================================================================================================================
# Part C - seeded simulation does not depend on the prior state of the global random generator
# =====================================================================================================================
class _RNGStub:
    """symbolic model of numpy's global generator inside autoarray.dataset.preprocess: the state is (seed term, number
    of draws since seeding); seed(k) sets it; every draw is an uninterpreted function of (state, element index,
    distribution parameter).  Natively (validation / replay) it is the real numpy.random."""

    def __init__(self):
        self.seed_t, self.count = None, 0

    def _on(self):
        return V._CTX[0] is not None and shim.ENABLED[0]

    def set_prior(self, prior):
        """put the generator in an arbitrary prior state (symbolic: a free symbol; native: the real generator is seeded with it and advanced)"""
        if self._on():
            self.seed_t, self.count = V.to_real_term(prior), 0
        else:
            np.random.seed(int(prior) % (2 ** 32))
            np.random.random(int(prior) % 7)

    def _uf(self, name, arity):
        return V.ctx().uf("rng_" + name, arity)

    def seed(self, k):
        if not self._on():
            return np.random.seed(k)
        self.seed_t, self.count = V.to_real_term(k), 0

    def _tick(self):
        c = self.count
        self.count += 1
        return z3.RealVal(c)

    def randint(self, lo, hi=None, size=None):
        if not self._on():
            return np.random.randint(lo, hi, size)
        return V.SymReal(self._uf("randint", 2)(self.seed_t, self._tick()))

    def poisson(self, lam, size=None):
        if not self._on():
            return np.random.poisson(lam, size)
        lam = np.asarray(hx.unwrap(lam), dtype=object)
        shape = lam.shape if size is None else tuple(np.atleast_1d(size))
        lam = np.broadcast_to(lam, shape)
        f, c = self._uf("poisson", 4), self._tick()
        out = np.empty(shape, dtype=object)
        for i, idx in enumerate(np.ndindex(*shape)):
            out[idx] = V.SymReal(f(self.seed_t, c, z3.RealVal(i), V.to_real_term(lam[idx])))
        return out

    def normal(self, loc=0.0, scale=1.0, size=None):
        if not self._on():
            return np.random.normal(loc=loc, scale=scale, size=size)
        shape = tuple(np.atleast_1d(size)) if size is not None else ()
        f, c = self._uf("normal", 3), self._tick()
        out = np.empty(shape, dtype=object)
        for i, idx in enumerate(np.ndindex(*shape)):
            out[idx] = loc + scale * V.SymReal(f(self.seed_t, c, z3.RealVal(i)))
        return out

    def __getattr__(self, name):
        if self._on():
            raise V.Unsupported("np.random.%s has no symbolic model" % name)
        return getattr(np.random, name)


RNG = _RNGStub()


class _NPWithRandom:
    def __init__(self, base):
        object.__setattr__(self, "_base", base)
        object.__setattr__(self, "random", RNG)

    def __getattr__(self, name):
        return getattr(self._base, name)


def _convolve2d_same(a, k):
    """reference model of scipy.signal.convolve2d(a, k, mode="same") for object arrays (validated natively against scipy)"""
    a, k = np.asarray(hx.unwrap(a), dtype=object), np.asarray(hx.unwrap(k), dtype=object)
    H, W = a.shape
    KH, KW = k.shape
    out = np.empty((H, W), dtype=object)
    cy, cx = (KH - 1) // 2, (KW - 1) // 2
    for y in range(H):
        for x in range(W):
            acc = np.float64(0.0)
            for i in range(KH):
                for j in range(KW):
                    yy, xx = y + cy - i, x + cx - j
                    if 0 <= yy < H and 0 <= xx < W:
                        acc = acc + a[yy, xx] * k[i, j]
            out[y, x] = acc
    return out


class _Signal:
    def __getattr__(self, name):
        import scipy.signal
        return getattr(scipy.signal, name)

    def convolve2d(self, a, k, mode="full", **kw):
        import scipy.signal
        if (shim.has_sym(a) or shim.has_sym(k)) and shim.ENABLED[0]:
            if mode != "same":
                raise V.Unsupported("convolve2d mode %r" % mode)
            return _convolve2d_same(a, k)
        return scipy.signal.convolve2d(shim.normalise(a), shim.normalise(k), mode=mode, **kw)


class _Scipy:
    signal = _Signal()

    def __getattr__(self, name):
        import scipy
        return getattr(scipy, name)


def _install_rng_stub():
    from autoarray.dataset import preprocess
    from autoarray.structures.arrays import kernel_2d
    if not isinstance(preprocess.np, _NPWithRandom):
        preprocess.np = _NPWithRandom(preprocess.np)
    if not isinstance(kernel_2d.scipy, _Scipy):
        kernel_2d.scipy = _Scipy()


def _oracle_draw(kind, seed, params, shape):
    """what a draw right after np.random.seed(seed) returns - symbolic: the same uninterpreted function at state (seed, 0)"""
    if V._CTX[0] is not None and shim.ENABLED[0]:
        out = np.empty(shape, dtype=object)
        st = V.to_real_term(seed)
        if kind == "poisson":
            f = V.ctx().uf("rng_poisson", 4)
            lam = np.broadcast_to(np.asarray(params, dtype=object), shape)
            for i, idx in enumerate(np.ndindex(*shape)):
                out[idx] = V.SymReal(f(st, z3.RealVal(0), z3.RealVal(i), V.to_real_term(lam[idx])))
        else:
            f = V.ctx().uf("rng_normal", 3)
            for i, idx in enumerate(np.ndindex(*shape)):
                out[idx] = params * V.SymReal(f(st, z3.RealVal(0), z3.RealVal(i)))
        return out
    np.random.seed(int(seed))
    if kind == "poisson":
        return np.random.poisson(np.asarray(params, dtype=float), shape)
    return np.random.normal(loc=0.0, scale=float(params), size=shape)


def _diff(a, b):
    a, b = np.asarray(hx.unwrap(a), dtype=object), np.asarray(hx.unwrap(b), dtype=object)
    return a - b


def body_rng(inp, H, W):
    import autoarray as aa
    from autoarray.dataset import preprocess
    _install_rng_stub()
    img = np.asarray(inp["image"]).reshape(H, W)
    t, sky, sigma, seed = inp["t"], inp["sky"], inp["sigma"], inp["seed"]
    p1, p2 = inp["prior"]
    psf_v = np.asarray(inp["psf"]).reshape(3, 3)
    seed = int(seed) if not V.is_sym(seed) else seed
    A, E = {}, {}
    zero2 = np.zeros((H, W))

    def twice(f):
        RNG.set_prior(p1)
        r1 = f()
        RNG.set_prior(p2)
        r2 = f()
        return r1, r2

    tmap = np.full((H, W), t, dtype=object if V.is_sym(t) else float)
    # preprocess helpers
    r1, r2 = twice(lambda: preprocess.poisson_noise_via_data_eps_from(data_eps=np.array(img, copy=True), exposure_time_map=tmap, seed=seed))
    A["poisson_noise_via_data_eps_from: two prior RNG states"] = _diff(r1, r2)
    E["poisson_noise_via_data_eps_from: two prior RNG states"] = zero2
    draw = _oracle_draw("poisson", seed, img * tmap, (H, W))
    A["poisson_noise_via_data_eps_from: equals draw after seed(k)"] = _diff(r1, img - draw / tmap)
    E["poisson_noise_via_data_eps_from: equals draw after seed(k)"] = zero2
    r1, r2 = twice(lambda: preprocess.data_eps_with_poisson_noise_added(data_eps=np.array(img, copy=True), exposure_time_map=tmap, seed=seed))
    A["data_eps_with_poisson_noise_added: two prior RNG states"] = _diff(r1, r2)
    E["data_eps_with_poisson_noise_added: two prior RNG states"] = zero2
    r1, r2 = twice(lambda: preprocess.gaussian_noise_via_shape_and_sigma_from(shape=(H, W), sigma=sigma, seed=seed))
    A["gaussian_noise_via_shape_and_sigma_from: two prior RNG states"] = _diff(r1, r2)
    E["gaussian_noise_via_shape_and_sigma_from: two prior RNG states"] = zero2
    A["gaussian_noise_via_shape_and_sigma_from: equals draw after seed(k)"] = _diff(r1, _oracle_draw("normal", seed, sigma, (H, W)))
    E["gaussian_noise_via_shape_and_sigma_from: equals draw after seed(k)"] = zero2
    r1, r2 = twice(lambda: preprocess.data_with_gaussian_noise_added(data=np.array(img, copy=True), sigma=sigma, seed=seed))
    A["data_with_gaussian_noise_added: two prior RNG states"] = _diff(r1, r2)
    E["data_with_gaussian_noise_added: two prior RNG states"] = zero2
    # the simulator (PSF convolution, sky, Poisson noise, noise map), with and without a caller PSF
    # every flag variant of the simulator (forked symbolic booleans): noise added to the data or not, Poisson noise in the
    # noise map or a constant one, sky subtracted or not
    f_add, f_map, f_sub = [bool(b) for b in inp.get("flags", [True, True, True])]
    for tag, with_psf in (("no psf", False), ("psf", True)):
        psf_src = np.array(psf_v, copy=True)
        psf = aa.Kernel2D.no_mask(values=psf_src, pixel_scales=1.0) if with_psf else None
        psf_before = _snap(psf) if with_psf else None
        img_src = np.array(img, copy=True)
        image = aa.Array2D.no_mask(values=img_src, pixel_scales=1.0)
        image_before = _snap(image)

        def sim():
            simulator = aa.SimulatorImaging(exposure_time=t, background_sky_level=sky, psf=psf, noise_seed=seed, normalize_psf=False,
                                            add_poisson_noise_to_data=f_add, include_poisson_noise_in_noise_map=f_map,
                                            subtract_background_sky=f_sub)
            ds = simulator.via_image_from(image=image)
            return ds

        d1, d2 = twice(lambda: _mk(sim))
        A["SimulatorImaging(%s).via_image_from data: two prior RNG states" % tag] = _diff(d1.data, d2.data)
        E["SimulatorImaging(%s).via_image_from data: two prior RNG states" % tag] = np.zeros(H * W)
        A["SimulatorImaging(%s).via_image_from noise_map: two prior RNG states" % tag] = _diff(d1.noise_map, d2.noise_map)
        E["SimulatorImaging(%s).via_image_from noise_map: two prior RNG states" % tag] = np.zeros(H * W)
        A["SimulatorImaging(%s): image passed in is unchanged" % tag] = [_snap(image), img_src]
        E["SimulatorImaging(%s): image passed in is unchanged" % tag] = [image_before, img]
        if with_psf:
            A["SimulatorImaging(psf): psf passed in is unchanged"] = [_snap(psf), psf_src]
            E["SimulatorImaging(psf): psf passed in is unchanged"] = [psf_before, psf_v]
        else:
            counts = (img + sky) * t
            draw = _oracle_draw("poisson", seed, counts, (H, W))
            expected = (img + sky) + (((img + sky) - draw / t) if f_add else 0.0) - (sky if f_sub else 0.0)
            A["SimulatorImaging(no psf).via_image_from data: equals draw after seed(k)"] = _diff(d1.data.native, expected)
            E["SimulatorImaging(no psf).via_image_from data: equals draw after seed(k)"] = zero2
    return A, E


def case_rng(ctx, H, W):
    _install_rng_stub()
    seed = V.integer("seed")
    ctx.assume(z3.And(seed.t >= 0, seed.t < 2 ** 32))          # every valid fixed seed (-1 means "draw a fresh seed")
    t, sky, sigma = 4.0, V.real("sky"), 0.5        # exposure time / sigma concrete: products with the payload stay linear
    ctx.assume(sky.t >= 0)
    image = V.real_array("im", (H, W))
    for e in image.reshape(-1):
        ctx.assume(e.t >= 0)
    psf = V.real_array("p", (3, 3))
    for e in psf.reshape(-1):
        ctx.assume(e.t >= 0)
    ctx.assume(z3.Sum([e.t for e in psf.reshape(-1)]) >= z3.RealVal("1/2"))
    p1, p2 = V.integer("prior1"), V.integer("prior2")
    ctx.assume(z3.And(p1.t >= 0, p2.t >= 0, p1.t < 2 ** 31, p2.t < 2 ** 31))
    flags = [bool(ctx.fork_bool(V.boolean(nm))) for nm in ("add_poisson_noise_to_data", "include_poisson_noise_in_noise_map", "subtract_background_sky")]
    ctx.set_case(flags=flags)
    inputs = {"image": image, "t": t, "sky": sky, "sigma": sigma, "seed": seed, "prior": [p1, p2], "psf": psf, "flags": flags}
    # sqrt (noise map) as an uninterpreted function in this case: determinism only needs congruence, and the path
    # condition stays free of the non-linear definitional constraints r*r == t
    fsqrt = z3.Function("uf_sqrt", z3.RealSort(), z3.RealSort())

    def usqrt(t):
        t = z3.simplify(t)
        if z3.is_rational_value(t):
            return np.float64(float(t.numerator_as_long()) / float(t.denominator_as_long())) ** 0.5
        return V.SymReal(fsqrt(t))

    ctx.sqrt = usqrt
    hx.run_body(ctx, body_rng, inputs, {"H": H, "W": W}, validate_every=1, tol=None)


BODIES = {"case_ctor_struct": body_ctor_struct, "case_ctor_graph": body_ctor_graph, "case_hist_vis": body_hist, "case_hist_array": body_hist, "case_hist_grid": body_hist, "case_hist_mask": body_hist, "case_hist_imaging": body_hist, "case_hist_inversion": body_hist, "case_hist_mesh": body_hist, "case_rng": body_rng}


def _dummy_inputs(level, kw):
    """concrete inputs of the right shapes (only used to count the operations of a level)"""
    if level == "vis":
        return {"re": np.ones(kw["n"]), "im": np.ones(kw["n"]), "c": 2.0, "w": [1.0, 1.0]}
    if level == "mask":
        return {"mask": np.zeros((kw["H"], kw["W"]), dtype=bool), "ps": 1.0}
    if level == "mesh":
        return {}
    H, W = _mask_arr(kw["mask_id"]).shape
    if level == "array":
        return {"v": np.ones((H, W)), "c": 2.0}
    if level == "grid":
        return {"g": np.ones((H, W, 2)), "gs": np.ones((H * W, 2)), "c": 2.0, "off": [1.0, 1.0]}
    if level == "imaging":
        return {"data": np.ones((H, W)), "noise": np.ones((H, W)), "psf": np.ones((3, 3)), "origin": [0.0, 0.0], "c": 2.0}
    if level == "inversion":
        return {"data": np.ones((H, W)), "vals": np.ones(9)}
    raise KeyError(level)


def _hist_cases(level, kw, k, extra=None):
    """one task per first operation (the remaining k-1 operation indices and the observation index are symbolic)"""
    lk = {a: b for a, b in kw.items() if a not in ("k", "family")}
    _, ops, _ = LEVELS[level](_dummy_inputs(level, lk), **lk)
    out = []
    for i in range(len(ops)):
        d = dict(kw)
        d.update({"k": k, "op0": i})
        out.append(("case_hist_" + level, d) + ((extra,) if extra else ()))
    return out


def cases(tier):
    out = []
    q = tier == "quick"
    # Part C
    out.append(("case_rng", {"H": 2, "W": 3}))
    if not q:
        out.append(("case_rng", {"H": 3, "W": 3}))
    # Part A
    for H in range(1, 4):
        for W in range(1, 4):
            out.append(("case_ctor_struct", {"H": H, "W": W}, {"split": 3 if H * W >= 9 else 0}))
            if 2 <= H * W <= 6:
                out.append(("case_ctor_graph", {"H": H, "W": W}, {"split": 2 if H * W >= 6 else 0}))
    # Part B
    if q:
        out += _hist_cases("vis", {"n": 2}, 2)
        for cls, sn, mid in (("Array2D", 1, "3x3_plus"), ("Kernel2D", 0, "3x3_plus"), ("Kernel2D", 1, "3x3_all")):
            out += _hist_cases("array", {"mask_id": mid, "cls": cls, "sn": sn}, 2)
        for sn in (0, 1):
            out += _hist_cases("grid", {"mask_id": "2x2_diag", "sn": sn}, 2)
        out += _hist_cases("mask", {"H": 3, "W": 3, "family": "sym4"}, 2)
        out += _hist_cases("imaging", {"mask_id": "4x4_inner"}, 2)
        out += _hist_cases("imaging", {"mask_id": "4x4_inner", "sn": 1}, 2)
        out += _hist_cases("inversion", {"mask_id": "5x5_inner_L", "w_tilde": 1, "preloads": 1}, 2)
        out += _hist_cases("inversion", {"mask_id": "5x5_inner_L", "w_tilde": 0, "preloads": 1}, 2)
        out += _hist_cases("inversion", {"mask_id": "5x5_inner", "w_tilde": 0}, 2)
        out += _hist_cases("inversion", {"mask_id": "5x5_inner_L", "w_tilde": 1}, 1)
        for cls in ("Voronoi", "Delaunay"):
            out += _hist_cases("mesh", {"cls": cls, "n": 3}, 2)
    else:
        for cls in ("Voronoi", "Delaunay"):
            out += _hist_cases("mesh", {"cls": cls, "n": 4, "full": True}, 2)
        out += _hist_cases("mesh", {"cls": "Voronoi", "n": 3}, 3)
        out += _hist_cases("vis", {"n": 3, "full": True}, 2)
        out += _hist_cases("vis", {"n": 2}, 3)
        for cls, sn, mid in (("Array2D", 0, "3x3_plus"), ("Array2D", 1, "3x3_L"), ("Kernel2D", 0, "3x3_all"), ("Kernel2D", 1, "3x3_plus")):
            out += _hist_cases("array", {"mask_id": mid, "cls": cls, "sn": sn, "full": True}, 2)
        for sn, mid, full in ((0, "2x2_diag", True), (1, "2x2_diag", True), (0, "2x3_diag", False)):
            out += _hist_cases("grid", {"mask_id": mid, "sn": sn, "full": full}, 2)
        out += _hist_cases("mask", {"H": 3, "W": 3, "family": "sym4", "full": True}, 2)
        out += _hist_cases("mask", {"H": 2, "W": 3, "family": "all"}, 1)
        out += _hist_cases("imaging", {"mask_id": "4x4_inner", "full": True}, 2)
        out += _hist_cases("imaging", {"mask_id": "4x4_inner", "full": True, "sn": 1}, 2)
        out += _hist_cases("imaging", {"mask_id": "5x5_inner_L"}, 2)
        for wt in (0, 1):
            out += _hist_cases("inversion", {"mask_id": "5x5_inner", "w_tilde": wt, "preloads": 2}, 2)
            out += _hist_cases("inversion", {"mask_id": "5x5_inner_L", "w_tilde": wt, "preloads": 1}, 2)
        out += _hist_cases("inversion", {"mask_id": "5x5_inner", "w_tilde": 0, "full": True}, 2)
        out += _hist_cases("inversion", {"mask_id": "5x5_inner_L", "w_tilde": 1, "full": True}, 2)
    out.append(("case_hist_imaging", {"mask_id": "4x4_inner", "k": 1, "snr": True, "op0": "x.signal_to_noise_map"}))
    for sn in (0, 1):
        out.append(("case_hist_imaging", {"mask_id": "4x4_inner", "k": 2, "snv": True, "sn": sn, "op0": "d=u.apply_noise_scaling(m,signal_to_noise_value)"}))
    return out


class _NPUninitNative:
    """replay only: numpy as seen by the autoarray modules, with np.empty / empty_like returning per-call DISTINCT contents -
    one legal behaviour of uninitialised memory, chosen so that a dependence on it cannot be hidden by a lucky heap"""
    _count = [0]

    def __init__(self, base):
        object.__setattr__(self, "_base", base)

    def __getattr__(self, name):
        return getattr(self._base, name)

    def _fill(self, a):
        if a.dtype.kind == "f":
            self._count[0] += 1
            a[...] = 1.0e6 * self._count[0] + 0.5
        return a

    def empty(self, *a, **kw):
        return self._fill(np.empty(*a, **kw))

    def empty_like(self, *a, **kw):
        return self._fill(np.empty_like(*a, **kw))


def _poison_empty_in_replay():
    import sys
    for name, mod in list(sys.modules.items()):
        if mod is not None and (name == "autoarray" or name.startswith("autoarray.")) and mod.__dict__.get("np") is np:
            mod.__dict__["np"] = _NPUninitNative(np)


def replay(cand):
    _poison_empty_in_replay()
    cand = dict(cand)
    kw = dict(cand["case_kwargs"])
    if cand["case_fn"].startswith("case_hist_"):
        kw = {k: v for k, v in kw.items() if k not in ("k", "op0", "family")}
        kw["level"] = cand["case_fn"][len("case_hist_"):]
    cand["case_kwargs"] = kw
    return hx.replay_body(BODIES[cand["case_fn"]], cand)
