"""C11 - queries are pure: no input mutation, no order dependence, deterministic seeded simulation (bounded claim).

Part A (case_ctor_*):   constructors receive caller-owned arrays of symbolic values; afterwards every element of
                        every caller-owned array / object must still be the original term.
Part B (case_hist_*):   histories of k reads / derivations chosen by symbolic integers, then one observation; the
                        observation must equal the same observation on a freshly built object graph on which only the
                        derivation steps (no reads) were replayed.
Part C (case_rng_*):    numpy's global RNG is replaced by uninterpreted functions of (seed state, draw counter, index,
                        parameter); the simulated dataset must not depend on the prior-state symbol.
"""
import os

import numpy as np
import z3

from symx import hx, shim, values as V

PROPERTY = "C11"
FUNCTIONS = [
    "autoarray.structures.arrays.array_2d_util.convert_array_2d",
    "autoarray.structures.grids.grid_2d_util.convert_grid_2d",
    "autoarray.abstract_ndarray.AbstractNDArray.with_new_array",
    "autoarray.abstract_ndarray.AbstractNDArray.__copy__",
    "autoarray.abstract_ndarray.AbstractNDArray.__getitem__",
    "autoarray.structures.arrays.uniform_2d.AbstractArray2D.__init__",
    "autoarray.structures.arrays.uniform_2d.AbstractArray2D.trimmed_after_convolution_from",
    "autoarray.structures.arrays.kernel_2d.Kernel2D.__init__",
    "autoarray.structures.arrays.kernel_2d.Kernel2D.normalized",
    "autoarray.structures.grids.uniform_2d.Grid2D.__init__",
    "autoarray.structures.grids.uniform_2d.Grid2D.is_uniform",
    "autoarray.structures.vectors.uniform.VectorYX2D.__init__",
    "autoarray.structures.visibilities.AbstractVisibilities.__init__",
    "autoarray.structures.visibilities.AbstractVisibilities.amplitudes",
    "autoarray.structures.visibilities.AbstractVisibilities.phases",
    "autoarray.mask.mask_2d.Mask2D.__init__",
    "autoarray.mask.mask_2d.Mask2D.circular_radius",
    "autoarray.dataset.abstract.dataset.AbstractDataset.__init__",
    "autoarray.dataset.abstract.dataset.AbstractDataset.trimmed_after_convolution_from",
    "autoarray.dataset.imaging.dataset.Imaging.__init__",
    "autoarray.dataset.imaging.dataset.Imaging.apply_mask",
    "autoarray.dataset.imaging.dataset.Imaging.apply_noise_scaling",
    "autoarray.dataset.imaging.simulator.SimulatorImaging.__init__",
    "autoarray.dataset.imaging.simulator.SimulatorImaging.via_image_from",
    "autoarray.dataset.preprocess.setup_random_seed",
    "autoarray.dataset.preprocess.poisson_noise_via_data_eps_from",
    "autoarray.dataset.preprocess.data_eps_with_poisson_noise_added",
    "autoarray.dataset.preprocess.gaussian_noise_via_shape_and_sigma_from",
    "autoarray.dataset.preprocess.data_with_gaussian_noise_added",
    "autoarray.dataset.preprocess.data_with_complex_gaussian_noise_added",
    "autoarray.inversion.pixelization.mappers.abstract.AbstractMapper.mapping_matrix",
    "autoarray.inversion.pixelization.mappers.abstract.AbstractMapper.unique_mappings",
    "autoarray.inversion.inversion.mapper_valued.MapperValued.values_masked",
    "autoarray.inversion.inversion.mapper_valued.MapperValued.mapped_reconstructed_image_from",
    "autoarray.inversion.inversion.mapper_valued.MapperValued.max_pixel_list_from",
    "autoarray.inversion.inversion.factory.inversion_from",
    "autoarray.inversion.inversion.factory.inversion_imaging_from",
    "autoarray.inversion.inversion.factory.inversion_interferometer_from",
    "autoarray.inversion.inversion.abstract.AbstractInversion.curvature_reg_matrix",
    "autoarray.inversion.inversion.abstract.AbstractInversion.reconstruction",
    "autoarray.inversion.inversion.abstract.AbstractInversion.regularization_matrix",
    "autoarray.inversion.inversion.abstract.AbstractInversion.mapped_reconstructed_data",
    "autoarray.inversion.inversion.imaging.mapping.InversionImagingMapping.data_vector",
    "autoarray.inversion.inversion.imaging.mapping.InversionImagingMapping.curvature_matrix",
    "autoarray.inversion.inversion.imaging.w_tilde.InversionImagingWTilde.data_vector",
    "autoarray.inversion.inversion.imaging.w_tilde.InversionImagingWTilde.curvature_matrix",
    "autoarray.inversion.regularization.regularization_util.constant_regularization_matrix_from",
]
EXPLORER_OPTS = {"timeout_ms": 20000, "max_paths": 200000, "max_decisions": 600}
BUDGET_S = {"quick": 900, "thorough": 2300}
MAX_REPLAY = 40


def _known_ids():
    return set(x for x in os.environ.get("VERIF_KNOWN", "").split(",") if x)


class HarnessError(Exception):
    pass


def _arr(x):
    """plain ndarray content of a structure / array (no copy)"""
    return hx.unwrap(x)


def _snap(x):
    """snapshot (copy) of the current content of an array / structure; proxies are immutable so a shallow copy is exact"""
    a = _arr(x)
    if isinstance(a, np.ndarray):
        return np.array(a, copy=True)
    return a


def _mk(f, *a, **kw):
    """a construction the harness relies on: failure = inconclusive (harness error), never a verdict"""
    try:
        return f(*a, **kw)
    except (V.Unsupported, V.NonFinite):
        raise
    except Exception as e:  # noqa
        raise HarnessError("construction failed in the harness: %s: %s" % (type(e).__name__, str(e)[:300]))


def _pos(mask):
    return [(y, x) for y in range(mask.shape[0]) for x in range(mask.shape[1]) if not mask[y, x]]


# =====================================================================================================================
# Part A - constructors never modify what is passed to them
# =====================================================================================================================

def _ctor(A, E, key, make, **arrays):
    """call make(**owned copies); afterwards every caller-owned array must still hold the original terms"""
    owned = {k: np.array(v, copy=True) for k, v in arrays.items()}
    obj = _mk(make, **owned)
    for k, v in arrays.items():
        A["%s:%s" % (key, k)] = owned[k]
        E["%s:%s" % (key, k)] = v
    return obj, owned


def body_ctor_struct(inp, H, W):
    import autoarray as aa
    mask_in = np.array(inp["mask"], dtype=bool).reshape(H, W)
    pos = _pos(mask_in)
    n = len(pos)
    v = np.asarray(inp["v"]).reshape(H, W)
    g = np.asarray(inp["g"]).reshape(H, W, 2)
    g2 = np.asarray(inp["g2"]).reshape(H, W, 2)
    s = np.asarray(inp["s"]).reshape(-1)[:n]
    gs = np.asarray(inp["gs"]).reshape(-1, 2)[:n]
    A, E = {}, {}
    # masks
    _ctor(A, E, "Mask2D", lambda mask: aa.Mask2D(mask=mask, pixel_scales=(1.0, 2.0)), mask=mask_in)
    _ctor(A, E, "Mask2D(invert)", lambda mask: aa.Mask2D(mask=mask, pixel_scales=(1.0, 2.0), invert=True), mask=mask_in)
    m = aa.Mask2D(mask=mask_in.copy(), pixel_scales=(1.0, 2.0))
    m_all = aa.Mask2D.all_false(shape_native=(H, W), pixel_scales=(1.0, 2.0))
    grid_of_mask = aa.Grid2D.from_mask(mask=m)
    for sn in (False, True):
        t = "sn%d" % sn
        for nm, vals in (("native", v), ("slim", s)):
            _ctor(A, E, "Array2D(%s,%s)" % (nm, t), lambda values: aa.Array2D(values=values, mask=m, store_native=sn), values=vals)
            _ctor(A, E, "Kernel2D(%s,%s,normalize)" % (nm, t),
                  lambda values: aa.Kernel2D(values=values, mask=m, store_native=sn, normalize=True), values=vals)
        for nm, vals in (("native", g), ("slim", gs)):
            _ctor(A, E, "Grid2D(%s,%s)" % (nm, t), lambda values: aa.Grid2D(values=values, mask=m, store_native=sn), values=vals)
        for nm, vals, gr in (("native", g, g2), ("slim", gs, np.asarray(inp["gs2"]).reshape(-1, 2)[:n])):
            _ctor(A, E, "VectorYX2D(%s,%s)" % (nm, t),
                  lambda values, grid: aa.VectorYX2D(values=values, grid=grid, mask=m, store_native=sn), values=vals, grid=gr)
    # structures passed to constructors / masking of an existing structure: the source object keeps its contents
    for sn in (False, True):
        t = "sn%d" % sn
        src = aa.Array2D(values=v.copy(), mask=m_all, store_native=sn)
        before = _snap(src)
        for nm, f in ((("Array2D(values=array)", lambda: aa.Array2D(values=src, mask=m)),
                       ("Array2D(values=array,native)", lambda: aa.Array2D(values=src, mask=m, store_native=True))) if sn else ()) + (
                      ("array.apply_mask", lambda: src.apply_mask(mask=m)),
                      ("Kernel2D(values=array,normalize)", lambda: aa.Kernel2D(values=src, mask=m_all, normalize=True, store_native=sn)),
                      ("Kernel2D(values=array,normalize,slim)", lambda: aa.Kernel2D(values=src, mask=m_all, normalize=True))):
            _mk(f)
            A["%s,%s:source" % (nm, t)] = _snap(src)
            E["%s,%s:source" % (nm, t)] = before
        gsrc = aa.Grid2D(values=g.copy(), mask=m_all, store_native=sn)
        before = _snap(gsrc)
        for nm, f in ((("Grid2D(values=grid)", lambda: aa.Grid2D(values=gsrc, mask=m)),
                       ("Grid2D(values=grid,native)", lambda: aa.Grid2D(values=gsrc, mask=m, store_native=True)),
                       ("VectorYX2D(values=grid,grid=grid)", lambda: aa.VectorYX2D(values=gsrc, grid=gsrc, mask=m))) if sn else ()) + (
                      ("Grid2D(values=grid,same mask)", lambda: aa.Grid2D(values=gsrc, mask=m_all, store_native=not sn)),
                      ("VectorYX2D.from_mask", lambda: aa.VectorYX2D.from_mask(values=gsrc.native, mask=m))):
            _mk(f)
            A["%s,%s:source" % (nm, t)] = _snap(gsrc)
            E["%s,%s:source" % (nm, t)] = before
    # no_mask / irregular constructors
    _ctor(A, E, "Array2D.no_mask", lambda values: aa.Array2D.no_mask(values=values, pixel_scales=1.0), values=v)
    _ctor(A, E, "Kernel2D.no_mask(normalize)", lambda values: aa.Kernel2D.no_mask(values=values, pixel_scales=1.0, normalize=True), values=v)
    _ctor(A, E, "Grid2D.no_mask", lambda values: aa.Grid2D.no_mask(values=values, pixel_scales=1.0), values=g)
    _ctor(A, E, "Grid2DIrregular", lambda values: aa.Grid2DIrregular(values=values), values=gs)
    _ctor(A, E, "ArrayIrregular", lambda values: aa.ArrayIrregular(values=values), values=s)
    return A, E


def _sym_mask(ctx, shape, name="m", min_unmasked=1):
    m = V.bool_array(name, shape)
    bits = [z3.If(b.t, 0, 1) for b in m.reshape(-1)]
    ctx.assume(z3.Sum(bits) >= min_unmasked)
    return ctx.concrete_bools(m)


def case_ctor_struct(ctx, H, W):
    mask = _sym_mask(ctx, (H, W))
    ctx.set_case(mask=mask.tolist())
    inputs = {"mask": mask, "v": V.real_array("v", (H, W)), "g": V.real_array("g", (H, W, 2)), "g2": V.real_array("h", (H, W, 2)),
              "s": V.real_array("s", (H * W,)), "gs": V.real_array("gs", (H * W, 2)), "gs2": V.real_array("hs", (H * W, 2))}
    known = {}
    if "grid-native-input-masked-in-place" in _known_ids():
        # region: the mask has at least one masked pixel (there the caller's native (y,x) entries are overwritten by 0)
        reg = z3.BoolVal(bool(mask.any()))
        for key in ("Grid2D(native,sn0):values", "Grid2D(native,sn1):values", "VectorYX2D(native,sn0):values",
                    "VectorYX2D(native,sn1):values", "VectorYX2D(native,sn0):grid", "VectorYX2D(native,sn1):grid"):
            known[key] = {"grid-native-input-masked-in-place": reg}
    hx.run_body(ctx, body_ctor_struct, inputs, {"H": H, "W": W}, validate_every=64, known=known)


BODIES = {"case_ctor_struct": body_ctor_struct}


def cases(tier):
    out = []
    cap = 9 if tier == "quick" else 9
    for H in range(1, 4):
        for W in range(1, 4):
            if H * W <= cap:
                out.append(("case_ctor_struct", {"H": H, "W": W}, {"split": 2 if H * W >= 9 else 0}))
    return out


def replay(cand):
    return hx.replay_body(BODIES[cand["case_fn"]], cand)
