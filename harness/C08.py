"""C08 - fit statistics and evidence follow their definitions on unmasked pixels only."""
import math
import os

import numpy as np
import z3

from symx import hx, shim, values as V

PROPERTY = "C08"
FUNCTIONS = [
    "autoarray.fit.fit_util.residual_map_from",
    "autoarray.fit.fit_util.normalized_residual_map_from",
    "autoarray.fit.fit_util.chi_squared_map_from",
    "autoarray.fit.fit_util.chi_squared_from",
    "autoarray.fit.fit_util.noise_normalization_from",
    "autoarray.fit.fit_util.normalized_residual_map_complex_from",
    "autoarray.fit.fit_util.chi_squared_map_complex_from",
    "autoarray.fit.fit_util.chi_squared_complex_from",
    "autoarray.fit.fit_util.noise_normalization_complex_from",
    "autoarray.fit.fit_interferometer.FitInterferometer.normalized_residual_map",
    "autoarray.fit.fit_interferometer.FitInterferometer.chi_squared_map",
    "autoarray.fit.fit_interferometer.FitInterferometer.chi_squared",
    "autoarray.fit.fit_interferometer.FitInterferometer.noise_normalization",
    "autoarray.fit.fit_interferometer.FitInterferometer.signal_to_noise_map",
    "autoarray.fit.fit_util.residual_map_with_mask_from",
    "autoarray.fit.fit_util.normalized_residual_map_with_mask_from",
    "autoarray.fit.fit_util.chi_squared_map_with_mask_from",
    "autoarray.fit.fit_util.chi_squared_with_mask_from",
    "autoarray.fit.fit_util.chi_squared_with_mask_fast_from",
    "autoarray.fit.fit_util.noise_normalization_with_mask_from",
    "autoarray.fit.fit_util.log_likelihood_from",
    "autoarray.fit.fit_util.log_likelihood_with_regularization_from",
    "autoarray.fit.fit_util.log_evidence_from",
    "autoarray.fit.fit_util.residual_flux_fraction_map_from",
    "autoarray.fit.fit_util.residual_flux_fraction_map_with_mask_from",
    "autoarray.fit.fit_dataset.AbstractFit.signal_to_noise_map",
    "autoarray.fit.fit_dataset.AbstractFit.residual_map",
    "autoarray.fit.fit_dataset.AbstractFit.normalized_residual_map",
    "autoarray.fit.fit_dataset.AbstractFit.chi_squared_map",
    "autoarray.fit.fit_dataset.AbstractFit.chi_squared",
    "autoarray.fit.fit_dataset.AbstractFit.noise_normalization",
    "autoarray.fit.fit_dataset.AbstractFit.log_likelihood",
    "autoarray.fit.fit_dataset.FitDataset.residual_map",
    "autoarray.fit.fit_dataset.FitDataset.normalized_residual_map",
    "autoarray.fit.fit_dataset.FitDataset.chi_squared_map",
    "autoarray.fit.fit_dataset.FitDataset.chi_squared",
    "autoarray.fit.fit_dataset.FitDataset.noise_normalization",
    "autoarray.fit.fit_dataset.FitDataset.log_likelihood_with_regularization",
    "autoarray.fit.fit_dataset.FitDataset.log_evidence",
    "autoarray.fit.fit_dataset.FitDataset.figure_of_merit",
    "autoarray.fit.fit_dataset.FitDataset.residual_flux_fraction_map",
    "autoarray.fit.fit_dataset.FitDataset.reduced_chi_squared",
    "autoarray.fit.fit_imaging.FitImaging.data",
    "autoarray.inversion.inversion.abstract.AbstractInversion.no_regularization_index_list",
    "autoarray.inversion.inversion.abstract.AbstractInversion.param_range_list_from",
    "autoarray.inversion.inversion.abstract.AbstractInversion.all_linear_obj_have_regularization",
    "autoarray.inversion.inversion.abstract.AbstractInversion.regularization_matrix",
    "autoarray.inversion.inversion.abstract.AbstractInversion.regularization_matrix_reduced",
    "autoarray.inversion.inversion.abstract.AbstractInversion.curvature_reg_matrix",
    "autoarray.inversion.inversion.abstract.AbstractInversion.curvature_reg_matrix_reduced",
    "autoarray.inversion.inversion.abstract.AbstractInversion.reconstruction_reduced",
    "autoarray.inversion.inversion.abstract.AbstractInversion.regularization_term",
    "autoarray.inversion.inversion.abstract.AbstractInversion.log_det_curvature_reg_matrix_term",
    "autoarray.inversion.inversion.abstract.AbstractInversion.log_det_regularization_matrix_term",
    "autoarray.inversion.linear_obj.linear_obj.LinearObj.regularization_matrix",
]


BOUNDS = {
    "quick": "FitImaging (real Mask2D/Array2D/Imaging, a 3-line subclass supplying model_data/inversion): ALL masks (>=1 unmasked pixel, one forked "
             "path each) of shapes 1x1,1x2,2x1,1x3,2x2,2x3,3x2,1x5,3x3; data, model, noise (>0 on unmasked pixels), background sky level and - in "
             "masked-native mode - the values stored in masked pixels of data/model/noise are solver variables (masked noise unconstrained, also 0 or <0); "
             "residual_flux_fraction_map: shapes with <= 6 pixels; sky level symbolic => both the `!= 0` and the `== 0` branch of FitImaging.data are explored; both modes: slim-stored arrays with "
             "use_mask_in_fit=False and native-stored arrays with use_mask_in_fit=True. Signal-to-noise map: shapes with <= 4 pixels (its clipping forks "
             "per pixel). fit_util functions directly on plain arrays: all masks of shapes with <= 6 pixels, every array entry and the 5 evidence terms "
             "symbolic. Evidence: real AbstractInversion over mock linear objects, object lists M1,R2,U1,U1N1,M2U1,U1M2,R1M2,M1R2,U1M2U1,R1U1M1,U1N1R2,M1U1R1U1,R1N1 "
             "(R/U = regularized/unregularized list of linear functions i.e. a NON-mapper, M/N = regularized/unregularized pixelization mapper, "
             "digit = number of parameters; 'restricted to regularized parameters' is thereby distinguished from 'restricted to mappers'), symmetric curvature matrix F, regularization blocks H_i and "
             "reconstruction s fully symbolic, combined with all masks of 2x2 in both modes and symbolic sky. Read-order / history independence: on ONE "
             "fit object the quantities are read in two orders (derived maps signal_to_noise_map, residual_flux_fraction_map, normalized and chi-squared "
             "maps BEFORE residual_map/chi_squared/log_likelihood/log_evidence/figure_of_merit; and statistics first, derived maps next, statistics again), "
             "every read compared with its definition, and afterwards dataset.data / dataset.noise_map / model_data must still equal their input terms; "
             "all masks of shapes with <= 4 pixels, both modes, data of either sign, sky symbolic (zero and non-zero branch), without inversion and "
             "(<= 3 pixels) with the object lists U1R1 / R1M1. In-place updates between reads: on one fit object the statistics are read, then "
             "every unmasked entry of dataset.noise_map (resp. dataset.data, resp. the model image) is overwritten in place through the structure's "
             "__setitem__ with fresh symbolic values (new noise > 0), then every statistic is read again and must follow its definition for the new "
             "contents; all masks of 1x2, 1x3, 2x2, both modes, sky symbolic, without inversion and with the object list R1M1. Complex "
             "(interferometer) statistics: the four fit_util.*_complex_from functions and FitInterferometer (on a dataset stand-in, no transformer) "
             "residual / normalized-residual / chi-squared maps, chi_squared, reduced_chi_squared, noise_normalization, log_likelihood, figure_of_merit "
             "for N = 1,2,3 visibilities whose real and imaginary data, model and noise parts are 6N independent solver variables (noise parts > 0); FitInterferometer.signal_to_noise_map (clipping per component, forks per "
             "component) for N = 1,2,3",
    "thorough": "same, shapes additionally 2x4,4x2,1x7,2x5,3x4 for the fit statistics (residual-flux-fraction <= 10 pixels incl. 3x3, signal-to-noise <= 6 pixels, "
                "fit_util <= 10 pixels); evidence additionally for object lists R3,M2,U2M2,R2U2,U1R1N1M1,M2R2,R2R1,M1M2,U2M1U1,R1M1R1,U1M3U1,M1U2R1,N2R1 and masks of 2x3; read-order cases additionally 1x4 (both modes) and "
                "2x3 (slim mode), with inversion up to 4 pixels; in-place update cases additionally 2x3; complex statistics additionally N = 4, 6",
}
OUTSIDE = [
    "shapes / parameter counts beyond the bounds",
    "the curvature matrix F and the reconstruction s themselves (handed to AbstractInversion through its cached-property slots; they are C03-C05's "
    "subject), real mappers/regularization schemes (the regularization matrix is assembled by the real LinearObj/AbstractInversion code from "
    "symbolic per-object blocks)",
    "the Interferometer dataset class / transformers / dirty images (need pylops), the Visibilities "
    "structures on symbolic values (the symbolic run feeds FitInterferometer a harness-level complex vector, the float64 validation / replay "
    "real aa.Visibilities), the noise-covariance chi-squared branch, the pylops inversion",
    "values of the maps in MASKED pixels of masked-native mode (the property only speaks about unmasked pixels; e.g. zero-filling is not demanded)",
    "pixels where a definition divides by zero in exact arithmetic: noise = 0 on an unmasked pixel; for residual_flux_fraction_map data = 0 on an "
    "unmasked pixel; for the native signal-to-noise map (computed by the code on the whole array) noise = 0 in a masked pixel",
    "singular / non positive-definite matrices in the log-determinant terms (the RuntimeError -> Cholesky fallback of "
    "log_det_regularization_matrix_term and the InversionException paths are not modelled)",
    "float64 rounding (obligations are exact-real; every counterexample is replayed in float64)",
]
STUBS = [
    "np.log of a proxy: uninterpreted function uf_log (only congruence is used; the reference sum(log(2 pi n^2)) is built from the same uf_log)",
    "np.linalg.cholesky of a matrix holding proxies (via a np.linalg facade): returns lower-triangular L with diagonal (e,1,..,1) where "
    "log(e) = LOGDET_n(M)/2 and LOGDET_n is an uninterpreted function of the n*n entries; contract: the factorisation succeeds and "
    "2*sum(log(diag(chol(M)))) = log det M.  Concrete matrices (validation, replay) go to real LAPACK",
    "scipy csc_matrix/splu of a matrix holding proxies (names rebound in autoarray.inversion.inversion.abstract): L.diagonal() = 1, "
    "U.diagonal() = (e,1,..,1) with log(e) = LOGDET_n(M); contract: factorisation succeeds (M non-singular) and "
    "Re(sum log diag L + sum log diag U) = log|det M|; .astype(complex128) is the identity on reals.  Concrete matrices go to real SuperLU",
    "scipy.linalg.block_diag on blocks holding proxies: explicit block placement",
    "autoarray.numpy_wrapper.Callable.__call__: a scalar proxy result is returned bare, as a np.float64 would be (`isinstance(result, float)`)",
    "reference log det in replays/validation: numpy.linalg.slogdet of the index-selected block",
    "np.divide / subtract / add / multiply called with where=<array holding symbolic booleans>: the where array is concretised by forking",
    "complex numbers: harness-level pair (re, im) of proxies; proxy * 1j builds it, complex / real divides both parts, .real / .imag of an "
    "array of such pairs read the components, .astype(complex128) is the identity",
]
ASSUMPTIONS = [
    "noise > 0 on unmasked pixels (property precondition); nothing is assumed about values in masked pixels except where listed under OUTSIDE",
    "mask bits are explored by forking (one path per mask); the object list of an inversion is enumerated",
    "only for the native cross-validation runs and replays (LAPACK needs it), never for the obligations: F and the H blocks strictly diagonally dominant",
]
EXPLORER_OPTS = {"timeout_ms": 20000, "max_paths": 100000}
BUDGET_S = {"quick": 600, "thorough": 2300}


# ---------------------------------------------------------------------------- helpers (work on proxies and on floats)

def _log(x):
    """natural log; on a proxy the engine's uninterpreted function uf_log (the same one np.log of a proxy maps to)"""
    if V.is_sym(x):
        return V.sym_float(x).log()
    return math.log(x)


def _positions(mask):
    H, W = mask.shape
    return [(y, x) for y in range(H) for x in range(W) if not mask[y, x]]


def _vec(x):
    """python list of the entries of an array-like / structure (row-major)"""
    x = hx.unwrap(x)
    return list(np.asarray(x, dtype=object).reshape(-1))


def _on_unmasked(result, mask, native):
    """entries of a fit map on the unmasked pixels, row-major (slim storage: the array itself)"""
    if isinstance(result, hx.Raised):
        return result
    a = np.asarray(hx.unwrap(result), dtype=object)
    if native:
        if a.shape != mask.shape:
            return "shape %s" % (a.shape,)
        return [a[p] for p in _positions(mask)]
    return list(a.reshape(-1))


def _scalar(x):
    """fit scalars may come back wrapped in a 0-d structure"""
    if isinstance(x, hx.Raised):
        return x
    x = hx.unwrap(x)
    if isinstance(x, np.ndarray) and x.shape == ():
        return x[()]
    return x


def _has_uf(x):
    """does a (structure of) proxy value(s) mention an uninterpreted function application (log, logdet)?"""
    _, flat = hx._flat(x)
    for e in flat:
        if not V.is_sym(e):
            continue
        todo, seen = [e.t], set()
        while todo:
            t = todo.pop()
            i = t.get_id()
            if i in seen:
                continue
            seen.add(i)
            if z3.is_app(t):
                if t.num_args() > 0 and t.decl().kind() == z3.Z3_OP_UNINTERPRETED:
                    return True
                todo.extend(t.children())
    return False


def _run(ctx, body, inputs, kwargs, known=None, validate_every=8, tol=None):
    """hx.run_body, except that outputs mentioning uninterpreted functions are left out of the native cross-validation
    (a solver model interprets uf_log / logdet arbitrarily, the native run uses the real functions)"""
    ctx.set_inputs(**inputs)
    A, E = body(inputs, **kwargs)
    hx.check_all(ctx, A, E, tol=tol, known=known(A, E) if callable(known) else known)
    if validate_every:
        plain = {k: v for k, v in A.items() if not _has_uf(v)}
        hx.validate(ctx, body, inputs, kwargs, plain, every=validate_every)
    return A, E


# ---------------------------------------------------------------------------- stubs (installed in every worker)

class _ExpOf(V.SymReal):
    """diagonal entry of a stubbed factorisation: a positive real e = exp(logt) whose natural log is `logt` (a z3 Real term)"""
    __slots__ = ("logt",)

    def __init__(self, logt, ctx):
        V.SymReal.__init__(self, ctx.ufunc("exp", logt).t)
        self.logt = logt

    def log(self):
        return V.SymReal(self.logt)


class _DiagArray(np.ndarray):
    """object array standing for lu.L.diagonal() / lu.U.diagonal(): .astype(complex128) is the identity on reals"""

    def astype(self, *a, **k):
        return self


def logdet_term(M):
    """uninterpreted LOGDET_n applied to the n*n entries of a matrix holding proxies -> z3 Real term"""
    M = np.asarray(hx.unwrap(M), dtype=object)
    n = M.shape[0]
    f = V.ctx().uf("logdet_%d" % n, n * n)
    return f(*[V.to_real_term(e) for e in M.reshape(-1)])


class _LinalgFacade:
    def __getattr__(self, name):
        return getattr(np.linalg, name)

    def cholesky(self, a, *args, **kw):
        a = shim.normalise(a)
        if not shim.has_sym(a):
            return np.linalg.cholesky(a, *args, **kw)
        a = np.asarray(hx.unwrap(a), dtype=object)
        n = a.shape[0]
        L = shim.obj_full((n, n), np.float64(0.0))
        for i in range(n):
            L[i, i] = np.float64(1.0)
        if n:
            # contract: prod(diag(chol(M))) = sqrt(det M), i.e. 2*sum(log(diag)) = LOGDET_n(M)
            L[0, 0] = _ExpOf(logdet_term(a) / 2, V.ctx())
        return L


class _SymCSC:
    def __init__(self, m):
        self.m = np.asarray(hx.unwrap(m), dtype=object)


class _SymLUFactor:
    def __init__(self, diag):
        self._d = diag

    def diagonal(self):
        return self._d


class _SymLU:
    def __init__(self, m):
        n = m.shape[0]
        ones = shim.obj_full((n,), np.float64(1.0)).view(_DiagArray)
        u = shim.obj_full((n,), np.float64(1.0)).view(_DiagArray)
        if n:
            # contract: prod(diag L) * prod(diag U) = +-det M, real part of the summed logs = LOGDET_n(M)
            u[0] = _ExpOf(logdet_term(m), V.ctx())
        self.L, self.U = _SymLUFactor(ones), _SymLUFactor(u)


class _SymC:
    """symbolic complex number: a pair (re, im) of proxies / floats with the operations the complex fit code uses"""
    __hash__ = None

    def __init__(self, re, im):
        self.re, self.im = re, im

    real = property(lambda self: self.re)
    imag = property(lambda self: self.im)

    @staticmethod
    def _parts(o):
        if isinstance(o, _SymC):
            return o.re, o.im
        if isinstance(o, (complex, np.complexfloating)):
            return np.float64(o.real), np.float64(o.imag)
        if V.is_sym(o) or V._is_num(o):
            return o, np.float64(0.0)
        return None

    def __add__(self, o):
        p = self._parts(o)
        if p is None or isinstance(o, np.ndarray):
            return NotImplemented
        return _SymC(self.re + p[0], self.im + p[1])

    __radd__ = __add__

    def __sub__(self, o):
        p = self._parts(o)
        if p is None or isinstance(o, np.ndarray):
            return NotImplemented
        return _SymC(self.re - p[0], self.im - p[1])

    def __rsub__(self, o):
        p = self._parts(o)
        if p is None or isinstance(o, np.ndarray):
            return NotImplemented
        return _SymC(p[0] - self.re, p[1] - self.im)

    def __mul__(self, o):
        p = self._parts(o)
        if p is None or isinstance(o, np.ndarray):
            return NotImplemented
        return _SymC(self.re * p[0] - self.im * p[1], self.re * p[1] + self.im * p[0])

    __rmul__ = __mul__

    def __truediv__(self, o):
        if isinstance(o, (np.ndarray, _SymC, complex)) or not (V.is_sym(o) or V._is_num(o)):
            return NotImplemented
        return _SymC(self.re / o, self.im / o)          # complex / real divides both components

    def __neg__(self):
        return _SymC(-self.re, -self.im)

    def __repr__(self):
        return "_SymC(%r, %r)" % (self.re, self.im)


class _OArr(np.ndarray):
    """object array standing for a complex (or component) array: .real/.imag read the components of its elements
    (numpy returns the array itself / zeros for object dtype), .astype(complex128 / float) is the identity"""

    def astype(self, *a, **k):
        return self

    @property
    def real(self):
        out = np.empty(self.shape, dtype=object)
        for i, e in np.ndenumerate(np.asarray(self)):
            out[i] = e.re if isinstance(e, _SymC) else (np.float64(e.real) if isinstance(e, complex) else e)
        return out.view(_OArr)

    @property
    def imag(self):
        out = np.empty(self.shape, dtype=object)
        for i, e in np.ndenumerate(np.asarray(self)):
            out[i] = e.im if isinstance(e, _SymC) else (np.float64(e.imag) if isinstance(e, complex) else np.float64(0.0))
        return out.view(_OArr)


def _cvec(re, im):
    """complex vector from component lists: complex128 array on floats, _OArr of _SymC on proxies"""
    re, im = list(re), list(im)
    if not (shim.has_sym(re) or shim.has_sym(im)):
        return np.array([complex(float(a), float(b)) for a, b in zip(re, im)], dtype=complex)
    out = np.empty(len(re), dtype=object)
    for i, (a, b) in enumerate(zip(re, im)):
        out[i] = _SymC(a, b)
    return out.view(_OArr)


def _cparts(x):
    """[re_0.., im_0..] of a complex result (array / structure / scalar)"""
    if isinstance(x, hx.Raised):
        return x
    x = hx.unwrap(x)
    flat = list(np.asarray(x, dtype=object).reshape(-1)) if isinstance(x, np.ndarray) else [x]
    re, im = [], []
    for e in flat:
        if isinstance(e, _SymC):
            re.append(e.re), im.append(e.im)
        elif isinstance(e, (complex, np.complexfloating)):
            re.append(float(e.real)), im.append(float(e.imag))
        else:
            re.append(e), im.append(0.0)
    return re + im


def POST_INSTALL():
    import scipy.linalg
    import scipy.sparse
    import scipy.sparse.linalg
    from autoarray import numpy_wrapper
    from autoarray.inversion.inversion import abstract

    # (1) numpy_wrapper.Callable returns the bare result when it `isinstance(result, float)`; a proxy stands for a float
    orig_call = numpy_wrapper.Callable.__call__

    def call(self, *a, **k):
        r = orig_call(self, *a, **k)
        arr = getattr(r, "_array", None)
        if V.is_sym(arr):
            return arr
        return r

    numpy_wrapper.Callable.__call__ = call

    # (2) factorisations of matrices holding proxies
    shim.NPFacade.linalg = _LinalgFacade()

    def csc_matrix(m, *a, **k):
        m = shim.normalise(m)
        if shim.has_sym(m):
            return _SymCSC(m)
        return scipy.sparse.csc_matrix(m, *a, **k)

    def splu(m, *a, **k):
        if isinstance(m, _SymCSC):
            return _SymLU(m.m)
        return scipy.sparse.linalg.splu(m, *a, **k)

    def block_diag(*blocks):
        blocks = [shim.normalise(b) for b in blocks]
        if not any(shim.has_sym(b) for b in blocks):
            return scipy.linalg.block_diag(*blocks)
        blocks = [np.atleast_2d(np.asarray(hx.unwrap(b), dtype=object)) for b in blocks]
        n = sum(b.shape[0] for b in blocks)
        m = sum(b.shape[1] for b in blocks)
        out = shim.obj_full((n, m), np.float64(0.0))
        r = c = 0
        for b in blocks:
            out[r:r + b.shape[0], c:c + b.shape[1]] = b
            r += b.shape[0]
            c += b.shape[1]
        return out

    # (3) np.divide / np.subtract / ... (out=..., where=<array holding SymBool>): numpy needs a real bool array -> fork (shim rule f)
    def with_where(name):
        real = getattr(np, name)

        def f(self, *a, **kw):
            w = hx.unwrap(kw.get("where", True))
            if isinstance(w, np.ndarray) and w.dtype == object:
                kw["where"] = V.ctx().concrete_bools(np.asarray(w, dtype=object)) if shim.has_sym(w) else w.astype(bool)
            return real(*a, **kw)

        return f

    for name in ("divide", "true_divide", "subtract", "add", "multiply"):
        setattr(shim.NPFacade, name, with_where(name))

    # (4) complex values: proxy * 1j -> harness-level symbolic complex number
    orig_mul = V.SymReal.__mul__

    def mul(self, o):
        if isinstance(o, complex):
            return _SymC(orig_mul(self, o.real), orig_mul(self, o.imag))
        return orig_mul(self, o)

    V.SymReal.__mul__ = mul
    V.SymReal.__rmul__ = mul

    orig_add = V.SymReal.__add__

    def add(self, o):
        if isinstance(o, complex):
            return _SymC(orig_add(self, o.real), np.float64(o.imag))
        return orig_add(self, o)

    V.SymReal.__add__ = add
    V.SymReal.__radd__ = add

    abstract.csc_matrix = csc_matrix
    abstract.splu = splu
    abstract.block_diag = block_diag


# ---------------------------------------------------------------------------- building the real objects

def _fit_class():
    import autoarray as aa

    class _Fit(aa.FitImaging):
        """the smallest concrete FitImaging: the model image (and optionally an inversion) is handed in"""

        def __init__(self, model_data, inversion=None, **kw):
            super().__init__(**kw)
            self._model_data = model_data
            self._inversion = inversion

        @property
        def model_data(self):
            return self._model_data

        @property
        def inversion(self):
            return self._inversion

    return _Fit


def _make_fit(inp, H, W, native, inversion=None):
    """real Mask2D / Array2D / Imaging / FitImaging.  slim mode: slim-stored arrays of the unmasked values,
    use_mask_in_fit off.  native mode: native-stored arrays which carry the (arbitrary) input values in masked pixels
    too, use_mask_in_fit on."""
    import autoarray as aa
    mask = np.array(inp["mask"], dtype=bool).reshape(H, W)
    m = aa.Mask2D(mask=mask, pixel_scales=(1.0, 1.0))
    pos = _positions(mask)

    def mk(name):
        full = np.asarray(inp[name], dtype=object).reshape(H, W)
        if native:
            a = aa.Array2D(values=full.copy(), mask=m, store_native=True)
            return a.with_new_array(_as_values(full))       # masked pixels keep their input values
        return aa.Array2D(values=_as_values(np.array([full[p] for p in pos], dtype=object)), mask=m)

    data, noise, model = mk("d"), mk("n"), mk("mo")
    dataset = aa.Imaging(data=data, noise_map=noise, check_noise_map=not native)
    fit = _fit_class()(dataset=dataset, use_mask_in_fit=native, model_data=model, inversion=inversion,
                       dataset_model=aa.DatasetModel(background_sky_level=inp["sky"]))
    return mask, pos, fit


def _as_values(a):
    """float64 array when concrete (native runs), object array when it holds proxies"""
    a = np.asarray(a, dtype=object)
    return a.copy() if shim.has_sym(a) else a.astype(float)


def _ref_pixels(inp, H, W, pos):
    d = np.asarray(inp["d"], dtype=object).reshape(H, W)
    n = np.asarray(inp["n"], dtype=object).reshape(H, W)
    mo = np.asarray(inp["mo"], dtype=object).reshape(H, W)
    sky = inp["sky"]
    dd = [d[p] - sky for p in pos]          # the fitted data: dataset data minus the background sky level
    nn = [n[p] for p in pos]
    mm = [mo[p] for p in pos]
    return dd, nn, mm


def _sum(xs):
    r = 0.0
    for x in xs:
        r = r + x
    return r


TWO_PI = 2 * math.pi


# ---------------------------------------------------------------------------- case 1: maps and scalars without inversion

def body_fit(inp, H, W, native):
    mask, pos, fit = _make_fit(inp, H, W, native)
    dd, nn, mm = _ref_pixels(inp, H, W, pos)
    res = [a - b for a, b in zip(dd, mm)]
    chi = [(r / s) * (r / s) for r, s in zip(res, nn)]
    chi2 = _sum(chi)
    norm = _sum([_log(TWO_PI * s * s) for s in nn])
    A, E = {}, {}
    for name, ref in (("residual_map", res), ("normalized_residual_map", [r / s for r, s in zip(res, nn)]),
                      ("chi_squared_map", chi)):
        A[name] = _on_unmasked(hx.attempt(lambda: getattr(fit, name)), mask, native)
        E[name] = ref
    for name, ref in (("chi_squared", chi2), ("reduced_chi_squared", chi2 / len(pos)), ("noise_normalization", norm),
                      ("log_likelihood", -(chi2 + norm) / 2), ("figure_of_merit", -(chi2 + norm) / 2)):
        A[name] = _scalar(hx.attempt(lambda: getattr(fit, name)))
        E[name] = ref
    return A, E


def _mask_and_inputs(ctx, H, W, masked_noise_free=True):
    mb = V.bool_array("m", (H, W))
    ctx.assume(z3.Or(*[z3.Not(b.t) for b in mb.reshape(-1)]))
    mask = ctx.concrete_bools(mb)
    ctx.set_case(mask=mask.tolist())
    inputs = {"mask": mask, "d": V.real_array("d", (H, W)), "n": V.real_array("n", (H, W)),
              "mo": V.real_array("mo", (H, W)), "sky": V.real("sky")}
    for p in _positions(mask):
        ctx.assume(inputs["n"][p].t > 0)          # positive noise on the pixels that enter the fit
    return mask, inputs


def case_fit(ctx, H, W, native):
    mask, inputs = _mask_and_inputs(ctx, H, W)
    _run(ctx, body_fit, inputs, {"H": H, "W": W, "native": native}, validate_every=16)


# ---------------------------------------------------------------------------- case 2: derived maps

def _clip0(x):
    """x with negatives clipped to zero"""
    if V.is_sym(x):
        return shim._ite(x < 0, np.float64(0.0), x)
    return 0.0 if x < 0 else x


def body_snr(inp, H, W, native):
    mask, pos, fit = _make_fit(inp, H, W, native)
    dd, nn, mm = _ref_pixels(inp, H, W, pos)
    A, E = {}, {}
    A["signal_to_noise_map"] = _on_unmasked(hx.attempt(lambda: fit.signal_to_noise_map), mask, native)
    E["signal_to_noise_map"] = [_clip0(a / s) for a, s in zip(dd, nn)]
    return A, E


def case_snr(ctx, H, W, native):
    mask, inputs = _mask_and_inputs(ctx, H, W)
    _run(ctx, body_snr, inputs, {"H": H, "W": W, "native": native}, validate_every=16)


def body_rff(inp, H, W, native):
    mask, pos, fit = _make_fit(inp, H, W, native)
    dd, nn, mm = _ref_pixels(inp, H, W, pos)
    A, E = {}, {}
    A["residual_flux_fraction_map"] = _on_unmasked(hx.attempt(lambda: fit.residual_flux_fraction_map), mask, native)
    E["residual_flux_fraction_map"] = [(a - b) / a for a, b in zip(dd, mm)]      # residual / data (data != 0)
    return A, E


KNOWN_RFF = "rff-returns-chi2-map"


def _known_ids():
    return [k for k in os.environ.get("VERIF_KNOWN", "").split(",") if k]


def _shape_rff(ctx, inputs, mask, util=False):
    """side conditions that only shape counterexample / validation models of the residual-flux-fraction obligations (group
    'shape': sliced out of the obligation queries): the divisor data' is either clearly tiny (<= 2^-40, i.e. data in
    physical units, only with sky level 0 so that data - sky cannot cancel in float64) or clearly not (>= 2^-20) - never within float rounding of a tolerance such as numpy's atol 1e-8 -
    and |residual| >= |data'| so that a wrong value differs visibly from residual/data' in the float64 replay"""
    for p in _positions(mask):
        if util:
            d, r = inputs["d"][p].t, inputs["r"][p].t
        else:
            d = inputs["d"][p].t - inputs["sky"].t
            r = d - inputs["mo"][p].t
        tiny = _abs(d) <= z3.RealVal(2) ** -40
        if not util:
            tiny = z3.And(tiny, inputs["sky"].t == 0)      # data - sky must not cancel to 0.0 in float64
        ctx.assume(z3.Or(_abs(d) >= z3.RealVal(2) ** -20, tiny), group="shape")
        ctx.assume(_abs(r) >= _abs(d), group="shape")


def case_rff(ctx, H, W, native):
    mask, inputs = _mask_and_inputs(ctx, H, W)
    _shape_rff(ctx, inputs, mask)

    def known(A, E):
        if KNOWN_RFF not in _known_ids():
            return None
        a = A["residual_flux_fraction_map"]
        if not isinstance(a, list):
            return None
        # region of the recorded finding: the returned map coincides with the chi-squared map ((data-model)/noise)^2
        pos = _positions(mask)
        dd, nn, mm = _ref_pixels(inputs, H, W, pos)
        chi = [((x - y) / s) * ((x - y) / s) for x, y, s in zip(dd, mm, nn)]
        if len(a) != len(chi):
            return None
        reg = z3.And(*[V.to_real_term(u) == V.to_real_term(c) for u, c in zip(a, chi)])
        return {"residual_flux_fraction_map": {KNOWN_RFF: reg}}

    _run(ctx, body_rff, inputs, {"H": H, "W": W, "native": native}, validate_every=16, known=known)


# ---------------------------------------------------------------------------- case 3: fit_util functions on plain arrays

def body_util(inp, H, W, part):
    from autoarray.fit import fit_util
    mask = np.array(inp["mask"], dtype=bool).reshape(H, W)
    pos = _positions(mask)
    full = {k: _as_values(np.asarray(inp[k], dtype=object).reshape(H, W)) for k in ("d", "mo", "n", "r", "c")}
    slim = {k: _as_values(np.array([full[k][p] for p in pos], dtype=object)) for k in full}
    d, mo, n, r, c = [[full[k][p] for p in pos] for k in ("d", "mo", "n", "r", "c")]
    A, E = {}, {}

    def um(x):
        return _on_unmasked(x, mask, True)

    if part == "rff":
        A["residual_flux_fraction_map_from"] = hx.attempt(fit_util.residual_flux_fraction_map_from, residual_map=slim["r"], data=slim["d"])
        E["residual_flux_fraction_map_from"] = [a / b for a, b in zip(r, d)]
        A["residual_flux_fraction_map_with_mask_from"] = um(hx.attempt(
            fit_util.residual_flux_fraction_map_with_mask_from, residual_map=full["r"], data=full["d"], mask=mask))
        E["residual_flux_fraction_map_with_mask_from"] = [a / b for a, b in zip(r, d)]
        return A, E
    # un-masked variants on the slim vectors
    A["residual_map_from"] = hx.attempt(fit_util.residual_map_from, data=slim["d"], model_data=slim["mo"])
    E["residual_map_from"] = [a - b for a, b in zip(d, mo)]
    A["normalized_residual_map_from"] = hx.attempt(fit_util.normalized_residual_map_from, residual_map=slim["r"], noise_map=slim["n"])
    E["normalized_residual_map_from"] = [a / s for a, s in zip(r, n)]
    A["chi_squared_map_from"] = hx.attempt(fit_util.chi_squared_map_from, residual_map=slim["r"], noise_map=slim["n"])
    E["chi_squared_map_from"] = [(a / s) * (a / s) for a, s in zip(r, n)]
    A["chi_squared_from"] = _scalar(hx.attempt(fit_util.chi_squared_from, chi_squared_map=slim["c"]))
    E["chi_squared_from"] = _sum(c)
    A["noise_normalization_from"] = _scalar(hx.attempt(fit_util.noise_normalization_from, noise_map=slim["n"]))
    E["noise_normalization_from"] = _sum([_log(TWO_PI * s * s) for s in n])
    # masked variants on native arrays whose masked pixels carry arbitrary values
    A["residual_map_with_mask_from"] = um(hx.attempt(fit_util.residual_map_with_mask_from, data=full["d"], mask=mask, model_data=full["mo"]))
    E["residual_map_with_mask_from"] = [a - b for a, b in zip(d, mo)]
    A["normalized_residual_map_with_mask_from"] = um(hx.attempt(
        fit_util.normalized_residual_map_with_mask_from, residual_map=full["r"], noise_map=full["n"], mask=mask))
    E["normalized_residual_map_with_mask_from"] = [a / s for a, s in zip(r, n)]
    A["chi_squared_map_with_mask_from"] = um(hx.attempt(
        fit_util.chi_squared_map_with_mask_from, residual_map=full["r"], noise_map=full["n"], mask=mask))
    E["chi_squared_map_with_mask_from"] = [(a / s) * (a / s) for a, s in zip(r, n)]
    A["chi_squared_with_mask_from"] = _scalar(hx.attempt(fit_util.chi_squared_with_mask_from, chi_squared_map=full["c"], mask=mask))
    E["chi_squared_with_mask_from"] = _sum(c)
    A["chi_squared_with_mask_fast_from"] = _scalar(hx.attempt(
        fit_util.chi_squared_with_mask_fast_from, data=full["d"], mask=mask, model_data=full["mo"], noise_map=full["n"]))
    E["chi_squared_with_mask_fast_from"] = _sum([((a - b) / s) * ((a - b) / s) for a, b, s in zip(d, mo, n)])
    A["noise_normalization_with_mask_from"] = _scalar(hx.attempt(fit_util.noise_normalization_with_mask_from, noise_map=full["n"], mask=mask))
    E["noise_normalization_with_mask_from"] = _sum([_log(TWO_PI * s * s) for s in n])
    # scalar compositions
    t = list(inp["t"])
    A["log_likelihood_from"] = hx.attempt(fit_util.log_likelihood_from, chi_squared=t[0], noise_normalization=t[4])
    E["log_likelihood_from"] = -(t[0] + t[4]) / 2
    A["log_evidence_from"] = hx.attempt(fit_util.log_evidence_from, chi_squared=t[0], regularization_term=t[1],
                                        log_curvature_regularization_term=t[2], log_regularization_term=t[3], noise_normalization=t[4])
    E["log_evidence_from"] = -(t[0] + t[1] + t[2] - t[3] + t[4]) / 2
    return A, E


def case_util(ctx, H, W, part):
    mb = V.bool_array("m", (H, W))
    ctx.assume(z3.Or(*[z3.Not(b.t) for b in mb.reshape(-1)]))
    mask = ctx.concrete_bools(mb)
    ctx.set_case(mask=mask.tolist())
    inputs = {"mask": mask, "t": [V.real("t%d" % i) for i in range(5)]}
    for k in ("d", "mo", "n", "r", "c"):
        inputs[k] = V.real_array(k, (H, W))
    for p in _positions(mask):
        ctx.assume(inputs["n"][p].t > 0)
    if part == "rff":
        _shape_rff(ctx, inputs, mask, util=True)
    _run(ctx, body_util, inputs, {"H": H, "W": W, "part": part}, validate_every=16)


# ---------------------------------------------------------------------------- case 4: evidence with an inversion

def _parse_objs(config):
    """'U1M2N1' -> [(False, 1), (True, 2), (False, 1)]: (regularized?, parameters) per linear object.
    R / U = regularized / unregularized list of linear functions (AbstractLinearObjFuncList, NOT a mapper),
    M / N = regularized / unregularized pixelization mapper (AbstractMapper); digit = number of parameters"""
    return [(config[i] in "RM", int(config[i + 1])) for i in range(0, len(config), 2)]


def _is_mapper(config):
    return [config[i] in "MN" for i in range(0, len(config), 2)]


def _sym_matrix(a, P):
    a = np.asarray(a, dtype=object).reshape(P, P)
    return [[a[min(i, j), max(i, j)] for j in range(P)] for i in range(P)]


def _logdet(M):
    """log det of a (list of lists) matrix: LOGDET_n uninterpreted on proxies, LAPACK on floats; empty matrix -> 0"""
    n = len(M)
    if n == 0:
        return 0.0
    arr = np.array(M, dtype=object).reshape(n, n)
    if shim.has_sym(arr):
        return V.SymReal(logdet_term(arr))
    sign, ld = np.linalg.slogdet(arr.astype(float))
    return float(ld)


def _make_inversion(objs, Hm, Fm, s, mappers=None):
    """the real AbstractInversion over mock linear objects; curvature matrix F and reconstruction s are handed in through
    the cached-property slots (they belong to C04/C05), the regularization matrix is assembled by the real code"""
    from autoarray.inversion.inversion.abstract import AbstractInversion
    from autoarray.inversion.inversion.dataset_interface import DatasetInterface
    from autoarray.inversion.mock.mock_linear_obj_func_list import MockLinearObjFuncList
    from autoarray.inversion.mock.mock_mapper import MockMapper
    from autoarray.inversion.mock.mock_regularization import MockRegularization
    lin, o = [], 0
    for idx, (reg, k) in enumerate(objs):
        block = _as_values(np.array([[Hm[o + i][o + j] for j in range(k)] for i in range(k)], dtype=object))
        cls = MockMapper if (mappers and mappers[idx]) else MockLinearObjFuncList
        lin.append(cls(parameters=k, regularization=MockRegularization(regularization_matrix=block) if reg else None))
        o += k
    inv = AbstractInversion(dataset=DatasetInterface(data=None, noise_map=None), linear_obj_list=lin)
    P = o
    inv.__dict__["curvature_matrix"] = _as_values(np.array(Fm, dtype=object).reshape(P, P))
    inv.__dict__["reconstruction"] = _as_values(np.array(s, dtype=object).reshape(P))
    return inv


def body_evidence(inp, H, W, native, config):
    objs = _parse_objs(config)
    P = sum(k for _, k in objs)
    Fm = _sym_matrix(inp["F"], P)
    Hm = _sym_matrix(inp["Hb"], P)
    s = list(np.asarray(inp["s"], dtype=object).reshape(P))
    inv = _make_inversion(objs, Hm, Fm, s, _is_mapper(config))
    mask, pos, fit = _make_fit(inp, H, W, native, inversion=inv)
    dd, nn, mm = _ref_pixels(inp, H, W, pos)
    chi2 = _sum([((a - b) / q) * ((a - b) / q) for a, b, q in zip(dd, mm, nn)])
    norm = _sum([_log(TWO_PI * q * q) for q in nn])
    # reference: the regularization matrix is block diagonal over the regularized objects; R = their parameter indices
    R, Hfull, o = [], [[0.0] * P for _ in range(P)], 0
    for reg, k in objs:
        if reg:
            R += list(range(o, o + k))
            for i in range(k):
                for j in range(k):
                    Hfull[o + i][o + j] = Hm[o + i][o + j]
        o += k
    H_R = [[Hfull[i][j] for j in R] for i in R]
    FH_R = [[Fm[i][j] + Hfull[i][j] for j in R] for i in R]
    reg_term = _sum([s[i] * Hfull[i][j] * s[j] for i in R for j in R])
    ld_fh, ld_h = _logdet(FH_R), _logdet(H_R)
    A, E = {}, {}
    if R and len(R) < P:
        A["curvature_reg_matrix_reduced"] = hx.attempt(lambda: inv.curvature_reg_matrix_reduced)
        E["curvature_reg_matrix_reduced"] = np.array(FH_R, dtype=object).reshape(len(R), len(R))
        A["regularization_matrix_reduced"] = hx.attempt(lambda: inv.regularization_matrix_reduced)
        E["regularization_matrix_reduced"] = np.array(H_R, dtype=object).reshape(len(R), len(R))
    A["regularization_term"] = _scalar(hx.attempt(lambda: inv.regularization_term))
    E["regularization_term"] = reg_term
    A["log_det_curvature_reg_matrix_term"] = _scalar(hx.attempt(lambda: inv.log_det_curvature_reg_matrix_term))
    E["log_det_curvature_reg_matrix_term"] = ld_fh
    A["log_det_regularization_matrix_term"] = _scalar(hx.attempt(lambda: inv.log_det_regularization_matrix_term))
    E["log_det_regularization_matrix_term"] = ld_h
    evidence = -(chi2 + reg_term + ld_fh - ld_h + norm) / 2
    A["log_likelihood"] = _scalar(hx.attempt(lambda: fit.log_likelihood))
    E["log_likelihood"] = -(chi2 + norm) / 2
    A["log_likelihood_with_regularization"] = _scalar(hx.attempt(lambda: fit.log_likelihood_with_regularization))
    E["log_likelihood_with_regularization"] = -(chi2 + reg_term + norm) / 2
    A["log_evidence"] = _scalar(hx.attempt(lambda: fit.log_evidence))
    E["log_evidence"] = evidence
    A["figure_of_merit"] = _scalar(hx.attempt(lambda: fit.figure_of_merit))
    E["figure_of_merit"] = evidence
    return A, E


def _abs(t):
    return z3.If(t >= 0, t, -t)


def _assume_spd(ctx, inputs, config):
    """only for the native cross-validation / replays (LAPACK needs positive definite matrices): strict diagonal dominance;
    the H blocks with margin 2, so every eigenvalue is >= 2 and log det(block) >= k*log 2 > 0 - a solver model whose blocks
    are identities would make 'a regularized block was dropped from log det H' invisible in the float64 replay.
    Kept in a group of their own, i.e. NOT assumed by the obligations (those hold for every F, H)."""
    objs = _parse_objs(config)
    P = sum(k for _, k in objs)
    Fm, Hm = _sym_matrix(inputs["F"], P), _sym_matrix(inputs["Hb"], P)
    for i in range(P):
        ctx.assume(Fm[i][i].t >= 1 + z3.Sum([_abs(Fm[i][j].t) for j in range(P) if j != i] + [z3.RealVal(0)]), group="spd")
    o = 0
    for reg, k in objs:
        for i in range(k):
            ctx.assume(Hm[o + i][o + i].t >= 2 + z3.Sum([_abs(Hm[o + i][o + j].t) for j in range(k) if j != i] + [z3.RealVal(0)]), group="spd")
        o += k


def case_evidence(ctx, H, W, native, config):
    mask, inputs = _mask_and_inputs(ctx, H, W)
    objs = _parse_objs(config)
    P = sum(k for _, k in objs)
    inputs["F"] = V.real_array("F", (P, P))
    inputs["Hb"] = V.real_array("Hb", (P, P))
    inputs["s"] = V.real_array("s", (P,))
    _assume_spd(ctx, inputs, config)
    _run(ctx, body_evidence, inputs, {"H": H, "W": W, "native": native, "config": config}, validate_every=8)


# ---------------------------------------------------------------------------- case 5: read-order / history independence

# every quantity must follow its definition whatever was read from the SAME fit object before (plotters read the derived
# maps first); "2" = second read of the same quantity later in the sequence
ORDERS = {
    "derived_first": ["signal_to_noise_map", "residual_flux_fraction_map", "normalized_residual_map", "chi_squared_map",
                      "residual_map", "chi_squared", "reduced_chi_squared", "noise_normalization", "log_likelihood",
                      "log_evidence", "figure_of_merit", "signal_to_noise_map"],
    "stats_first": ["figure_of_merit", "log_likelihood", "chi_squared", "residual_map", "noise_normalization",
                    "chi_squared_map", "normalized_residual_map", "residual_flux_fraction_map", "signal_to_noise_map",
                    "residual_map", "chi_squared", "reduced_chi_squared", "log_likelihood", "log_evidence", "figure_of_merit",
                    "residual_flux_fraction_map"],
}
_MAPS = ("signal_to_noise_map", "residual_flux_fraction_map", "normalized_residual_map", "chi_squared_map", "residual_map")


def body_order(inp, H, W, native, order, config):
    inv, reg_terms = None, None
    if config:
        objs = _parse_objs(config)
        P = sum(k for _, k in objs)
        Fm, Hm = _sym_matrix(inp["F"], P), _sym_matrix(inp["Hb"], P)
        sv = list(np.asarray(inp["s"], dtype=object).reshape(P))
        inv = _make_inversion(objs, Hm, Fm, sv, _is_mapper(config))
    mask, pos, fit = _make_fit(inp, H, W, native, inversion=inv)
    dd, nn, mm = _ref_pixels(inp, H, W, pos)
    res = [a - b for a, b in zip(dd, mm)]
    chi = [(r / q) * (r / q) for r, q in zip(res, nn)]
    chi2 = _sum(chi)
    norm = _sum([_log(TWO_PI * q * q) for q in nn])
    like = -(chi2 + norm) / 2
    ref = {"signal_to_noise_map": [_clip0(a / q) for a, q in zip(dd, nn)],
           "residual_flux_fraction_map": [r / a for r, a in zip(res, dd)],
           "normalized_residual_map": [r / q for r, q in zip(res, nn)], "chi_squared_map": chi, "residual_map": res,
           "chi_squared": chi2, "reduced_chi_squared": chi2 / len(pos), "noise_normalization": norm, "log_likelihood": like,
           "figure_of_merit": like}
    if config:
        R, Hfull, o = [], [[0.0] * P for _ in range(P)], 0
        for reg, k in objs:
            if reg:
                R += list(range(o, o + k))
                for i in range(k):
                    for j in range(k):
                        Hfull[o + i][o + j] = Hm[o + i][o + j]
            o += k
        reg_term = _sum([sv[i] * Hfull[i][j] * sv[j] for i in R for j in R])
        ev = -(chi2 + reg_term + _logdet([[Fm[i][j] + Hfull[i][j] for j in R] for i in R])
               - _logdet([[Hfull[i][j] for j in R] for i in R]) + norm) / 2
        ref["log_evidence"] = ev
        ref["figure_of_merit"] = ev
    A, E = {}, {}
    for step, name in enumerate(ORDERS[order]):
        if name not in ref:
            continue
        key = "%02d:%s" % (step, name)
        try:
            r = hx.attempt(lambda: getattr(fit, name))
        except V.NonFinite:
            # e.g. a division by a concrete 0 that an earlier read wrote into the data: never equal to the reference, the
            # float64 replay decides (inf/nan there)
            r = hx.Raised("NonFinite")
        if name in _MAPS:
            r = _on_unmasked(r, mask, native)
            r = [x for x in r] if isinstance(r, list) else r      # snapshot: later reads must not alias it
        else:
            r = _scalar(r)
        A[key] = r
        E[key] = ref[name]
    # the arrays handed to the fit still hold their original values afterwards
    for label, arr, name in (("dataset.data", fit.dataset.data, "d"), ("dataset.noise_map", fit.dataset.noise_map, "n"),
                             ("model_data", fit.model_data, "mo")):
        full = np.asarray(inp[name], dtype=object).reshape(H, W)
        A["after:%s_unchanged" % label] = _vec(arr)
        E["after:%s_unchanged" % label] = list(full.reshape(-1)) if native else [full[p] for p in pos]
    return A, E


def case_order(ctx, H, W, native, order, config):
    mask, inputs = _mask_and_inputs(ctx, H, W)
    _shape_rff(ctx, inputs, mask)
    if config:
        P = sum(k for _, k in _parse_objs(config))
        inputs["F"] = V.real_array("F", (P, P))
        inputs["Hb"] = V.real_array("Hb", (P, P))
        inputs["s"] = V.real_array("s", (P,))
        _assume_spd(ctx, inputs, config)
    _run(ctx, body_order, inputs, {"H": H, "W": W, "native": native, "order": order, "config": config}, validate_every=8)


# ---------------------------------------------------------------------------- case 6: in-place updates between reads

_UPD_READS = ("residual_map", "normalized_residual_map", "chi_squared_map", "chi_squared", "reduced_chi_squared",
              "noise_normalization", "log_likelihood", "log_likelihood_with_regularization", "log_evidence", "figure_of_merit")


def _ref_stats(dd, nn, mm, ev_extra):
    """definitions over the unmasked pixel lists; ev_extra = (s^T H s, logdet(F+H)_R, logdet H_R) or None"""
    res = [a - b for a, b in zip(dd, mm)]
    chi = [(r / q) * (r / q) for r, q in zip(res, nn)]
    chi2 = _sum(chi)
    norm = _sum([_log(TWO_PI * q * q) for q in nn])
    like = -(chi2 + norm) / 2
    ref = {"residual_map": res, "normalized_residual_map": [r / q for r, q in zip(res, nn)], "chi_squared_map": chi,
           "chi_squared": chi2, "reduced_chi_squared": chi2 / len(dd), "noise_normalization": norm, "log_likelihood": like,
           "figure_of_merit": like}
    if ev_extra is not None:
        reg_term, ld_fh, ld_h = ev_extra
        ref["log_likelihood_with_regularization"] = -(chi2 + reg_term + norm) / 2
        ref["log_evidence"] = -(chi2 + reg_term + ld_fh - ld_h + norm) / 2
        ref["figure_of_merit"] = ref["log_evidence"]
    return ref


def body_update(inp, H, W, native, which, config):
    """read the statistics, overwrite the unmasked entries of dataset.noise_map / dataset.data / the model IN PLACE through
    the structure's own __setitem__, read again: every statistic must follow its definition for the NEW contents"""
    inv, ev_extra = None, None
    if config:
        objs = _parse_objs(config)
        P = sum(k for _, k in objs)
        Fm, Hm = _sym_matrix(inp["F"], P), _sym_matrix(inp["Hb"], P)
        sv = list(np.asarray(inp["s"], dtype=object).reshape(P))
        inv = _make_inversion(objs, Hm, Fm, sv, _is_mapper(config))
        R, Hfull, o = [], [[0.0] * P for _ in range(P)], 0
        for reg, k in objs:
            if reg:
                R += list(range(o, o + k))
                for i in range(k):
                    for j in range(k):
                        Hfull[o + i][o + j] = Hm[o + i][o + j]
            o += k
        ev_extra = (_sum([sv[i] * Hfull[i][j] * sv[j] for i in R for j in R]),
                    _logdet([[Fm[i][j] + Hfull[i][j] for j in R] for i in R]), _logdet([[Hfull[i][j] for j in R] for i in R]))
    mask, pos, fit = _make_fit(inp, H, W, native, inversion=inv)
    dd, nn, mm = _ref_pixels(inp, H, W, pos)
    new = np.asarray(inp["new"], dtype=object).reshape(H, W)
    A, E = {}, {}

    def read(tag, ref):
        for name in _UPD_READS:
            if name not in ref:
                continue
            r = hx.attempt(lambda: getattr(fit, name))
            r = _on_unmasked(r, mask, native) if name.endswith("_map") else _scalar(r)
            A["%s:%s" % (tag, name)] = list(r) if isinstance(r, list) else r
            E["%s:%s" % (tag, name)] = ref[name]

    read("before", _ref_stats(dd, nn, mm, ev_extra))
    target = {"noise": fit.dataset.noise_map, "data": fit.dataset.data, "model": fit.model_data}[which]
    for k, p in enumerate(pos):
        target[p if native else k] = new[p]
    nv = [new[p] for p in pos]
    sky = inp["sky"]
    if which == "noise":
        nn = nv
    elif which == "data":
        dd = [v - sky for v in nv]
    else:
        mm = nv
    read("after", _ref_stats(dd, nn, mm, ev_extra))
    return A, E


def case_update(ctx, H, W, native, which, config):
    mask, inputs = _mask_and_inputs(ctx, H, W)
    inputs["new"] = V.real_array("new", (H, W))
    if which == "noise":
        for p in _positions(mask):
            ctx.assume(inputs["new"][p].t > 0)
    if config:
        P = sum(k for _, k in _parse_objs(config))
        inputs["F"] = V.real_array("F", (P, P))
        inputs["Hb"] = V.real_array("Hb", (P, P))
        inputs["s"] = V.real_array("s", (P,))
        _assume_spd(ctx, inputs, config)
    _run(ctx, body_update, inputs, {"H": H, "W": W, "native": native, "which": which, "config": config}, validate_every=8)


# ---------------------------------------------------------------------------- case 7: complex (interferometer) statistics

def body_complex(inp, N):
    """complex fit_util functions and the FitInterferometer properties built on them: every statistic is taken per
    component - real parts with the real noise, imaginary parts with the imaginary noise (the two are independent inputs)"""
    from types import SimpleNamespace
    import autoarray as aa
    from autoarray.fit import fit_util
    g = {k: list(np.asarray(inp[k], dtype=object).reshape(N)) for k in ("dr", "di", "mr", "mi", "nr", "ni", "cr", "ci")}
    sym = any(shim.has_sym(v) for v in g.values())
    data, model, noise, cmap = _cvec(g["dr"], g["di"]), _cvec(g["mr"], g["mi"]), _cvec(g["nr"], g["ni"]), _cvec(g["cr"], g["ci"])
    rr = [a - b for a, b in zip(g["dr"], g["mr"])]
    ri = [a - b for a, b in zip(g["di"], g["mi"])]
    res = _cvec(rr, ri)
    nres = [a / q for a, q in zip(rr, g["nr"])] + [a / q for a, q in zip(ri, g["ni"])]
    chi = [x * x for x in nres]
    chi2 = _sum(chi)
    norm = _sum([_log(TWO_PI * q * q) for q in g["nr"]]) + _sum([_log(TWO_PI * q * q) for q in g["ni"]])
    A, E = {}, {}
    A["normalized_residual_map_complex_from"] = _cparts(hx.attempt(fit_util.normalized_residual_map_complex_from, residual_map=res, noise_map=noise))
    E["normalized_residual_map_complex_from"] = nres
    A["chi_squared_map_complex_from"] = _cparts(hx.attempt(fit_util.chi_squared_map_complex_from, residual_map=res, noise_map=noise))
    E["chi_squared_map_complex_from"] = chi
    A["chi_squared_complex_from"] = _scalar(hx.attempt(fit_util.chi_squared_complex_from, chi_squared_map=cmap))
    E["chi_squared_complex_from"] = _sum(g["cr"]) + _sum(g["ci"])
    A["noise_normalization_complex_from"] = _scalar(hx.attempt(fit_util.noise_normalization_complex_from, noise_map=noise))
    E["noise_normalization_complex_from"] = norm

    # FitInterferometer on a dataset stand-in (aa.Interferometer itself needs pylops): real Visibilities structures on floats
    if not sym:
        data, noise, model = aa.Visibilities(visibilities=data), aa.VisibilitiesNoiseMap(visibilities=noise), aa.Visibilities(visibilities=model)

    class _FitI(aa.FitInterferometer):
        model_data = property(lambda self: model)

    fit = _FitI(dataset=SimpleNamespace(data=data, noise_map=noise, noise_covariance_matrix=None), use_mask_in_fit=False)
    for name, ref in (("residual_map", rr + ri), ("normalized_residual_map", nres), ("chi_squared_map", chi)):
        A["fit." + name] = _cparts(hx.attempt(lambda: getattr(fit, name)))
        E["fit." + name] = ref
    for name, ref in (("chi_squared", chi2), ("reduced_chi_squared", chi2 / N), ("noise_normalization", norm),
                      ("log_likelihood", -(chi2 + norm) / 2), ("figure_of_merit", -(chi2 + norm) / 2)):
        A["fit." + name] = _scalar(hx.attempt(lambda: getattr(fit, name)))
        E["fit." + name] = ref
    return A, E


def case_complex(ctx, N):
    inputs = {k: V.real_array(k, (N,)) for k in ("dr", "di", "mr", "mi", "nr", "ni", "cr", "ci")}
    for k in ("nr", "ni"):
        for e in inputs[k]:
            ctx.assume(e.t > 0)
    ctx.set_case(N=N)
    _run(ctx, body_complex, inputs, {"N": N}, validate_every=1)


def body_complex_snr(inp, N):
    """FitInterferometer.signal_to_noise_map: data/noise per component, negatives clipped to zero in EACH component"""
    from types import SimpleNamespace
    import autoarray as aa
    g = {k: list(np.asarray(inp[k], dtype=object).reshape(N)) for k in ("dr", "di", "mr", "mi", "nr", "ni")}
    sym = any(shim.has_sym(v) for v in g.values())
    data, model, noise = _cvec(g["dr"], g["di"]), _cvec(g["mr"], g["mi"]), _cvec(g["nr"], g["ni"])
    if not sym:
        data, noise, model = aa.Visibilities(visibilities=data), aa.VisibilitiesNoiseMap(visibilities=noise), aa.Visibilities(visibilities=model)

    class _FitI(aa.FitInterferometer):
        model_data = property(lambda self: model)

    fit = _FitI(dataset=SimpleNamespace(data=data, noise_map=noise, noise_covariance_matrix=None), use_mask_in_fit=False)
    A, E = {}, {}
    A["fit.signal_to_noise_map"] = _cparts(hx.attempt(lambda: fit.signal_to_noise_map))
    E["fit.signal_to_noise_map"] = [_clip0(a / q) for a, q in zip(g["dr"], g["nr"])] + [_clip0(a / q) for a, q in zip(g["di"], g["ni"])]
    # reading it must not disturb the statistics of the same fit object
    rr = [a - b for a, b in zip(g["dr"], g["mr"])] + [a - b for a, b in zip(g["di"], g["mi"])]
    A["fit.residual_map_after"] = _cparts(hx.attempt(lambda: fit.residual_map))
    E["fit.residual_map_after"] = rr
    return A, E


def case_complex_snr(ctx, N):
    inputs = {k: V.real_array(k, (N,)) for k in ("dr", "di", "mr", "mi", "nr", "ni")}
    for k in ("nr", "ni"):
        for e in inputs[k]:
            ctx.assume(e.t > 0)
    ctx.set_case(N=N)
    _run(ctx, body_complex_snr, inputs, {"N": N}, validate_every=4)


BODIES = {"case_fit": body_fit, "case_snr": body_snr, "case_rff": body_rff, "case_util": body_util, "case_evidence": body_evidence,
          "case_order": body_order, "case_update": body_update, "case_complex": body_complex, "case_complex_snr": body_complex_snr}

CONFIGS_Q = ["M1", "R2", "U1", "U1N1", "M2U1", "U1M2", "R1M2", "M1R2", "U1M2U1", "R1U1M1", "U1N1R2", "M1U1R1U1", "R1N1"]
CONFIGS_T = CONFIGS_Q + ["R3", "M2", "U2M2", "R2U2", "U1R1N1M1", "M2R2", "R2R1", "M1M2", "U2M1U1", "R1M1R1", "U1M3U1", "M1U2R1", "N2R1"]


def cases(tier):
    quick = tier == "quick"
    out = []
    shapes = [(1, 1), (1, 2), (2, 1), (1, 3), (2, 2), (2, 3), (3, 2), (1, 5), (3, 3)]
    if not quick:
        shapes += [(2, 4), (4, 2), (1, 7), (2, 5), (3, 4)]
    for (H, W) in shapes:
        n = H * W
        sp = {"split": 0 if n < 8 else (4 if n < 10 else (5 if n < 12 else 7))}
        for native in (False, True):
            out.append(("case_fit", {"H": H, "W": W, "native": native}, sp))
            if n <= (6 if quick else 10):
                out.append(("case_rff", {"H": H, "W": W, "native": native}, sp))
            if n <= (4 if quick else 6):
                out.append(("case_snr", {"H": H, "W": W, "native": native}, {"split": 0 if n <= 4 else 4}))
        if n <= (6 if quick else 10):
            out.append(("case_util", {"H": H, "W": W, "part": "stat"}, sp))
            out.append(("case_util", {"H": H, "W": W, "part": "rff"}, sp))
    for (H, W) in [(1, 1), (1, 2), (2, 1), (1, 3), (2, 2)] + ([] if quick else [(1, 4), (2, 3)]):
        n = H * W
        for native in ((False, True) if n <= 4 else (False,)):
            for order in ORDERS:
                out.append(("case_order", {"H": H, "W": W, "native": native, "order": order, "config": None},
                            {"split": 0 if n < 4 else (3 if n == 4 else 5)}))
                if n <= (3 if quick else 4):
                    out.append(("case_order", {"H": H, "W": W, "native": native, "order": order, "config": "U1R1" if order == "derived_first" else "R1M1"},
                                {"split": 0 if n < 4 else 3}))
    for (H, W) in [(1, 2), (1, 3), (2, 2)] + ([] if quick else [(2, 3)]):
        for native in (False, True):
            for which in ("noise", "data", "model"):
                for config in (None, "R1M1"):
                    out.append(("case_update", {"H": H, "W": W, "native": native, "which": which, "config": config}))
    for config in (CONFIGS_Q if quick else CONFIGS_T):
        for native in (False, True):
            for (H, W) in ([(2, 2)] if quick else [(2, 2), (2, 3)]):
                out.append(("case_evidence", {"H": H, "W": W, "native": native, "config": config}))
    for N in ((1, 2, 3) if quick else (1, 2, 3, 4, 6)):
        out.append(("case_complex", {"N": N}))
        if N <= 3:
            out.append(("case_complex_snr", {"N": N}))
    out.sort(key=lambda c: -(c[1].get("H", 1) * c[1].get("W", 1) * (4 if c[0] in ("case_snr", "case_order") else 1)))
    return out


def replay(cand):
    return hx.replay_body(BODIES[cand["case_fn"]], cand)
