"""C09 - over-sampling partitions pixels uniformly, bins by exact per-pixel means; decorator and iterative scheme."""
import os

import numpy as np
import z3

from symx import hx, shim, values as V

PROPERTY = "C09"
FUNCTIONS = [
    "autoarray.operators.over_sampling.over_sample_util.total_sub_pixels_2d_from",
    "autoarray.operators.over_sampling.over_sample_util.native_sub_index_for_slim_sub_index_2d_from",
    "autoarray.operators.over_sampling.over_sample_util.slim_index_for_sub_slim_index_via_mask_2d_from",
    "autoarray.operators.over_sampling.over_sample_util.oversample_mask_2d_from",
    "autoarray.operators.over_sampling.over_sample_util.grid_2d_slim_over_sampled_via_mask_from",
    "autoarray.operators.over_sampling.over_sample_util.binned_array_2d_from",
    "autoarray.geometry.geometry_util.central_scaled_coordinate_2d_from",
    "autoarray.operators.over_sampling.uniform.OverSamplerUniform.__init__",
    "autoarray.operators.over_sampling.uniform.OverSamplerUniform.sub_total",
    "autoarray.operators.over_sampling.uniform.OverSamplerUniform.sub_length",
    "autoarray.operators.over_sampling.uniform.OverSamplerUniform.sub_fraction",
    "autoarray.operators.over_sampling.uniform.OverSamplerUniform.sub_pixel_areas",
    "autoarray.operators.over_sampling.uniform.OverSamplerUniform.over_sampled_grid",
    "autoarray.operators.over_sampling.uniform.OverSamplerUniform.binned_array_2d_from",
    "autoarray.operators.over_sampling.uniform.OverSamplerUniform.array_via_func_from",
    "autoarray.operators.over_sampling.uniform.OverSamplerUniform.slim_for_sub_slim",
    "autoarray.operators.over_sampling.uniform.OverSamplerUniform.sub_mask_native_for_sub_mask_slim",
    "autoarray.operators.over_sampling.uniform.OverSamplingUniform.over_sampler_from",
    "autoarray.operators.over_sampling.decorator.perform_over_sampling_from",
    "autoarray.operators.over_sampling.decorator.over_sample",
    "autoarray.operators.over_sampling.iterate.threshold_mask_via_arrays_jit_from",
    "autoarray.operators.over_sampling.iterate.iterated_array_jit_from",
    "autoarray.operators.over_sampling.iterate.OverSamplingIterate.over_sampler_from",
    "autoarray.operators.over_sampling.iterate.OverSamplerIterate.array_at_sub_size_from",
    "autoarray.operators.over_sampling.iterate.OverSamplerIterate.threshold_mask_from",
    "autoarray.operators.over_sampling.iterate.OverSamplerIterate.array_via_func_from",
    "autoarray.structures.grids.uniform_2d.Grid2D.over_sampler",
    "autoarray.dataset.grids.GridsDataset.uniform",
    "autoarray.dataset.grids.GridsDataset.pixelization",
]

# ------------------------------------------------------------------------------------------------ bounds (enumerated)

# per-pixel sub-size maps are given as a pattern over NATIVE pixel positions; the slim map is the pattern read at the
# unmasked pixels.  "uN" = uniform N (passed as a python int to the classes), "mX" = per-pixel map (passed as Array2D).
PATTERNS = {
    "u1": lambda y, x: 1, "u2": lambda y, x: 2, "u3": lambda y, x: 3, "u4": lambda y, x: 4,
    "mA": lambda y, x: 1 + (y + 2 * x) % 3,           # mixes 1,2,3
    "mB": lambda y, x: 1 + (2 * y + x + 1) % 3,       # mixes 1,2,3 (different phase)
    "mC": lambda y, x: (1, 2, 4)[(y + x) % 3],        # mixes 1,2,4
    "m1": lambda y, x: 1,                             # per-pixel map of all ones (Array2D route of the decorator shortcut)
    "m2": lambda y, x: 2 + (y + x) % 2,               # mixes 2,3 (no ones)
}

# geometry configurations: every float operation the repo performs on these concrete scales with sub-sizes 1..4 is exact
# (scale/3, scale/2, scale/4 are dyadic), so the uninterpreted user function sees bit-identical points in the real-number
# model and in float64.  "sym" = anisotropic symbolic scales with the origin fixed at (0,0) (keeps the encoding linear).
GEOMS = {
    "g0": (1.5, 3.0),        # symbolic origin, these concrete anisotropic scales
    "g1": (0.75, 6.0),
    "g2": (3.0, 1.5),
    "sym": None,             # symbolic scales in [1/8, 8], origin (0, 0)
    "both": "both",          # symbolic scales in [1/8, 8] AND symbolic origin (non-linear encoding)
}

LISTED_MASKS = {
    # T = masked.  edge-touching, holes, diagonal, single pixels
    "ring4": ["TTTT", "TFFT", "TFFT", "TTTT"],
    "full4": ["FFFF", "FFFF", "FFFF", "FFFF"],
    "diag4": ["FTTT", "TFTT", "TTFT", "TTTF"],
    "edge35": ["FTFTF", "TTFTT", "FFTFF"],
    "hole5": ["TTTTT", "TFFFT", "TFTFT", "TFFFT", "TTTTT"],
    "corner33": ["FTT", "TTT", "TTF"],
    "one33": ["TTT", "TFT", "TTT"],
    "one23": ["TTT", "TTF"],
    "two23": ["TFT", "FTT"],
    "two13": ["FTF"],
    "three33": ["FTT", "TFT", "TFF"],
    "row14": ["FFTF"],
}


def listed_mask(name):
    return np.array([[c == "T" for c in row] for row in LISTED_MASKS[name]], dtype=bool)


BOUNDS = {
    "quick": "masks: every mask (>=1 unmasked pixel) of every shape with H,W <= 3 (and 1x4, 4x1) at kernel level and H,W <= 3, H*W <= 6 at class/decorator level "
             "(one path per mask) plus the listed 3x3/3x5/4x4/5x5 masks (ring, full, diagonal, edge-touching, hole, corners); sub-size maps (concrete): uniform 1,2,3 "
             "and per-pixel maps mixing {1,2,3}, {2,3} and all-ones; geometry (one configuration per enumerated case, cycled; both-symbolic on a listed subset incl. all masks of 3x3 kernels / 2x3 sampler / 3x2 decorator, single-pixel iterate): symbolic origin with concrete anisotropic scales "
             "(1.5,3.0)/(0.75,6.0)/(3.0,1.5), or symbolic anisotropic scales in [1/8,8] with origin (0,0), or both symbolic (affine coefficients concrete there); sub-values and affine coefficients: symbolic reals; user function: uninterpreted f(y,x); "
             "each sampler/decorator case runs a 3-step history (two origins, two scale pairs) in one process; decorator routes: Grid2D.from_mask / Grid2D.uniform / Grid2D(values=symbolic) / GridsDataset.uniform / GridsDataset.pixelization / Grid2DOverSampled; "
             "integer / bool valued sub-values and user functions: every 0/1 (resp. -1/+1) pattern of up to 8 (thorough 13) sub-values on 1-2 pixel masks; "
             "iterate: schedules [2,3],[2,4],[3,2],[2,3,4],[2,2,3] on listed masks with 1-2 unmasked pixels (sampler and decorator routes), fractional accuracy symbolic in (0,1], "
             "absolute tolerance unset or symbolic >= 0",
    "thorough": "as quick with every mask of shapes H,W <= 4, H*W <= 12 (kernels) / H,W <= 3 (classes, decorator), uniform sub-size 4 and maps mixing {1,2,4}, "
                "iterate schedules additionally [2,4,8],[2,3,4] (2 pixels),[4,2,3],[3,4],[2],[1,2] (masks with 1-2 unmasked pixels)",
}
OUTSIDE = [
    "shapes / masks beyond the listed bounds, sub-sizes above 4 (8 only inside the thorough iterate schedule)",
    "pixel scales outside [1/8, 8]; each enumerated (shape, sub-size map, route) case is decided under one of the five geometry configurations, not under all of them",
    "OverSamplingUniform.from_radial_bins / from_adaptive_scheme / from_adapt (config driven sub-size choice) and the decorator's "
    "`over_sampling is None` branch, which reads sub-size lists from the workspace config",
    "float64 rounding (a non-dyadic 1/sub_size^2 such as 1/9 enters as the exact rational of its float64 value in both the code and the reference)",
    "iterate: inputs where a compared level value is exactly 0 while the previous one is positive (division domain), fractional_accuracy None or outside (0,1]",
]
STUBS = [
    "user function f(y,x): z3 uninterpreted function (no contract: this is 'for every function'); on replay / validation it is the finite table "
    "of the solver model (nearest point within 1e-6, a fixed smooth fallback elsewhere)",
]
ASSUMPTIONS = [
    "mask bits explored by forking (one path per mask); sub-size maps, shapes and schedules enumerated",
    "symbolic pixel scales lie in [1/8, 8]",
    "iterate: 0 < fractional_accuracy <= 1, relative_accuracy >= 0; divisions lower/higher add 'higher != 0' to the path (engine division domain)",
    "iterate, masks with 2 pixels: a per-pixel obligation is first decided under the sub-set of the path condition that shares user-function values "
    "with it (cone of influence; dropping hypotheses is sound for 'holds'), and under the full path condition only if that is not unsat",
    "every sampler / decorator body is a three-step history in one process: A (origin, scales), B (same bits, scales, sub-sizes, another symbolic origin), "
    "C (B's origin, other scales); all clauses are checked for A, B and C; in B and C a per-pixel sub-size map is an Array2D stored on a mask with A's geometry.  Iterate bodies are preceded by uniform over-samplings of the same mask at a "
    "shifted origin for every level of the schedule",
    "one body execution = one fresh interpreter: module-level mutable state (dicts, lists, sets, lru caches) of autoarray.operators.over_sampling.*, "
    "structures.grids.uniform_2d, structures.decorators, dataset.grids, mask.mask_2d is restored to its import-time content before each body",
    "proxies get a constant __hash__ (POST_INSTALL) so that dict / tuple keys holding pixel scales or sub sizes are compared with the symbolic == (path decision)",
    "iterate counterexamples are preferably taken 1e-4 away from every decision boundary of the scheme so that the float64 replay is stable; the "
    "'holds' verdicts themselves carry no such margin",
]
EXPLORER_OPTS = {"timeout_ms": 20000, "max_paths": 100000}
BUDGET_S = {"quick": 600, "thorough": 2300}


def POST_INSTALL():
    import sys
    import autoarray.dataset.grids  # noqa  (hashed in FUNCTIONS)
    sys.set_int_max_str_digits(0)    # solver models may contain very long numerals
    # repository code may use pixel scales / sub sizes inside dict or tuple keys (memo tables): proxies get a constant hash so
    # that key equality is decided by the symbolic == (a path decision) instead of raising "unhashable"
    V.SymReal.__hash__ = lambda self: 7919
    V.SymInt.__hash__ = lambda self: 7919
    fresh_process()


def _known_ids():
    return [k for k in os.environ.get("VERIF_KNOWN", "").split(",") if k]


# ------------------------------------------------------------------------------------------------ one body call = one fresh process

STATE_MODULES = ("autoarray.operators.over_sampling", "autoarray.structures.grids.uniform_2d", "autoarray.dataset.grids",
                 "autoarray.structures.decorators", "autoarray.mask.mask_2d")
_SNAP = {}


def fresh_process():
    """Every execution of a body (one symbolic path, one native validation run, one replay) stands for a history that starts in a
    fresh interpreter.  The worker processes are reused for thousands of paths, so module-level mutable state of the modules under
    test (memo dictionaries, lists, sets, lru caches) is put back to its import-time content before each body; within one body
    the state evolves as in the real process (that is what the two/three-step histories exercise)."""
    import sys
    for name, mod in list(sys.modules.items()):
        if mod is None or not any(name == m or name.startswith(m + ".") for m in STATE_MODULES):
            continue
        for k, val in list(vars(mod).items()):
            if k.startswith("__"):
                continue
            if isinstance(val, (dict, list, set)):
                key = (name, k)
                if key not in _SNAP:
                    _SNAP[key] = (val, val.copy())
                obj, content = _SNAP[key]
                if obj is val:
                    if isinstance(val, list):
                        val[:] = content
                    else:
                        val.clear()
                        val.update(content)
            elif callable(getattr(val, "cache_clear", None)):
                try:
                    val.cache_clear()
                except Exception:  # noqa
                    pass


# ------------------------------------------------------------------------------------------------ reference (independent of the repo)

def ref_pixels(mask):
    H, W = mask.shape
    return [(y, x) for y in range(H) for x in range(W) if not mask[y, x]]


def ref_centre(H, W, y, x, sy, sx, oy, ox):
    return oy + ((H - 1) / 2.0 - y) * sy, ox + (x - (W - 1) / 2.0) * sx


def ref_subpoints(H, W, y, x, n, sy, sx, oy, ox):
    """centres of the uniform n x n partition of pixel (y,x), top-to-bottom then left-to-right"""
    cy, cx = ref_centre(H, W, y, x, sy, sx, oy, ox)
    top, left = cy + sy / 2.0, cx - sx / 2.0
    return [(top - (2 * a + 1) * sy / (2.0 * n), left + (2 * b + 1) * sx / (2.0 * n)) for a in range(n) for b in range(n)]


def ref_mean(vals, n):
    """arithmetic mean of the n*n sub-values (weight 1/n^2 as a float64 constant: exact for n=1,2,4, the float nearest 1/9 for n=3)"""
    w = 1.0 / (n * n)
    acc = 0.0
    for v in vals:
        acc = acc + v * w
    return acc


def sub_map(mask, pattern):
    return [PATTERNS[pattern](y, x) for (y, x) in ref_pixels(mask)]


# ------------------------------------------------------------------------------------------------ user function

FALLBACK = lambda y, x: 0.371 + 0.173 * y - 0.291 * x + 0.057 * y * x   # noqa  (replay only: a point the model never mentions)


class UserF:
    """the 'user function': an uninterpreted f(y,x) on proxies (every call is recorded into the table that is part of the
    case inputs), a table lookup on floats (model values of exactly those calls)."""

    def __init__(self, table):
        self.table = table
        self.symbolic = V._CTX[0] is not None
        self._seen = {}
        if not self.symbolic:
            self.pts = np.array([[float(r[0]), float(r[1])] for r in table], dtype=float).reshape(-1, 2)
            self.vals = np.array([float(r[2]) for r in table], dtype=float)

    def __call__(self, y, x):
        if self.symbolic:
            f = V.ctx().uf("f", 2)
            ty, tx = V.to_real_term(y), V.to_real_term(x)
            t = f(ty, tx)
            key = t.get_id()
            if key not in self._seen:
                self._seen[key] = True
                self.table.append([V.SymReal(ty), V.SymReal(tx), V.SymReal(t)])
            return V.SymReal(t)
        y, x = float(y), float(x)
        if len(self.vals):
            d = np.abs(self.pts[:, 0] - y) + np.abs(self.pts[:, 1] - x)
            k = int(np.argmin(d))
            if d[k] <= 1e-6:
                return float(self.vals[k])
        return FALLBACK(y, x)

    def on_grid(self, grid):
        g = hx.unwrap(grid)
        g = np.asarray(g)
        return np.array([self(g[i, 0], g[i, 1]) for i in range(g.shape[0])], dtype=object if self.symbolic else float)


def make_profile(F):
    """mock profile in the style of autoarray.structures.mock.mock_decorators, decorated with the REAL decorators"""
    from autoarray.operators.over_sampling.decorator import over_sample
    from autoarray.structures import decorators

    class UFProfile:
        centre = (0.0, 0.0)

        @over_sample
        @decorators.to_array
        def image_2d_from(self, grid, *args, **kwargs):
            return F.on_grid(grid)

    return UFProfile()


def plain_func(F):
    def func(obj, grid, *args, **kwargs):
        return F.on_grid(grid)
    return func


# ------------------------------------------------------------------------------------------------ shared set-up

def _geom_inputs(ctx, geom):
    """(origin, scales) proxies/concretes for a geometry configuration"""
    if GEOMS[geom] is None or GEOMS[geom] == "both":
        sy, sx = V.real("sy"), V.real("sx")
        lo, hi = V.rval(0.125), V.rval(8.0)
        ctx.assume(z3.And(sy.t >= lo, sy.t <= hi, sx.t >= lo, sx.t <= hi))
        if GEOMS[geom] is None:
            return [0.0, 0.0], [sy, sx]
        return [V.real("oy"), V.real("ox")], [sy, sx]
    sy, sx = GEOMS[geom]
    return [V.real("oy"), V.real("ox")], [float(sy), float(sx)]


def _mask_for(ctx, H, W, mask_name):
    if mask_name:
        return listed_mask(mask_name)
    m = V.bool_array("m", (H, W))
    ctx.assume(z3.Or(*[z3.Not(b.t) for b in m.reshape(-1)]))
    return ctx.concrete_bools(m)


def _cap(H, W, pattern):
    return sum(PATTERNS[pattern](y, x) ** 2 for y in range(H) for x in range(W))


def _shape(H, W, mask_name):
    if mask_name:
        m = listed_mask(mask_name)
        return m.shape
    return H, W


# ------------------------------------------------------------------------------------------------ (1) kernels

def body_kernels(inp, H, W, pattern):
    fresh_process()
    from autoarray.operators.over_sampling import over_sample_util as ou
    mask = np.array(inp["mask"], dtype=bool).reshape(H, W)
    oy, ox = inp["origin"]
    sy, sx = inp["scales"]
    pos = ref_pixels(mask)
    subs = sub_map(mask, pattern)
    sub_size = np.array(subs).astype("int")
    total = sum(n * n for n in subs)
    v = np.asarray(inp["v"]).reshape(-1)[:total]
    A, E = {}, {}
    A["total_sub_pixels"] = hx.attempt(ou.total_sub_pixels_2d_from, sub_size=sub_size)
    E["total_sub_pixels"] = total
    A["grid"] = hx.attempt(ou.grid_2d_slim_over_sampled_via_mask_from, mask_2d=mask, pixel_scales=(sy, sx), sub_size=sub_size, origin=(oy, ox))
    pts = []
    for (y, x), n in zip(pos, subs):
        pts.extend(ref_subpoints(H, W, y, x, n, sy, sx, oy, ox))
    E["grid"] = np.array([[p[0], p[1]] for p in pts], dtype=object).reshape(total, 2)
    A["binned"] = hx.attempt(ou.binned_array_2d_from, array_2d=v, mask_2d=mask, sub_size=sub_size)
    eb, k = [], 0
    for n in subs:
        eb.append(ref_mean([v[k + i] for i in range(n * n)], n))
        k += n * n
    E["binned"] = np.array(eb, dtype=object)
    A["slim_for_sub_slim"] = hx.attempt(ou.slim_index_for_sub_slim_index_via_mask_2d_from, mask_2d=mask, sub_size=sub_size)
    E["slim_for_sub_slim"] = np.array([float(i) for i, n in enumerate(subs) for _ in range(n * n)], dtype=float)
    if pattern.startswith("u"):
        n = subs[0]
        A["sub_native_for_sub_slim"] = hx.attempt(ou.native_sub_index_for_slim_sub_index_2d_from, mask_2d=mask, sub_size=sub_size)
        E["sub_native_for_sub_slim"] = np.array([[y * n + a, x * n + b] for (y, x) in pos for a in range(n) for b in range(n)], dtype=float).reshape(total, 2)
        A["oversample_mask"] = hx.attempt(ou.oversample_mask_2d_from, mask=mask, sub_size=n)
        E["oversample_mask"] = np.array([[bool(mask[yy // n, xx // n]) for xx in range(W * n)] for yy in range(H * n)], dtype=bool)
    return A, E


def case_kernels(ctx, H, W, pattern, geom, mask_name=None):
    H, W = _shape(H, W, mask_name)
    mask = _mask_for(ctx, H, W, mask_name)
    origin, scales = _geom_inputs(ctx, geom)
    ctx.set_case(mask=mask.tolist())
    inputs = {"mask": mask, "origin": origin, "scales": scales, "v": V.real_array("v", (_cap(H, W, pattern),))}
    hx.run_body(ctx, body_kernels, inputs, {"H": H, "W": W, "pattern": pattern}, validate_every=32)


# ------------------------------------------------------------------------------------------------ (2) OverSamplerUniform

def _map_mask(aa, m, mask, map_geom):
    """the Mask2D object a per-pixel sub-size map (Array2D) is stored on: the sampler's own mask in step A; in steps B / C a mask with
    the same bits but step A's origin / pixel scales (a map made for one geometry re-used for a shifted / re-scaled mask, as
    Grid2D.subtracted_from or a map from Array2D.no_mask do) - the sampler must partition the pixels of the mask IT is given"""
    if map_geom is None:
        return m
    _, (oy, ox), (sy, sx) = map_geom
    return aa.Mask2D(mask=mask, pixel_scales=(sy, sx), origin=(oy, ox))


def _sampler_sub_size(aa, m, mask, pattern):
    subs = sub_map(mask, pattern)
    if pattern.startswith("u"):
        return subs[0] if subs else PATTERNS[pattern](0, 0)
    return aa.Array2D(values=np.array(subs), mask=m)


def history(inp):
    """three over-samplings in ONE process: A = (origin, scales); B = same bits / scales / sub-sizes, another origin;
    C = B's origin, other scales.  Every clause is checked for each of them (state carried between over-samplers -
    memo tables, class-level caches - must not leak from one mask into the next)."""
    return [("", inp["origin"], inp["scales"]), ("B:", inp["origin2"], inp["scales"]), ("C:", inp["origin2"], inp["scales2"])]


def _history_inputs(ctx, geom, inputs):
    if GEOMS[geom] is None or GEOMS[geom] == "both":
        sy2, sx2 = V.real("sy2"), V.real("sx2")
        lo, hi = V.rval(0.125), V.rval(8.0)
        ctx.assume(z3.And(sy2.t >= lo, sy2.t <= hi, sx2.t >= lo, sx2.t <= hi))
        inputs["scales2"] = [sy2, sx2]
        inputs["origin2"] = [0.0, 0.0] if GEOMS[geom] is None else [V.real("oy2"), V.real("ox2")]
    else:
        nxt = {"g0": "g1", "g1": "g2", "g2": "g0"}[geom]
        inputs["scales2"] = [float(GEOMS[nxt][0]), float(GEOMS[nxt][1])]
        inputs["origin2"] = [V.real("oy2"), V.real("ox2")]
    return inputs


def body_sampler(inp, H, W, pattern):
    fresh_process()
    A, E = {}, {}
    hist = history(inp)
    for tag, (oy, ox), (sy, sx) in hist:
        a, e = _sampler_step(inp, H, W, pattern, oy, ox, sy, sx, map_geom=None if tag == "" else hist[0])
        for k in e:
            E[tag + k] = e[k]
            if k in a:
                A[tag + k] = a[k]
    return A, E


def _sampler_step(inp, H, W, pattern, oy, ox, sy, sx, map_geom=None):
    import autoarray as aa
    mask = np.array(inp["mask"], dtype=bool).reshape(H, W)
    a0, a1, a2 = inp["affine"]
    pos = ref_pixels(mask)
    subs = sub_map(mask, pattern)
    total = sum(n * n for n in subs)
    v = np.asarray(inp["v"]).reshape(-1)[:total]
    F = UserF(inp["ftab"])
    m = aa.Mask2D(mask=mask, pixel_scales=(sy, sx), origin=(oy, ox))
    A, E = {}, {}
    s = hx.attempt(lambda: aa.OverSamplerUniform(mask=m, sub_size=_sampler_sub_size(aa, _map_mask(aa, m, mask, map_geom), mask, pattern)))
    if isinstance(s, hx.Raised):
        return {"constructed": s}, {"constructed": "no exception"}
    pts, owner = [], []
    for i, ((y, x), n) in enumerate(zip(pos, subs)):
        p = ref_subpoints(H, W, y, x, n, sy, sx, oy, ox)
        pts.extend(p)
        owner.extend([i] * len(p))
    A["over_sampled_grid"] = hx.attempt(lambda: s.over_sampled_grid.array)
    E["over_sampled_grid"] = np.array([[p[0], p[1]] for p in pts], dtype=object).reshape(total, 2)
    A["sub_total"] = hx.attempt(lambda: s.sub_total)
    E["sub_total"] = total
    A["slim_for_sub_slim"] = hx.attempt(lambda: np.asarray(s.slim_for_sub_slim))
    E["slim_for_sub_slim"] = np.array(owner, dtype=float)

    def means(vals):
        out, k = [], 0
        for n in subs:
            out.append(ref_mean([vals[k + i] for i in range(n * n)], n))
            k += n * n
        return np.array(out, dtype=object)

    b = hx.attempt(lambda: s.binned_array_2d_from(array=v))
    A["binned.slim"] = hx.attempt(lambda: b.slim.array) if not isinstance(b, hx.Raised) else b
    E["binned.slim"] = means(v)
    A["binned.native"] = hx.attempt(lambda: b.native.array) if not isinstance(b, hx.Raised) else b
    en = np.zeros((H, W), dtype=object)
    for i, p in enumerate(pos):
        en[p] = E["binned.slim"][i]
    E["binned.native"] = en
    # constants and affine functions of position are reproduced exactly at the pixel centres
    grid = A["over_sampled_grid"]
    if not isinstance(grid, hx.Raised):
        aff = np.array([a0 + a1 * grid[k, 0] + a2 * grid[k, 1] for k in range(total)], dtype=object)
        ba = hx.attempt(lambda: s.binned_array_2d_from(array=aff).slim.array)
        A["affine_reproduced_at_centres"] = ba
        cen = [ref_centre(H, W, y, x, sy, sx, oy, ox) for (y, x) in pos]
        E["affine_reproduced_at_centres"] = np.array([a0 + a1 * c[0] + a2 * c[1] for c in cen], dtype=object)
    # any user function through array_via_func_from = binned f over the reference sub-points
    r = hx.attempt(lambda: s.array_via_func_from(plain_func(F), object()).slim.array)
    A["array_via_func"] = r
    E["array_via_func"] = means([F(p[0], p[1]) for p in pts])
    r2 = hx.attempt(lambda: s.array_via_func_from(lambda grid, *a, **k: F.on_grid(grid), None).slim.array)
    A["array_via_func_obj_none"] = r2
    E["array_via_func_obj_none"] = E["array_via_func"]
    # areas
    ar = hx.attempt(lambda: s.sub_pixel_areas)
    A["sub_pixel_areas"] = ar
    E["sub_pixel_areas"] = np.array([sy * sx / (n * n) for n in subs for _ in range(n * n)], dtype=object)
    if not isinstance(ar, hx.Raised):
        acc = 0.0
        for e in np.asarray(ar).reshape(-1):
            acc = acc + e
        A["areas_sum_to_unmasked_area"] = acc
        E["areas_sum_to_unmasked_area"] = len(pos) * sy * sx
    A["sub_fraction"] = hx.attempt(lambda: s.sub_fraction.array)
    E["sub_fraction"] = np.array([1.0 / (n * n) for n in subs], dtype=float)
    if pattern.startswith("u"):
        n = PATTERNS[pattern](0, 0)
        A["sub_mask_native_for_sub_mask_slim"] = hx.attempt(lambda: np.asarray(s.sub_mask_native_for_sub_mask_slim))
        E["sub_mask_native_for_sub_mask_slim"] = np.array([[y * n + a, x * n + b] for (y, x) in pos for a in range(n) for b in range(n)], dtype=float).reshape(total, 2)
    return A, E


TOL = {t + k: 1e-9 for t in ("", "B:", "C:") for k in ("sub_pixel_areas", "areas_sum_to_unmasked_area", "affine_reproduced_at_centres")}


def case_sampler(ctx, H, W, pattern, geom, mask_name=None):
    H, W = _shape(H, W, mask_name)
    mask = _mask_for(ctx, H, W, mask_name)
    origin, scales = _geom_inputs(ctx, geom)
    ctx.set_case(mask=mask.tolist())
    inputs = {"mask": mask, "origin": origin, "scales": scales, "v": V.real_array("v", (_cap(H, W, pattern),)),
              "affine": [V.real("a0"), V.real("a1"), V.real("a2")] if geom != "both" else [0.5, 2.0, -1.5], "ftab": []}
    _history_inputs(ctx, geom, inputs)
    hx.run_body(ctx, body_sampler, inputs, {"H": H, "W": W, "pattern": pattern}, validate_every=16, tol=TOL)


# ------------------------------------------------------------------------------------------------ (3) the over_sample decorator

def body_decorator(inp, H, W, pattern, route):
    fresh_process()
    A, E = {}, {}
    hist = history(inp)
    for tag, (oy, ox), (sy, sx) in hist:
        a, e = _decorator_step(inp, H, W, pattern, route, oy, ox, sy, sx, map_geom=None if tag == "" else hist[0])
        for k in e:
            E[tag + k] = e[k]
            if k in a:
                A[tag + k] = a[k]
    return A, E


def _decorator_step(inp, H, W, pattern, route, oy, ox, sy, sx, map_geom=None):
    import autoarray as aa
    from autoarray.operators.over_sampling.grid_oversampled import Grid2DOverSampled
    mask = np.array(inp["mask"], dtype=bool).reshape(H, W)
    pos = ref_pixels(mask)
    subs = sub_map(mask, pattern)
    F = UserF(inp["ftab"])
    prof = make_profile(F)
    m = aa.Mask2D(mask=mask, pixel_scales=(sy, sx), origin=(oy, ox))
    over = aa.OverSamplingUniform(sub_size=_sampler_sub_size(aa, _map_mask(aa, m, mask, map_geom), mask, pattern))
    A, E = {}, {}
    if route == "from_mask":
        mk = lambda: aa.Grid2D.from_mask(mask=m, over_sampling=over)
    elif route == "uniform":
        mk = lambda: aa.Grid2D.uniform(shape_native=(H, W), pixel_scales=(sy, sx), origin=(oy, ox), over_sampling=over)
    elif route == "values":
        # a Grid2D built from explicit values (here: arbitrary symbolic coordinates) with over_sampling attached:
        # the over-sampled evaluation is defined by the mask's pixels, not by the stored coordinates
        mk = lambda: aa.Grid2D(values=np.asarray(inp["gv"]).reshape(-1, 2)[:len(pos)], mask=m, over_sampling=over)
    elif route == "dataset":
        from autoarray.dataset.grids import GridsDataset
        from autoarray.dataset.over_sampling import OverSamplingDataset
        mk = lambda: GridsDataset(mask=m, over_sampling=OverSamplingDataset(uniform=over, pixelization=over)).uniform
    elif route == "dataset_pix":
        from autoarray.dataset.grids import GridsDataset
        from autoarray.dataset.over_sampling import OverSamplingDataset
        mk = lambda: GridsDataset(mask=m, over_sampling=OverSamplingDataset(uniform=aa.OverSamplingUniform(sub_size=1), pixelization=over)).pixelization
    elif route == "oversampled":
        def mk():
            s = over.over_sampler_from(mask=m)
            return Grid2DOverSampled(grid=s.over_sampled_grid, over_sampler=s, pixels_in_mask=len(pos))
    else:
        raise ValueError(route)
    if route == "uniform" and mask.any():
        return {}, {}
    g = hx.attempt(mk)
    if isinstance(g, hx.Raised):
        return {"grid_constructed": g}, {"grid_constructed": "no exception"}
    r = hx.attempt(lambda: prof.image_2d_from(g))
    exp = []
    for (y, x), n in zip(pos, subs):
        exp.append(ref_mean([F(p[0], p[1]) for p in ref_subpoints(H, W, y, x, n, sy, sx, oy, ox)], n))
    A["decorated.slim"] = hx.attempt(lambda: r.slim.array) if not isinstance(r, hx.Raised) else r
    E["decorated.slim"] = np.array(exp, dtype=object)
    A["decorated.native"] = hx.attempt(lambda: r.native.array) if not isinstance(r, hx.Raised) else r
    en = np.zeros((H, W), dtype=object)
    for i, p in enumerate(pos):
        en[p] = exp[i]
    E["decorated.native"] = en
    # second call on the same grid object (cached over-sampler / cached sub-grid are reused)
    r2 = hx.attempt(lambda: prof.image_2d_from(g))
    A["decorated_again.slim"] = hx.attempt(lambda: r2.slim.array) if not isinstance(r2, hx.Raised) else r2
    E["decorated_again.slim"] = E["decorated.slim"]
    return A, E


def case_decorator(ctx, H, W, pattern, geom, route, mask_name=None):
    H, W = _shape(H, W, mask_name)
    mask = _mask_for(ctx, H, W, mask_name)
    origin, scales = _geom_inputs(ctx, geom)
    ctx.set_case(mask=mask.tolist())
    inputs = {"mask": mask, "origin": origin, "scales": scales, "ftab": []}
    if route == "values":
        inputs["gv"] = V.real_array("gv", (H * W, 2))
    _history_inputs(ctx, geom, inputs)
    hx.run_body(ctx, body_decorator, inputs, {"H": H, "W": W, "pattern": pattern, "route": route}, validate_every=16)


# ------------------------------------------------------------------------------------------------ (4) iterative scheme

def _ite(c, a, b):
    if isinstance(c, V.SymBool):
        return shim._ite(c, a, b)
    return a if c else b


def ref_meets(prev, cur, thr, rel):
    """agreement of two successive levels: ratio of the smaller to the larger value (only defined when the previous value is
    positive; a non-positive current value gives a non-positive ratio) >= thr, and |prev - cur| <= rel when rel is set"""
    both_pos = (prev > 0) & (cur > 0)
    ratio_ok = ((prev <= cur) & (prev >= thr * cur)) | ((prev > cur) & (cur >= thr * prev))
    ok = both_pos & ratio_ok
    if rel is not None:
        d = prev - cur
        ok = ok & (d <= rel) & (-d <= rel)
    return ok


def ref_iterated(vals, thr, rel):
    """vals: binned values at levels [1] + schedule.  first level (not the last) that agrees with its predecessor, else the last"""
    res = vals[-1]
    for i in range(len(vals) - 2, 0, -1):
        res = _ite(ref_meets(vals[i - 1], vals[i], thr, rel), vals[i], res)
    return res


def body_iterate(inp, H, W, steps, rel_set, route):
    import autoarray as aa
    mask = np.array(inp["mask"], dtype=bool).reshape(H, W)
    oy, ox = inp["origin"]
    sy, sx = inp["scales"]
    thr = inp["thr"][0]
    rel = inp["rel"][0] if rel_set else None
    pos = ref_pixels(mask)
    F = UserF(inp["ftab"])
    fresh_process()
    # history: the same mask bits / scales / sub-sizes were over-sampled earlier in this process at ANOTHER origin
    m0 = aa.Mask2D(mask=mask, pixel_scales=(sy, sx), origin=(oy + 0.5, ox - 0.25))
    for n in [1] + list(steps):
        hx.attempt(lambda: aa.OverSamplerUniform(mask=m0, sub_size=n).over_sampled_grid)
    m = aa.Mask2D(mask=mask, pixel_scales=(sy, sx), origin=(oy, ox))
    A, E = {}, {}
    if route == "sampler":
        run = lambda: aa.OverSamplerIterate(mask=m, fractional_accuracy=thr, relative_accuracy=rel, sub_steps=list(steps)) \
            .array_via_func_from(plain_func(F), object())
    else:
        prof = make_profile(F)
        over = aa.OverSamplingIterate(fractional_accuracy=thr, relative_accuracy=rel, sub_steps=list(steps))
        run = lambda: prof.image_2d_from(aa.Grid2D.from_mask(mask=m, over_sampling=over))
    r = hx.attempt(run)
    sl = hx.attempt(lambda: r.slim.array) if not isinstance(r, hx.Raised) else r
    for i, (y, x) in enumerate(pos):
        vals = []
        for n in [1] + list(steps):
            vals.append(ref_mean([F(p[0], p[1]) for p in ref_subpoints(H, W, y, x, n, sy, sx, oy, ox)], n))
        A["iterated_px%d" % i] = sl if isinstance(sl, hx.Raised) else (sl[i] if len(sl) > i else hx.Raised("IndexError"))
        E["iterated_px%d" % i] = ref_iterated(vals, thr, rel)
    A["length"] = sl if isinstance(sl, hx.Raised) else len(sl)
    E["length"] = len(pos)
    return A, E


MARGIN = 1e-4


def _absge(t, d):
    return z3.Or(t >= d, t <= -d)


def ref_margins(vals, thr, rel):
    """z3 terms saying that every real-valued decision of the scheme for one pixel is MARGIN away from its boundary (used only to pick
    float-robust models: validation points and counterexample candidates; the obligations themselves are also decided without it)"""
    d = V.rval(MARGIN)
    out = []
    v = [V.to_real_term(x) for x in vals]
    t = V.to_real_term(thr)
    out.append(z3.Or(v[0] == 0, _absge(v[0], d)))
    for j in range(1, len(v) - 1):
        out.append(_absge(v[j], d))
        out.append(_absge(v[j - 1] - t * v[j], d))
        out.append(_absge(v[j] - t * v[j - 1], d))
        if rel is not None:
            r = V.to_real_term(rel)
            out.append(_absge(v[j - 1] - v[j] - r, d))
            out.append(_absge(v[j] - v[j - 1] - r, d))
    return out


def _validate_with(ctx, body, inputs, kwargs, actual_sym, extra, every, tol=1e-6):
    """hx.validate with the model restricted by `extra` (float-robust point of the path)"""
    n = ctx.stats.paths + 1
    if every > 1 and n % every != 0 and n > 3:
        return
    r0, _ = ctx.twin()
    if r0 == "unsat":
        raise hx.PathAbort()
    r, m = ctx._check(*extra)
    if r != "sat":
        return            # this path has no robust interior point (or the solver gave up): nothing to cross-validate
    conc = hx.to_float_struct({k: ctx.model_value(m, v) for k, v in inputs.items()})
    with shim.native():
        old = V._CTX[0]
        V._CTX[0] = None
        try:
            act_c, _ = body(conc, **kwargs)
        except Exception as e:  # noqa
            act_c = {"__raised__": hx.Raised(e)}
        finally:
            V._CTX[0] = old
    for k, v in actual_sym.items():
        if "__raised__" in act_c:
            ctx.stats.errors.append("validation: native run raised %r" % act_c["__raised__"])
            ctx.stats.validation_mismatch += 1
            return
        sv = hx.eval_struct(ctx, m, v) if not isinstance(v, (hx.Raised, str)) and v is not None else v
        if k not in act_c or not hx.concrete_equal(sv, act_c[k], tol):
            ctx.stats.errors.append("validation mismatch on %s: symbolic=%s native=%s case=%s" % (k, hx._short(sv), hx._short(act_c.get(k)), str(ctx.case_info)[:200]))
            ctx.stats.validation_mismatch += 1
            return
    ctx.stats.validated += 1


def _fapps(t, acc):
    """ids of the applications f(y,x) of the user function inside a z3 term"""
    todo, seen = [t], set()
    while todo:
        x = todo.pop()
        i = x.get_id()
        if i in seen:
            continue
        seen.add(i)
        if z3.is_app(x):
            if x.num_args() == 2 and x.decl().name() == "f":
                acc.add(i)
            todo.extend(x.children())
    return acc


def _holds_on_cone(ctx, terms):
    """cone-of-influence pre-check of a per-pixel obligation: decide it under only those path constraints that do not mention
    the user function at another pixel's points.  Dropping path constraints weakens the hypothesis, so `unsat` here implies
    `unsat` under the full path condition (pixels are independent; without this z3's nlsat wanders through the other pixels)."""
    import time
    support = set()
    terms = [z3.simplify(t) for t in terms]      # path constraints are stored simplified: same normal form of f's arguments
    for t in terms:
        _fapps(t, support)
    cf = [(c, _fapps(c, set())) for c in ctx.constraints]
    changed = True
    while changed:                      # closure: constraints that share a user-function value with the obligation's cone
        changed = False
        for c, fa in cf:
            if fa and (fa & support) and not fa <= support:
                support |= fa
                changed = True
    keep = [c for c, fa in cf if fa <= support]
    s = z3.Solver()
    s.set("timeout", ctx.timeout_ms)
    s.add(*keep)
    s.push()                            # same incremental SMT core as the explorer's path solver (better than nlsat on UF + products)
    s.add(z3.Not(z3.And(*terms)))
    t0 = time.time()
    r = str(s.check())
    if os.environ.get("C09_DEBUG"):
        print("  cone check: %d of %d constraints -> %s in %.1fs" % (len(keep), len(cf), r, time.time() - t0), flush=True)
    ctx.stats.queries += 1
    ctx.stats.solver_time += time.time() - t0
    if r == "unsat":
        ctx.stats.obligations += 1
        ctx.stats.discharged += 1
        return True
    return False


def case_iterate(ctx, mask_name, steps, geom, rel_set, route="sampler"):
    mask = listed_mask(mask_name)
    H, W = mask.shape
    origin, scales = _geom_inputs(ctx, geom)
    thr, rel = V.real("thr"), V.real("rel")
    ctx.assume(z3.And(thr.t > 0, thr.t <= 1, rel.t >= 0))
    ctx.set_case(mask=mask.tolist())
    inputs = {"mask": mask, "origin": origin, "scales": scales, "thr": [thr], "rel": [rel], "ftab": []}
    kw = {"H": H, "W": W, "steps": list(steps), "rel_set": rel_set, "route": route}
    ctx.set_inputs(**inputs)
    actual, expected = body_iterate(inputs, **kw)
    pos = ref_pixels(mask)
    F = UserF(inputs["ftab"])
    region = None
    if "iterate-all-zero-early-exit" in _known_ids():
        region = z3.And(*[V.to_real_term(F(*ref_centre(H, W, y, x, scales[0], scales[1], origin[0], origin[1]))) == 0 for (y, x) in pos])
    all_margins = []
    for i, (y, x) in enumerate(pos):
        vals = [ref_mean([F(p[0], p[1]) for p in ref_subpoints(H, W, y, x, n, scales[0], scales[1], origin[0], origin[1])], n) for n in [1] + list(steps)]
        mg = ref_margins(vals, thr, rel if rel_set else None)
        all_margins.extend(mg)
        k = "iterated_px%d" % i
        terms = hx.eq_terms(actual[k], expected[k])
        terms = [t if not isinstance(t, (bool, np.bool_)) else z3.BoolVal(bool(t)) for t in terms]
        known = {"iterate-all-zero-early-exit": region} if region is not None else None
        # the full claim in exact real arithmetic (decision boundaries included)
        if len(pos) > 1 and _holds_on_cone(ctx, terms):
            continue
        n_before = len(ctx.stats.candidates)
        if not ctx.check(k, terms, known=known):
            # violated: prefer a counterexample whose decisions are all MARGIN away from their boundaries, because its float64
            # replay is reliable (a model sitting exactly on `ratio == threshold` may flip under rounding).  The candidate just
            # recorded is kept only if no robust one exists.
            plain = [c for c in ctx.stats.candidates[n_before:] if c.known is None]
            for c in plain:
                ctx.stats.candidates.remove(c)
            n_mid = len(ctx.stats.candidates)
            ctx.check(k, z3.Or(z3.And(*terms), z3.Not(z3.And(*mg))), known=known)
            if not [c for c in ctx.stats.candidates[n_mid:] if c.known is None]:
                ctx.stats.candidates.extend(plain)
    hx.check_all(ctx, actual, expected, only={"length"})
    _validate_with(ctx, body_iterate, inputs, kw, actual, all_margins, every=4)


# ------------------------------------------------------------------------------------------------ (5) integer / bool valued sub-values

def body_discrete(inp, H, W, pattern, kind):
    """the binned value is the arithmetic MEAN (a fraction) also when the sub-values / the user function's output live in an integer or
    bool array (indicator, step, sign functions).  The sub-values are solver booleans explored by forking (like mask bits):
    kind "bool" -> values b in a bool array, "int" -> 2b-1 in {-1,+1} in an int64 array, "int32" -> b in an int32 array."""
    import autoarray as aa
    from autoarray.operators.over_sampling import over_sample_util as ou
    from autoarray.operators.over_sampling.decorator import over_sample
    from autoarray.structures import decorators
    fresh_process()
    mask = np.array(inp["mask"], dtype=bool).reshape(H, W)
    oy, ox = inp["origin"]
    sy, sx = inp["scales"]
    pos = ref_pixels(mask)
    subs = sub_map(mask, pattern)
    total = sum(n * n for n in subs)
    bits = [bool(b) for b in np.asarray(inp["bits"]).reshape(-1)[:total]]
    if kind == "bool":
        vals = np.array(bits, dtype=bool)
    elif kind == "int":
        vals = np.array([2 * int(b) - 1 for b in bits], dtype=np.int64)
    else:
        vals = np.array([int(b) for b in bits], dtype=np.int32)
    exp, k = [], 0
    for n in subs:
        exp.append(ref_mean([float(vals[k + i]) for i in range(n * n)], n))
        k += n * n
    exp = np.array(exp, dtype=float)
    m = aa.Mask2D(mask=mask, pixel_scales=(sy, sx), origin=(oy, ox))
    sub_size = _sampler_sub_size(aa, m, mask, pattern)
    A, E = {}, {}
    A["kernel.binned"] = hx.attempt(ou.binned_array_2d_from, array_2d=vals.copy(), mask_2d=mask, sub_size=np.array(subs).astype("int"))
    E["kernel.binned"] = exp
    s = aa.OverSamplerUniform(mask=m, sub_size=sub_size)
    A["binned.ndarray"] = hx.attempt(lambda: s.binned_array_2d_from(array=vals.copy()).slim.array)
    E["binned.ndarray"] = exp
    A["binned.ArrayIrregular"] = hx.attempt(lambda: s.binned_array_2d_from(array=aa.ArrayIrregular(values=vals.copy())).slim.array)
    E["binned.ArrayIrregular"] = exp

    def g(grid):                       # indicator-like user function: its value at the k-th sub-point (slim order) is vals[k]
        assert np.asarray(hx.unwrap(grid)).shape[0] == total
        return vals.copy()

    A["array_via_func"] = hx.attempt(lambda: s.array_via_func_from(lambda obj, grid, *a, **kw: g(grid), object()).slim.array)
    E["array_via_func"] = exp

    class Indicator:
        centre = (0.0, 0.0)

        @over_sample
        @decorators.to_array
        def image_2d_from(self, grid, *args, **kwargs):
            return g(grid)

        @over_sample
        def raw_2d_from(self, grid, *args, **kwargs):
            return g(grid)

    over = aa.OverSamplingUniform(sub_size=sub_size)
    if max(subs) > 1:                  # (an all-ones map is evaluated plainly on the pixel-centre grid: nothing to bin)
        grid = aa.Grid2D.from_mask(mask=m, over_sampling=over)
        A["decorated"] = hx.attempt(lambda: Indicator().image_2d_from(grid).slim.array)
        E["decorated"] = exp
        A["decorated_raw"] = hx.attempt(lambda: Indicator().raw_2d_from(grid).slim.array)
        E["decorated_raw"] = exp
    return A, E


def case_discrete(ctx, mask_name, pattern, geom, kind):
    mask = listed_mask(mask_name)
    H, W = mask.shape
    origin, scales = _geom_inputs(ctx, geom)
    total = sum(n * n for n in sub_map(mask, pattern))
    bits = ctx.concrete_bools(V.bool_array("b", (total,)))
    ctx.set_case(mask=mask.tolist(), bits=bits.tolist())
    inputs = {"mask": mask, "origin": origin, "scales": scales, "bits": bits}
    hx.run_body(ctx, body_discrete, inputs, {"H": H, "W": W, "pattern": pattern, "kind": kind}, validate_every=16)


BODIES = {"case_kernels": body_kernels, "case_sampler": body_sampler, "case_decorator": body_decorator, "case_iterate": body_iterate,
          "case_discrete": body_discrete}


GEOM_CYCLE = ["g0", "sym", "g1", "g2"]


def cases(tier):
    quick = tier == "quick"
    out = []
    # (1) kernels: every mask of the small shapes
    capk = 9 if quick else 12
    for H in range(1, 5):
        for W in range(1, 5):
            if H * W <= capk:
                if quick and H * W == 8:
                    continue             # 2x4 / 4x2 only in the thorough tier
                if quick:
                    pats = ["u2", "mA"] if H * W >= 8 else ["u1", "u2", "u3", "mA", "mB"]
                else:
                    pats = ["u2", "u3", "mA", "mC"] if H * W >= 12 else ["u1", "u2", "u3", "u4", "mA", "mB", "mC"]
                for i, p in enumerate(pats):
                    split = {"split": 3} if H * W >= 12 else ({"split": 2} if H * W >= 9 else None)
                    out.append(("case_kernels", {"H": H, "W": W, "pattern": p, "geom": GEOM_CYCLE[(i + H + W) % 4]}, split))
    out.append(("case_kernels", {"H": 2, "W": 2, "pattern": "mA", "geom": "both"}, {"timeout_ms": 90000}))
    out.append(("case_kernels", {"H": 2, "W": 3, "pattern": "u3", "geom": "both"}, {"timeout_ms": 90000}))
    out.append(("case_kernels", {"H": 3, "W": 3, "pattern": "mA", "geom": "both"}, {"timeout_ms": 90000, "split": 2}))
    for i, mn in enumerate(["ring4", "full4", "diag4", "edge35", "hole5"]):
        for j, p in enumerate(["u2", "u3", "mA"] if quick else ["u1", "u2", "u3", "u4", "mA", "mB", "mC"]):
            out.append(("case_kernels", {"H": 0, "W": 0, "pattern": p, "geom": GEOM_CYCLE[(i + j) % 4], "mask_name": mn}))
    # (2) OverSamplerUniform, (3) decorator: every mask of the small shapes + listed masks
    capc = 6 if quick else 9
    dec = [("u1", "from_mask"), ("u2", "from_mask"), ("u3", "oversampled"), ("mA", "from_mask"), ("mB", "dataset"),
           ("m1", "from_mask"), ("m2", "values"), ("u2", "uniform"), ("mA", "dataset_pix"), ("mA", "oversampled")]
    for H in range(1, 4):
        for W in range(1, 4):
            if H * W <= capc:
                # every body runs a three-step history, so the largest all-mask shapes share the pattern / route lists between
                # them (2x3 takes the even entries, 3x2 the odd ones; 3x3 in the thorough tier every second one)
                big = H * W >= 6
                for i, p in enumerate(["u1", "u2", "u3", "mA", "mB"] + ([] if quick else ["u4", "mC"])):
                    if big and p != "mA" and i % 2 != (H + (1 if H * W == 9 else 0)) % 2:
                        continue
                    out.append(("case_sampler", {"H": H, "W": W, "pattern": p, "geom": GEOM_CYCLE[(i + H + W) % 4]},
                                {"split": 2} if H * W >= 9 else ({"split": 1} if big else None)))
                for i, (p, route) in enumerate(dec + ([] if quick else [("mC", "from_mask"), ("u4", "from_mask")])):
                    if big and i % 2 != H % 2:
                        continue
                    out.append(("case_decorator", {"H": H, "W": W, "pattern": p, "geom": GEOM_CYCLE[(i + H + W) % 4], "route": route},
                                {"split": 2} if H * W >= 9 else None))
    for i, mn in enumerate(["corner33", "three33", "ring4", "edge35"] + ([] if quick else ["diag4", "full4", "hole5"])):
        for j, p in enumerate(["u2", "mA"] if quick else ["u2", "u3", "mA", "mC"]):
            out.append(("case_sampler", {"H": 0, "W": 0, "pattern": p, "geom": GEOM_CYCLE[(i + j + 1) % 4], "mask_name": mn}))
            out.append(("case_decorator", {"H": 0, "W": 0, "pattern": p, "geom": GEOM_CYCLE[(i + j) % 4], "route": "from_mask", "mask_name": mn}))
    out.append(("case_sampler", {"H": 2, "W": 2, "pattern": "mA", "geom": "both"}, {"timeout_ms": 90000}))
    if not quick:
        out.append(("case_sampler", {"H": 2, "W": 3, "pattern": "u3", "geom": "both"}, {"timeout_ms": 90000, "split": 2}))
    for (hh, ww, p, route) in [(2, 2, "mB", "from_mask"), (3, 2, "mA", "from_mask"), (2, 3, "u2", "oversampled"), (2, 2, "m2", "values"), (1, 3, "m1", "dataset")]:
        out.append(("case_decorator", {"H": hh, "W": ww, "pattern": p, "geom": "both", "route": route}, {"timeout_ms": 90000}))
    # (5) integer / bool valued sub-values and user functions (every 0/1 pattern of the sub-values by forking)
    disc = [("one33", "u2", "g0", "bool"), ("two13", "mA", "sym", "int"), ("two13", "u2", "g1", "int32"), ("one23", "u2", "both", "int")]
    if not quick:
        disc += [("one23", "u3", "g2", "int"), ("two23", "u2", "sym", "bool"), ("two13", "m2", "g0", "bool")]
    for (mn, p, geom, kind) in disc:
        out.append(("case_discrete", {"mask_name": mn, "pattern": p, "geom": geom, "kind": kind}))
    # (4) iterative scheme
    it = [("one33", [2, 3], "g0", False, "sampler"), ("two23", [2, 3], "sym", False, "sampler"),
          ("one23", [2, 4], "g1", True, "sampler"), ("two13", [2, 4], "g2", False, "decorator"),
          ("one23", [2, 3, 4], "g0", False, "sampler"), ("one33", [3, 2], "sym", True, "decorator"),
          ("one23", [2, 4], "both", False, "decorator"), ("one33", [2, 3], "both", True, "sampler"),
          ("two13", [2, 2, 3], "g1", False, "sampler")]
    if not quick:
        it += [("one33", [2, 4, 8], "g1", False, "sampler"), ("two13", [2, 3, 4], "g2", False, "sampler"),
               ("one23", [4, 2, 3], "sym", True, "decorator"), ("two23", [2, 4], "g1", True, "decorator"),
               ("one33", [2], "g0", False, "sampler"), ("two13", [1, 2], "g2", True, "sampler"), ("two23", [3, 4], "g0", False, "sampler")]
    for (mn, steps, geom, rel_set, route) in it:
        load = len(ref_pixels(listed_mask(mn))) * (len(steps) - 1)
        out.append(("case_iterate", {"mask_name": mn, "steps": steps, "geom": geom, "rel_set": rel_set, "route": route},
                    {"timeout_ms": 120000, "split": min(4, load + 1) if load >= 2 else 0}))

    def weight(c):
        kw = c[1]
        if c[0] == "case_iterate":
            return 10 ** 6
        if c[0] == "case_discrete":
            return 10 ** 5
        if kw.get("mask_name"):
            return 300
        return 2 ** (kw["H"] * kw["W"])
    out.sort(key=lambda c: -weight(c))
    return out


def replay(cand):
    kw = dict(cand["case_kwargs"])
    c2 = dict(cand)
    H, W = _shape(kw.get("H"), kw.get("W"), kw.get("mask_name"))
    kw["H"], kw["W"] = int(H), int(W)
    kw.pop("geom", None)
    kw.pop("mask_name", None)
    c2["case_kwargs"] = kw
    return hx.replay_body(BODIES[cand["case_fn"]], c2, tol=1e-7)
