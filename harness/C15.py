"""C15 - preloaded and cached intermediate results never change inversion outputs.

Real `aa.Inversion` objects (factory -> InversionImagingMapping / InversionImagingWTilde) are built on small Imaging
datasets whose data (and, in a second configuration, noise) are solver variables.  Every output of an inversion that is
given `Preloads(<subset of slots taken from an identical inversion>)` is compared term-for-term with the output of an
inversion that computes everything afresh; sequences of k inversions share one Preloads object; the preloaded curvature
matrix must be element-wise unchanged after every inversion; the factory's formalism choice must not change a value.
"""
import copy
import itertools
import json
import os

import numpy as np
import z3

from symx import hx, shim, values as V

PROPERTY = "C15"
FUNCTIONS = [
    "autoarray.preloads.Preloads.__init__",
    "autoarray.inversion.inversion.factory.inversion_from",
    "autoarray.inversion.inversion.factory.inversion_imaging_from",
    "autoarray.inversion.inversion.abstract.AbstractInversion.operated_mapping_matrix",
    "autoarray.inversion.inversion.abstract.AbstractInversion.regularization_matrix",
    "autoarray.inversion.inversion.abstract.AbstractInversion.regularization_matrix_reduced",
    "autoarray.inversion.inversion.abstract.AbstractInversion.curvature_reg_matrix",
    "autoarray.inversion.inversion.abstract.AbstractInversion.curvature_reg_matrix_reduced",
    "autoarray.inversion.inversion.abstract.AbstractInversion.reconstruction",
    "autoarray.inversion.inversion.abstract.AbstractInversion.reconstruction_reduced",
    "autoarray.inversion.inversion.abstract.AbstractInversion.mapped_reconstructed_data",
    "autoarray.inversion.inversion.abstract.AbstractInversion.regularization_term",
    "autoarray.inversion.inversion.abstract.AbstractInversion.log_det_curvature_reg_matrix_term",
    "autoarray.inversion.inversion.abstract.AbstractInversion.log_det_regularization_matrix_term",
    "autoarray.inversion.inversion.imaging.abstract.AbstractInversionImaging.operated_mapping_matrix_list",
    "autoarray.inversion.inversion.imaging.abstract.AbstractInversionImaging.linear_func_operated_mapping_matrix_dict",
    "autoarray.inversion.inversion.imaging.abstract.AbstractInversionImaging.data_linear_func_matrix_dict",
    "autoarray.inversion.inversion.imaging.abstract.AbstractInversionImaging.mapper_operated_mapping_matrix_dict",
    "autoarray.inversion.inversion.imaging.mapping.InversionImagingMapping.data_vector",
    "autoarray.inversion.inversion.imaging.mapping.InversionImagingMapping.curvature_matrix",
    "autoarray.inversion.inversion.imaging.mapping.InversionImagingMapping.mapped_reconstructed_data_dict",
    "autoarray.inversion.inversion.imaging.w_tilde.InversionImagingWTilde.__init__",
    "autoarray.inversion.inversion.imaging.w_tilde.InversionImagingWTilde.w_tilde_data",
    "autoarray.inversion.inversion.imaging.w_tilde.InversionImagingWTilde.data_vector",
    "autoarray.inversion.inversion.imaging.w_tilde.InversionImagingWTilde._data_vector_mapper",
    "autoarray.inversion.inversion.imaging.w_tilde.InversionImagingWTilde._data_vector_func_list_and_mapper",
    "autoarray.inversion.inversion.imaging.w_tilde.InversionImagingWTilde.curvature_matrix",
    "autoarray.inversion.inversion.imaging.w_tilde.InversionImagingWTilde._curvature_matrix_mapper_diag",
    "autoarray.inversion.inversion.imaging.w_tilde.InversionImagingWTilde._curvature_matrix_multi_mapper",
    "autoarray.inversion.inversion.imaging.w_tilde.InversionImagingWTilde._curvature_matrix_func_list_and_mapper",
    "autoarray.inversion.inversion.imaging.w_tilde.InversionImagingWTilde.mapped_reconstructed_data_dict",
    "autoarray.dataset.abstract.w_tilde.AbstractWTilde.check_noise_map",
    "autoarray.dataset.imaging.dataset.Imaging.w_tilde",
    "autoarray.inversion.inversion.inversion_util.curvature_matrix_via_mapping_matrix_from",
    "autoarray.inversion.inversion.inversion_util.curvature_matrix_with_added_to_diag_from",
    "autoarray.inversion.inversion.inversion_util.curvature_matrix_mirrored_from",
    "autoarray.inversion.inversion.inversion_util.reconstruction_positive_negative_from",
    "autoarray.inversion.inversion.inversion_util.mapped_reconstructed_data_via_mapping_matrix_from",
    "autoarray.inversion.inversion.inversion_util.mapped_reconstructed_data_via_image_to_pix_unique_from",
    "autoarray.inversion.inversion.imaging.inversion_imaging_util.w_tilde_data_imaging_from",
    "autoarray.inversion.inversion.imaging.inversion_imaging_util.w_tilde_curvature_preload_imaging_from",
    "autoarray.inversion.inversion.imaging.inversion_imaging_util.data_vector_via_w_tilde_data_imaging_from",
    "autoarray.inversion.inversion.imaging.inversion_imaging_util.data_vector_via_blurred_mapping_matrix_from",
    "autoarray.inversion.inversion.imaging.inversion_imaging_util.curvature_matrix_via_w_tilde_curvature_preload_imaging_from",
    "autoarray.inversion.inversion.imaging.inversion_imaging_util.curvature_matrix_off_diags_via_w_tilde_curvature_preload_imaging_from",
    "autoarray.inversion.inversion.imaging.inversion_imaging_util.curvature_matrix_off_diags_via_mapper_and_linear_func_curvature_vector_from",
]
BOUNDS = {
    "quick": "SYMBOLIC: the data value of every unmasked pixel (unbounded reals; box |d|<=16 only in the check_reconstruction cases); "
             "in the noise-symbolic cases additionally 3 noise-map values in [1/4, 8]. ENUMERATED: geometry sq3 (5x5 frame, central 3x3 "
             "unmasked, asymmetric non-negative dyadic 3x3 PSF, non-uniform dyadic noise, sub-size 1); linear-object mixes [mapper], "
             "[function list, mapper], [mapper, function list], [mapper, mapper], and - with the further slots and 8 subsets of the named "
             "slots - [G, F, mapper], [F, G, mapper], [mapper, G, mapper, F] where G / F are function lists with 3 / 2 parameters, and [O, mapper], [mapper, O, F] with O a function list carrying an "
             "operated_mapping_matrix_override "
             "(3x3 / 2x2 rectangular meshes, Constant and "
             "ConstantZeroth regularization, 2-parameter MockLinearObjFuncList); both formalisms (settings.use_w_tilde True/False); all "
             "2^5 subsets of the slots {w_tilde, curvature_matrix, regularization_matrix, log_det_regularization_matrix_term, "
             "operated_mapping_matrix} taken from a separately built identical inversion; 8 subsets of the five further slots "
             "(data_vector_mapper, curvature_matrix_mapper_diag, mapper_operated_mapping_matrix_dict, linear_func_operated_mapping_matrix_dict, "
             "data_linear_func_matrix_dict); sequences of k=2 inversions sharing one Preloads object; factory: settings.use_w_tilde x "
             "preloads.use_w_tilde in {None,True,False} x preloads.w_tilde present/absent, and preloads=None; shared-tables histories: one "
             "WTildeImaging object used by 3-4 successive w-tilde inversions with two independent symbolic data vectors and different "
             "mappers / mixes, shared via one Preloads object or via DatasetInterface, each compared with the mapping formalism on its "
             "own inputs; slots filled through the public Preloads.set_* methods from two identical fits whose noise map is a scaled version of the "
             "dataset's (sq3, [M], [F,M], [M,M], both formalisms; thorough also plus, tall); geometries tall / wide (9x5 / 5x9 frames, 5x2 / 2x5 unmasked strips, 5x3 / 3x5 PSFs) and big (7x7 frame, 3x3 block, noise "
             "map x 2^16) with mixes [F,M], [M,M], 8 named-slot subsets, factory case and one shared-tables history each; concrete floats "
             "compared relative to the largest magnitude of the expected output (1e-9); positive-negative solver",
    "thorough": "as quick, and additionally (same obligations, more of the input space). GEOMETRIES (11): sq3; plus (6x6 frame, 7 pixels, "
                "sub-size 2, fractional weights); sq4 (8x8 frame, 4x4 block, 5x5 PSF, sub-size 2, 4x4 / 3x3 meshes); ring5 (9x9 frame, 5x5 "
                "block with the centre and one corner masked = 23 pixels, 5x5 PSF, 5x5 / 3x3 meshes); tall / wide (5x3 / 3x5 PSFs on 5x2 / "
                "2x5 strips); col / row (3x1 / 1x3 PSFs); big / tiny (noise map x 2^16 / x 2^-16); delta (PSF = identity, no blurring). "
                "MIXES: [M], [F,M], [M,F], [M,M], [F], [F,M,M], [O,M], [M,M,F], [M,M,M] (second and third mapper coincident) and the "
                "heterogeneous [G,F,M], [F,G,M], [M,G,M,F], [O,M], [M,O,F], [M,F,G], [G,M,M,F]. For EVERY geometry x mix x formalism: all 32 "
                "subsets of the five named slots, all 31 non-empty subsets of the five further slots + all ten together, histories of "
                "k=4 (sq3, plus, big, tiny, delta) / k=3 (other geometries) inversions per Preloads object, donor of the other formalism, "
                "factory case, and 7 shared-tables histories of 2-4 steps x 2 ways of sharing. NOISE-SYMBOLIC: 3 symbolic noise pixels for "
                "every geometry x mix x formalism, and ALL noise pixels symbolic in the mapping formalism for sq3, plus, big, tiny, delta. "
                "Degenerate-solution test switched on (k=3 histories, factory) for sq3, plus, delta with [M], [F,M], [M,M], [O,M]. Backed "
                "out: 5 symbolic noise pixels in the w-tilde formalism (feasibility `unknown`, path cap), the degenerate-solution test "
                "for big / tiny (ill-conditioned absolute tolerance).",
}
OUTSIDE = [
    "positive-only solver (fnnls; use_positive_only_solver=False throughout - C05 covers the solver)",
    "interferometer inversions, Delaunay/Voronoi mappers, adaptive regularization, noise covariance matrices",
    "signed PSFs; frames / PSF shapes other than the listed ones (non-square 5x3, 3x5, 3x1, 1x3 are covered); more than 4 linear objects",
    "preload values that were NOT computed from an identical dataset / identical linear objects (the property's precondition), incl. the "
    "w-tilde noise-map consistency check firing",
    "inputs whose degenerate-solution test (np.allclose on the reconstruction) lies within a factor 2 of its tolerance (decision margin); "
    "the test is switched off (config check_reconstruction=False) in all but the dedicated cases",
    "in the noise-symbolic cases log_det_curvature_reg_matrix_term (Cholesky of a symbolic matrix) is not observed and the linear solve is an uninterpreted function",
    "slot curvature_matrix_mapper_diag donated by a MAPPING-formalism inversion of [mapper, function list]: the donor itself raises IndexError (see notes), slot left empty",
    "float64 rounding: all concrete constants are dyadic so that both formalisms are exact in float64; replay tolerance 1e-7",
]
STUBS = [
    "np.linalg.solve(A, b), A concrete, b symbolic: LAPACK solve for the identity, the concrete inverse (exact rationals of its float64 "
    "entries) times b. Contract: the routine is linear in its right-hand side.",
    "np.linalg.solve(A, b), A symbolic (noise-symbolic cases only): component i = uninterpreted function solve_i(entries of A, entries of b). "
    "Contract: the routine is a function of its arguments (nothing else). Outputs derived from it are excluded from the per-path "
    "encoding validation, counterexamples are still replayed natively.",
    "np.linalg.cholesky / inv, scipy.linalg.block_diag, scipy.sparse.csc_matrix (+splu): real routines on concrete matrices after "
    "normalising all-concrete object arrays to float64; symbolic arguments raise Unsupported (harness error, never a verdict).",
    "np.allclose on symbolic values: decision-margin version (inside tol/2 or outside 2*tol assumed).",
    "autoconf conf switch general/inversion/check_reconstruction: set per case by a stand-in object around inversion_util.conf (also during replay).",
    "concrete linear objects (mappers, function lists) and the Convolver are constructed natively (facades passing through): they do not depend on a symbolic input.",
]
ASSUMPTIONS = [
    "'computed from an identical dataset and linear objects' is realised by a second, separately constructed dataset + linear objects "
    "built from the same inputs (the donor inversion); the k inversions of a sequence share dataset, linear objects and Preloads object",
    "the reference is the repository's own inversion with the preloads argument omitted (the property is a relation between two runs of the code)",
]
EXPLORER_OPTS = {"timeout_ms": 5000, "max_paths": 2000, "max_decisions": 4000}
BUDGET_S = {"quick": 900, "thorough": 3000}

ADD_TO_DIAG = 0.25          # dyadic, so that the exact-rational run and float64 agree bit for bit
SLOTS = ("w_tilde", "curvature_matrix", "regularization_matrix", "log_det_regularization_matrix_term", "operated_mapping_matrix")
SHORT = {"w_tilde": "wt", "curvature_matrix": "cm", "regularization_matrix": "rm",
         "log_det_regularization_matrix_term": "ld", "operated_mapping_matrix": "om"}
EXT_SLOTS = ("data_vector_mapper", "curvature_matrix_mapper_diag", "mapper_operated_mapping_matrix_dict",
             "linear_func_operated_mapping_matrix_dict", "data_linear_func_matrix_dict")
SHORT.update({"data_vector_mapper": "dvm", "curvature_matrix_mapper_diag": "cmd", "mapper_operated_mapping_matrix_dict": "momd",
              "linear_func_operated_mapping_matrix_dict": "lfomd", "data_linear_func_matrix_dict": "dlfmd"})
OBSERVED = ("data_vector", "curvature_matrix", "regularization_matrix", "curvature_reg_matrix", "reconstruction",
            "mapped_reconstructed_data", "regularization_term", "log_det_curvature_reg_matrix_term",
            "log_det_regularization_matrix_term", "curvature_matrix_reread")
OBSERVED_NOISE = ("data_vector", "curvature_matrix", "regularization_matrix", "curvature_reg_matrix", "reconstruction",
                  "mapped_reconstructed_data", "regularization_term", "log_det_regularization_matrix_term",
                  "curvature_matrix_reread")
VIA_UF = ("reconstruction", "mapped_reconstructed_data", "regularization_term")    # not comparable with a native run under a model


# ---------------------------------------------------------------------------- library boundaries (stubs)

class _Linalg:
    """np.linalg seen by autoarray modules: concrete matrices go to LAPACK (after normalising all-concrete object
    arrays to float64); solve() with a concrete matrix and a symbolic right-hand side is lifted linearly."""

    def __getattr__(self, name):
        return getattr(np.linalg, name)

    def solve(self, a, b):
        a, b = shim.normalise(a), shim.normalise(b)
        if shim.has_sym(a):
            # symbolic matrix (noise-symbolic configuration): x_i = solve_i(entries of a, entries of b), an uninterpreted
            # function per component - all that is assumed is that the routine is a function of its arguments
            a, b = np.asarray(shim.unwrap(a), dtype=object), np.asarray(shim.unwrap(b), dtype=object)
            if b.ndim != 1:
                raise V.Unsupported("np.linalg.solve with a symbolic matrix and a 2D right-hand side")
            args = [V.to_real_term(e) for e in a.reshape(-1)] + [V.to_real_term(e) for e in b.reshape(-1)]
            out = np.empty(b.shape[0], dtype=object)
            for i in range(b.shape[0]):
                out[i] = V.SymReal(V.ctx().uf("linalg_solve_%d_of_%d" % (i, b.shape[0]), len(args))(*args))
            return out
        if not shim.has_sym(b):
            return np.linalg.solve(a, b)
        a = np.asarray(a, dtype=float)
        inv = np.linalg.solve(a, np.eye(a.shape[0]))
        return np.dot(shim.as_obj(inv), np.asarray(shim.unwrap(b), dtype=object))

    def cholesky(self, a):
        a = shim.normalise(a)
        if shim.has_sym(a):
            raise V.Unsupported("np.linalg.cholesky with a symbolic matrix")
        return np.linalg.cholesky(a)

    def inv(self, a):
        a = shim.normalise(a)
        if shim.has_sym(a):
            raise V.Unsupported("np.linalg.inv with a symbolic matrix")
        return np.linalg.inv(a)


def _allclose_margin(self, a, b, rtol=1e-05, atol=1e-08, **kw):
    """np.allclose on proxies (only use: the degenerate-solution test of reconstruction_positive_negative_from) under the
    decision-margin policy: inputs whose test lies within a factor 2 of the tolerance are excluded by assumption, so the
    exact-real decision and the float64 decision agree."""
    if not (shim.has_sym(a) or shim.has_sym(b)):
        return np.allclose(shim.normalise(a), shim.normalise(b), rtol=rtol, atol=atol, **kw)
    aa_, bb_ = np.broadcast_arrays(np.asarray(shim.unwrap(a), dtype=object), np.asarray(shim.unwrap(b), dtype=object))
    inside, outside = [], []
    for x, y in zip(aa_.reshape(-1), bb_.reshape(-1)):
        dt = V.to_real_term(x) - V.to_real_term(y)
        yt = V.to_real_term(y)
        band = V.rval(atol) + V.rval(rtol) * z3.If(yt >= 0, yt, -yt)
        ad = z3.If(dt >= 0, dt, -dt)
        inside.append(ad <= band / 2)
        outside.append(ad >= band * 2)
    r_in, r_out = z3.And(*inside), z3.Or(*outside)
    V.ctx().assume(z3.Or(r_in, r_out))
    return V.SymBool(r_in)


class _Conf:
    """stand-in for autoconf's `conf` inside inversion_util: overrides general/inversion/check_reconstruction only"""

    def __init__(self, real, flag):
        self._real, self._flag = real, flag

    @property
    def instance(self):
        outer = self

        class _I:
            def __getitem__(self, k):
                sub = outer._real.instance[k]
                if k != "general":
                    return sub

                class _G:
                    def __getitem__(self, k2):
                        sub2 = sub[k2]
                        if k2 != "inversion":
                            return sub2

                        class _V:
                            def __getitem__(self, k3):
                                if k3 == "check_reconstruction":
                                    return outer._flag
                                return sub2[k3]
                        return _V()
                return _G()
        return _I()


class _check_reconstruction:
    """context manager: run the inversions with the config switch general/inversion/check_reconstruction = flag"""

    def __init__(self, flag):
        self.flag = bool(flag)

    def __enter__(self):
        from autoarray.inversion.inversion import inversion_util
        self.mod, self.old = inversion_util, inversion_util.conf
        inversion_util.conf = _Conf(self.old, self.flag)

    def __exit__(self, *a):
        self.mod.conf = self.old


def POST_INSTALL():
    shim.NPFacade.linalg = _Linalg()
    shim.NPFacade.allclose = _allclose_margin
    from autoarray.inversion.inversion import abstract as _abs
    import scipy.linalg as _sl
    import scipy.sparse as _sp
    real_bd, real_csc = _sl.block_diag, _sp.csc_matrix

    def block_diag(*arrs):
        arrs = [shim.normalise(a) for a in arrs]
        if any(shim.has_sym(a) for a in arrs):
            raise V.Unsupported("block_diag of symbolic matrices")
        return real_bd(*arrs)

    def csc_matrix(a, *args, **kw):
        a = shim.normalise(a)
        if shim.has_sym(a):
            raise V.Unsupported("csc_matrix of a symbolic matrix")
        return real_csc(a, *args, **kw)

    _abs.block_diag = block_diag
    _abs.csc_matrix = csc_matrix


# ---------------------------------------------------------------------------- concrete geometry (enumerated bounds)

def _geom(name):
    """frame mask, PSF, default noise, over-sampling sub-size, mesh shapes and linear-function matrix: all dyadic"""
    if name == "sq3":      # 5x5 frame, central 3x3 block, every image pixel inside one mesh pixel
        mask = np.ones((5, 5), dtype=bool)
        mask[1:4, 1:4] = False
        psf = np.array([[0.0, 0.5, 0.0], [0.5, 1.0, 0.25], [0.0, 0.25, 0.125]])
        noise = np.array([1.0, 2.0, 1.0, 2.0, 4.0, 2.0, 1.0, 2.0, 0.5])
        sub, mesh, mesh2 = 1, (3, 3), (2, 2)
    elif name == "plus":   # 6x6 frame, 7 unmasked pixels (plus sign with a tail), sub-size 2: fractional mapping weights
        mask = np.ones((6, 6), dtype=bool)
        for (y, x) in ((1, 2), (2, 1), (2, 2), (2, 3), (3, 2), (3, 3), (4, 3)):
            mask[y, x] = False
        psf = np.array([[0.125, 0.5, 0.0], [0.25, 1.0, 0.5], [0.0, 0.25, 0.0]])
        noise = np.array([2.0, 1.0, 0.5, 1.0, 2.0, 4.0, 1.0])
        sub, mesh, mesh2 = 2, (2, 3), (3, 2)
    elif name == "sq4":    # next size up: 8x8 frame, central 4x4 block (16 pixels), 5x5 PSF, sub-size 2, 4x4 / 3x3 meshes (25 parameters in [M,M])
        mask = np.ones((8, 8), dtype=bool)
        mask[2:6, 2:6] = False
        psf = np.array([[0.0, 0.125, 0.25, 0.0, 0.0], [0.125, 0.5, 0.5, 0.25, 0.0], [0.25, 0.5, 1.0, 0.5, 0.125],
                        [0.0, 0.25, 0.5, 0.25, 0.125], [0.0, 0.0, 0.125, 0.0, 0.25]])
        noise = np.array([1.0, 2.0, 1.0, 2.0, 4.0, 2.0, 1.0, 2.0, 0.5, 1.0, 4.0, 2.0, 0.5, 1.0, 2.0, 1.0])
        sub, mesh, mesh2 = 2, (4, 4), (3, 3)
    elif name == "ring5":  # 9x9 frame, 5x5 block with the centre pixel and one corner masked (23 pixels, a hole), 5x5 PSF, 5x5 / 3x3 meshes
        mask = np.ones((9, 9), dtype=bool)
        mask[2:7, 2:7] = False
        mask[4, 4] = True
        mask[2, 6] = True
        psf = np.array([[0.0, 0.125, 0.25, 0.0, 0.0], [0.125, 0.5, 0.5, 0.25, 0.0], [0.25, 0.5, 1.0, 0.5, 0.125],
                        [0.0, 0.25, 0.5, 0.25, 0.125], [0.0, 0.0, 0.125, 0.0, 0.25]])
        noise = np.array([1.0, 2.0, 1.0, 2.0, 4.0, 2.0, 1.0, 2.0, 0.5, 1.0, 4.0, 2.0, 0.5, 1.0, 2.0, 1.0, 2.0, 1.0, 0.5, 4.0, 1.0, 2.0, 1.0])
        sub, mesh, mesh2 = 1, (5, 5), (3, 3)
    elif name in ("tall", "wide", "col", "row", "big", "tiny", "delta"):
        # 7x7 frame, central 3x3 block; non-square PSFs (5x3 / 3x5 / 3x1 / 1x3: row reach != column reach), and 'big': the sq3
        # PSF with the noise map in large units (x 2^16, still dyadic: entries of F ~ 1e-9, far below absolute tolerances)
        # tall / col: 9x5 frame with a 5x2 unmasked strip, wide / row: its transpose - pixel pairs up to 4 rows (columns) apart,
        # i.e. beyond the kernel's reach along the OTHER axis; big: 7x7 frame, central 3x3 block
        if name in ("tall", "col"):
            mask = np.ones((9, 5), dtype=bool)
            mask[2:7, 1:3] = False
        elif name in ("wide", "row"):
            mask = np.ones((5, 9), dtype=bool)
            mask[1:3, 2:7] = False
        else:
            mask = np.ones((7, 7), dtype=bool)
            mask[2:5, 2:5] = False
        psf = {"tall": np.array([[0.0, 0.25, 0.125], [0.25, 0.5, 0.0], [0.5, 1.0, 0.25], [0.0, 0.5, 0.25], [0.125, 0.25, 0.0]]),
               "wide": np.array([[0.0, 0.25, 0.5, 0.0, 0.125], [0.25, 0.5, 1.0, 0.5, 0.25], [0.125, 0.0, 0.25, 0.25, 0.0]]),
               "col": np.array([[0.5], [1.0], [0.25]]), "row": np.array([[0.25, 1.0, 0.5]]),
               "big": np.array([[0.0, 0.5, 0.0], [0.5, 1.0, 0.25], [0.0, 0.25, 0.125]]),
               "tiny": np.array([[0.0, 0.5, 0.0], [0.5, 1.0, 0.25], [0.0, 0.25, 0.125]]),
               "delta": np.array([[0.0, 0.0, 0.0], [0.0, 1.0, 0.0], [0.0, 0.0, 0.0]])}[name]    # degenerate PSF: no blurring at all
        if name in ("big", "tiny", "delta"):
            noise = np.array([1.0, 2.0, 1.0, 2.0, 4.0, 2.0, 1.0, 2.0, 0.5]) * {"big": 65536.0, "tiny": 1.0 / 65536.0, "delta": 1.0}[name]
            sub, mesh, mesh2 = 1, (3, 3), (2, 2)
        else:
            noise = np.array([1.0, 2.0, 1.0, 2.0, 4.0, 2.0, 1.0, 2.0, 0.5, 1.0])
            sub, mesh, mesh2 = (1, (3, 2), (2, 2)) if name in ("tall", "col") else (1, (2, 3), (2, 2))
    else:
        raise KeyError(name)
    n = int((~mask).sum())
    fm = np.full((n, 2), 0.5)
    fm[0, 0], fm[1, 1], fm[n - 2, 0], fm[n - 1, 1], fm[2, 1] = 0.75, 0.25, 0.125, 1.25, -0.5
    # a second function list with a DIFFERENT parameter count (3): per-function column offsets / re-keying of the dict slots
    fm3 = np.full((n, 3), 0.25)
    fm3[0, 1], fm3[1, 2], fm3[2, 0], fm3[3, 1], fm3[n - 1, 0], fm3[n - 2, 2], fm3[4, 2] = 1.0, -0.75, 0.5, 1.5, -0.25, 0.75, 2.0
    fo = np.full((n, 2), 0.75)
    fo[0, 1], fo[1, 0], fo[2, 0], fo[3, 1], fo[n - 1, 0], fo[n - 2, 1] = 1.5, -0.25, 2.0, 0.125, 0.5, -1.0
    return {"mask": mask, "psf": psf, "noise": noise, "sub": sub, "mesh": mesh, "mesh2": mesh2, "func": fm, "func3": fm3,
            "func_override": fo, "n": n}


def _dataset(g, data, noise):
    import autoarray as aa
    m = aa.Mask2D(mask=g["mask"].copy(), pixel_scales=1.0)
    d = aa.Array2D(values=np.array(data, copy=True), mask=m)
    nm = aa.Array2D(values=np.array(noise, copy=True), mask=m)
    psf = aa.Kernel2D.no_mask(values=g["psf"].copy(), pixel_scales=1.0)
    ds = aa.Imaging(data=d, noise_map=nm, psf=psf, use_normalized_psf=False, check_noise_map=False,
                    over_sampling=aa.OverSamplingDataset(uniform=aa.OverSamplingUniform(sub_size=g["sub"])))
    with shim.native():
        ds.convolver            # concrete (mask and PSF only): warm the cache natively
    return ds


def _mapper(g, mask, shape, second):
    import autoarray as aa
    # the second mapper gets a zeroth-order term: two purely gradient-regularised mappers over the same pixels leave the
    # (+c, -c) mode constrained only by the 1e-8 ridge and the system ill-conditioned (float64 replay would be noisy)
    reg = aa.reg.ConstantZeroth(coefficient_neighbor=2.0, coefficient_zeroth=0.5) if second else aa.reg.Constant(coefficient=1.0)
    grid = aa.Grid2D.from_mask(mask=mask)
    os_ = aa.OverSamplerUniform(mask=mask, sub_size=g["sub"])
    mesh_grid = aa.Mesh2DRectangular.overlay_grid(shape_native=shape, grid=os_.over_sampled_grid)
    mg = aa.MapperGrids(mask=mask, source_plane_data_grid=os_.over_sampled_grid, source_plane_mesh_grid=mesh_grid)
    mp = aa.MapperRectangular(mapper_grids=mg, over_sampler=os_, border_relocator=None,
                              regularization=reg)
    mp.mapping_matrix, mp.unique_mappings, mp.regularization_matrix     # concrete: warm natively
    return mp


def _linear_objs(g, mask, mix):
    """the mix of linear objects; everything here is concrete, so it is built with the facades passing through"""
    import autoarray as aa
    out = []
    with shim.native():
        seen_m = 0
        for ch in mix:
            if ch == "M":
                out.append(_mapper(g, mask, g["mesh"] if seen_m == 0 else g["mesh2"], seen_m > 0))
                seen_m += 1
            elif ch == "F":
                out.append(aa.m.MockLinearObjFuncList(parameters=2, grid=aa.Grid2D.from_mask(mask=mask),
                                                      mapping_matrix=g["func"].copy()))
            elif ch == "N":     # the second mapper (other mesh, other regularization) on its own
                out.append(_mapper(g, mask, g["mesh2"], True))
            elif ch == "O":     # function list whose operated matrix is given directly (operated_mapping_matrix_override), NOT the
                # convolution of its mapping matrix - e.g. a profile that is already PSF-operated
                out.append(aa.m.MockLinearObjFuncList(parameters=2, grid=aa.Grid2D.from_mask(mask=mask),
                                                      mapping_matrix=g["func"].copy(),
                                                      operated_mapping_matrix_override=g["func_override"].copy()))
            elif ch == "G":
                out.append(aa.m.MockLinearObjFuncList(parameters=3, grid=aa.Grid2D.from_mask(mask=mask),
                                                      mapping_matrix=g["func3"].copy()))
            else:
                raise KeyError(ch)
    return out


def _settings(wt):
    import autoarray as aa
    return aa.SettingsInversion(use_w_tilde=bool(wt), use_positive_only_solver=False,
                                no_regularization_add_to_curvature_diag_value=ADD_TO_DIAG)


def _val(x):
    x = hx.unwrap(x)
    if isinstance(x, np.ndarray):
        return np.array(x, copy=True)
    return x


def _observe(inv, names, out, prefix):
    """read the public outputs in a fixed order (curvature_matrix before and after the in-place F+H step)"""
    for name in names:
        attr = "curvature_matrix" if name == "curvature_matrix_reread" else name
        out[prefix + name] = hx.attempt(lambda: _val(getattr(inv, attr)))


_OMIT = object()


def _fresh_inversion(g, data, noise, mix, wt, preloads=_OMIT):
    """new dataset + new linear objects from the same inputs; preloads argument omitted = 'computing everything afresh'"""
    import autoarray as aa
    ds = _dataset(g, data, noise)
    objs = _linear_objs(g, ds.mask, mix)
    if preloads is _OMIT:
        return aa.Inversion(dataset=ds, linear_obj_list=objs, settings=_settings(wt))
    return aa.Inversion(dataset=ds, linear_obj_list=objs, settings=_settings(wt), preloads=preloads)


def _donor_slots(g, data, noise, mix, wt, ext=False):
    """slot values 'computed from an identical dataset and linear objects': taken from a separate, identical inversion"""
    donor = _fresh_inversion(g, data, noise, mix, wt)
    vals = {}
    vals["curvature_matrix"] = _val(donor.curvature_matrix)
    vals["regularization_matrix"] = _val(donor.regularization_matrix)
    vals["log_det_regularization_matrix_term"] = donor.log_det_regularization_matrix_term
    vals["operated_mapping_matrix"] = _val(donor.operated_mapping_matrix)
    vals["w_tilde"] = donor.dataset.w_tilde
    if ext:
        # the further public slots, filled the way Preloads.set_curvature_matrix / set_linear_func_inversion_dicts do
        vals["data_vector_mapper"] = _val(donor._data_vector_mapper)
        # (the mapping formalism cannot compute this one for [mapper, function list]: IndexError, see notes -> slot left empty)
        vals["curvature_matrix_mapper_diag"] = hx.attempt(lambda: _val(donor._curvature_matrix_mapper_diag))
        vals["mapper_operated_mapping_matrix_dict"] = donor.mapper_operated_mapping_matrix_dict
        vals["linear_func_operated_mapping_matrix_dict"] = donor.linear_func_operated_mapping_matrix_dict
        vals["data_linear_func_matrix_dict"] = donor.data_linear_func_matrix_dict
    return vals


def _preloads(vals, subset, use_w_tilde=None):
    import autoarray as aa
    kw = {}
    for s in subset:
        v = vals[s]
        if isinstance(v, hx.Raised):
            continue
        if isinstance(v, dict):
            v = {key: _val(a) for key, a in v.items()}
        kw[s] = np.array(v, copy=True) if isinstance(v, np.ndarray) else (copy.deepcopy(v) if s == "w_tilde" else v)
    return aa.Preloads(use_w_tilde=use_w_tilde, **kw)


def _noise(g, inp):
    """noise map: concrete dyadic defaults, overridden at the positions listed in NOISE_SYM by the inputs 'n'"""
    noise = np.array(g["noise"], dtype=object if "n" in inp and shim.has_sym(inp["n"]) else float)
    if "n" in inp:
        nv = np.asarray(inp["n"]).reshape(-1)
        if noise.dtype != object and nv.dtype == object:
            noise = noise.astype(object)
        for j, i in enumerate(_noise_positions(g, len(nv))):
            noise[i] = nv[j]
    return noise


def _noise_positions(g, count=3):
    """which noise-map pixels are symbolic: 3 spread ones by default (quick), `count` evenly spread ones otherwise"""
    if count == 3:
        return (0, g["n"] // 2, g["n"] - 2)
    if count >= g["n"]:
        return tuple(range(g["n"]))
    return tuple(sorted({(j * g["n"]) // count for j in range(count)}))


def _subset_tag(subset):
    return "+".join(SHORT[s] for s in subset) or "none"


# ---------------------------------------------------------------------------- bodies

def body_seq(inp, geom, mix, wt, subsets, k, noise_sym=False, check=False, donor_wt=None):
    """k successive inversions sharing one Preloads(<subset>) versus one inversion with preloads=None"""
    with _check_reconstruction(check):
        return _body_seq(inp, geom, mix, wt, subsets, k, noise_sym, donor_wt)


def _body_seq(inp, geom, mix, wt, subsets, k, noise_sym, donor_wt=None):
    import autoarray as aa
    g = _geom(geom)
    data = np.asarray(inp["d"]).reshape(-1)
    noise = _noise(g, inp)
    names = OBSERVED_NOISE if noise_sym else OBSERVED
    A, E = {}, {}
    ref = {}
    _observe(_fresh_inversion(g, data, noise, mix, wt), names, ref, "")
    vals = _donor_slots(g, data, noise, mix, wt if donor_wt is None else donor_wt, ext=any(s_ in EXT_SLOTS for sub in subsets for s_ in sub))
    ds = _dataset(g, data, noise)
    objs = _linear_objs(g, ds.mask, mix)
    for subset in subsets:
        subset = tuple(subset)
        tag = _subset_tag(subset)
        pl = _preloads(vals, subset)
        snap = np.array(pl.curvature_matrix, copy=True) if pl.curvature_matrix is not None else None
        for i in range(k):
            pre = "%s:%s/%s|%s|#%d|" % (geom, mix, "wtilde" if wt else "mapping", tag, i)    # unique per case: every case's candidates get replayed
            inv = hx.attempt(lambda: aa.Inversion(dataset=ds, linear_obj_list=objs, settings=_settings(wt), preloads=pl))
            if isinstance(inv, hx.Raised):
                A[pre + "construct"], E[pre + "construct"] = inv, "constructed"
                continue
            _observe(inv, names, A, pre)
            for nme in names:
                E[pre + nme] = ref[nme]
            if snap is not None:
                A[pre + "preloaded_curvature_matrix_unchanged"] = _val(pl.curvature_matrix)
                E[pre + "preloaded_curvature_matrix_unchanged"] = snap
    return A, E


def body_factory(inp, geom, mix, check=False):
    """the factory's formalism choice (settings.use_w_tilde x preloads.use_w_tilde x preloads.w_tilde) changes no value"""
    with _check_reconstruction(check):
        return _body_factory(inp, geom, mix)


def _body_factory(inp, geom, mix):
    import autoarray as aa
    g = _geom(geom)
    data = np.asarray(inp["d"]).reshape(-1)
    noise = _noise(g, inp)
    A, E = {}, {}
    ref = {}
    _observe(_fresh_inversion(g, data, noise, mix, False), OBSERVED, ref, "")
    vals = _donor_slots(g, data, noise, mix, True)
    for s_wt in (True, False):
        for p_wt in (None, True, False):
            for with_tables in (False, True):
                pl = _preloads(vals, ("w_tilde",) if with_tables else (), use_w_tilde=p_wt)
                pre = "%s:%s|settings=%s,preloads.use_w_tilde=%s,preloads.w_tilde=%s|" % (geom, mix, s_wt, p_wt, with_tables)
                inv = hx.attempt(lambda: _fresh_inversion(g, data, noise, mix, s_wt, preloads=pl))
                if isinstance(inv, hx.Raised):
                    A[pre + "construct"], E[pre + "construct"] = inv, "constructed"
                    continue
                _observe(inv, OBSERVED, A, pre)
                for nme in OBSERVED:
                    E[pre + nme] = ref[nme]
    # "versus preloads=None": the explicit spelling of 'nothing preloaded' must behave like omitting the argument
    for s_wt in (True, False):
        pre = "%s:%s|settings=%s,preloads=None|" % (geom, mix, s_wt)
        inv = hx.attempt(lambda: _fresh_inversion(g, data, noise, mix, s_wt, preloads=None))
        if isinstance(inv, hx.Raised):
            A[pre + "construct"], E[pre + "construct"] = inv, "constructed"
            continue
        _observe(inv, OBSERVED, A, pre)
        for nme in OBSERVED:
            E[pre + nme] = ref[nme]
    return A, E


def body_tables(inp, geom, steps, share):
    """ONE w-tilde tables object (WTildeImaging: depends on noise map and PSF only) shared by successive w-tilde inversions
    whose DATA and/or linear objects differ; every inversion must equal the mapping-formalism inversion of its own inputs"""
    with _check_reconstruction(False):
        return _body_tables(inp, geom, steps, share)


def _body_tables(inp, geom, steps, share):
    import autoarray as aa
    g = _geom(geom)
    noise = _noise(g, inp)
    datas = {"d": np.asarray(inp["d"]).reshape(-1), "e": np.asarray(inp["e"]).reshape(-1)}
    base = _dataset(g, datas["d"], noise)
    tables = base.w_tilde                       # computed once; users share it through Preloads or a DatasetInterface
    pl = aa.Preloads(w_tilde=tables)
    A, E = {}, {}
    for i, (mix, which) in enumerate(steps):
        pre = "%s:%s|#%d %s data=%s|" % (geom, share, i, mix, which)
        ref = {}
        _observe(_fresh_inversion(g, datas[which], noise, mix, False), OBSERVED, ref, "")
        if share == "preloads":
            ds = _dataset(g, datas[which], noise)
            objs = _linear_objs(g, ds.mask, mix)
            inv = hx.attempt(lambda: aa.Inversion(dataset=ds, linear_obj_list=objs, settings=_settings(True), preloads=pl))
        else:
            ds = aa.DatasetInterface(data=aa.Array2D(values=np.array(datas[which], copy=True), mask=base.mask),
                                     noise_map=base.noise_map, grids=base.grids, convolver=base.convolver, w_tilde=tables)
            objs = _linear_objs(g, base.mask, mix)
            inv = hx.attempt(lambda: aa.Inversion(dataset=ds, linear_obj_list=objs, settings=_settings(True)))
        if isinstance(inv, hx.Raised):
            A[pre + "construct"], E[pre + "construct"] = inv, "constructed"
            continue
        A[pre + "formalism"], E[pre + "formalism"] = type(inv).__name__, "InversionImagingWTilde"
        _observe(inv, OBSERVED, A, pre)
        for nme in OBSERVED:
            E[pre + nme] = ref[nme]
    return A, E


def case_tables(ctx, geom, steps, share):
    g = _geom(geom)
    inputs = {"d": V.real_array("d", (g["n"],)), "e": V.real_array("e", (g["n"],))}
    ctx.set_case(geom=geom, steps=steps, share=share)
    kw = {"geom": geom, "steps": steps, "share": share}
    ctx.set_inputs(**inputs)
    A, E = body_tables(inputs, **kw)
    _check_in_order(ctx, A, E, _tol(E, 1e-9), None)
    hx.validate(ctx, body_tables, inputs, kw, A, every=1)


SETTERS = ("set_w_tilde_imaging", "set_operated_mapping_matrix_with_preloads", "set_linear_func_inversion_dicts",
           "set_curvature_matrix", "set_regularization_matrix_and_term")


def body_setters(inp, geom, mix, wt, setters):
    """slots filled through the public Preloads.set_* methods from two identical fits whose noise map is a SCALED version of
    the dataset's noise map (first value unchanged) - the way PyAutoGalaxy / PyAutoLens fill them; the inversions use the
    fit's (scaled) noise map and must equal the inversion without preloads"""
    with _check_reconstruction(False):
        return _body_setters(inp, geom, mix, wt, setters)


def _body_setters(inp, geom, mix, wt, setters):
    import types
    import autoarray as aa
    g = _geom(geom)
    data = np.asarray(inp["d"]).reshape(-1)
    noise_ds = np.array(g["noise"], dtype=float)
    noise_fit = noise_ds.copy()
    noise_fit[2] *= 2.0
    noise_fit[g["n"] - 1] *= 4.0
    A, E, ref = {}, {}, {}
    _observe(_fresh_inversion(g, data, noise_fit, mix, wt), OBSERVED, ref, "")
    base = _dataset(g, data, noise_ds)            # fit.dataset: un-scaled noise map
    fits = []
    for _ in range(2):
        inv = _fresh_inversion(g, data, noise_fit, mix, wt)
        fits.append(types.SimpleNamespace(inversion=inv, noise_map=inv.dataset.noise_map, dataset=base))
    pl = aa.Preloads()
    tag = "+".join(s_[4:] for s_ in setters)
    for name in setters:
        r = hx.attempt(lambda: getattr(pl, name)(fits[0], fits[1]))
        if isinstance(r, hx.Raised) and r.name != "IndexError":      # (IndexError: the recorded mapping-formalism side observation)
            A["%s:%s/%s|%s|%s" % (geom, mix, "wtilde" if wt else "mapping", tag, name)] = r
            E["%s:%s/%s|%s|%s" % (geom, mix, "wtilde" if wt else "mapping", tag, name)] = "filled"
    ds = _dataset(g, data, noise_fit)
    objs = _linear_objs(g, ds.mask, mix)
    for i in range(2):
        pre = "%s:%s/%s|setters %s|#%d|" % (geom, mix, "wtilde" if wt else "mapping", tag, i)
        inv = hx.attempt(lambda: aa.Inversion(dataset=ds, linear_obj_list=objs, settings=_settings(wt), preloads=pl))
        if isinstance(inv, hx.Raised):
            A[pre + "construct"], E[pre + "construct"] = inv, "constructed"
            continue
        _observe(inv, OBSERVED, A, pre)
        for nme in OBSERVED:
            E[pre + nme] = ref[nme]
    return A, E


def case_setters(ctx, geom, mix, wt, setters):
    g = _geom(geom)
    inputs = _inputs(ctx, g, False)
    ctx.set_case(geom=geom, mix=mix, use_w_tilde=wt, setters=setters)
    kw = {"geom": geom, "mix": mix, "wt": wt, "setters": setters}
    ctx.set_inputs(**inputs)
    A, E = body_setters(inputs, **kw)
    _check_in_order(ctx, A, E, None, None)
    hx.validate(ctx, body_setters, inputs, kw, A, every=1)


CONCRETE_KEYS = ("curvature_matrix", "regularization_matrix", "curvature_reg_matrix", "log_det_curvature_reg_matrix_term",
                 "log_det_regularization_matrix_term", "curvature_matrix_reread")


# concrete float outputs reached by two float64 routes: same tolerance as the replay comparison, so that a `sat` verdict is
# always reproducible natively (1e-12 made a 1e-13 slogdet-vs-splu difference `sat` but not replayable: ENCODING-MISMATCH)
CONCRETE_TOL = 1e-7


def _tol(keys, concrete_tol):
    """tolerance only for outputs that are concrete floats in the data-symbolic configuration (two float64 routes to
    the same number); symbolic outputs and the preload-unchanged obligation are exact"""
    return {k: concrete_tol for k in keys if k.rsplit("|", 1)[-1] in CONCRETE_KEYS}


DERIVED = ("mapped_reconstructed_data", "regularization_term")     # functions of the reconstruction (and of matrices checked before it)


REL_TOL = 1e-9      # for concrete floats, relative to the largest magnitude of the expected output (unit-free)


def _is_plain(x):
    return not (isinstance(x, (hx.Raised, str)) or x is None or shim.has_sym(x))


def _same_scaled(a, e, tol=REL_TOL):
    """concrete comparison |a - e| <= tol * max|e| (unit-free: an output of magnitude 1e-9 is not 'equal' to 0)"""
    if not (_is_plain(a) and _is_plain(e)):
        return hx.concrete_equal(a, e)
    try:
        a = np.asarray(shim.normalise(hx.unwrap(a)), dtype=float)
        e = np.asarray(shim.normalise(hx.unwrap(e)), dtype=float)
    except (TypeError, ValueError):
        return hx.concrete_equal(a, e)
    if a.shape != e.shape:
        return False
    fin = np.isfinite(e)
    if not np.array_equal(fin, np.isfinite(a)):
        return False
    if not fin.all() and not np.array_equal(a[~fin], e[~fin], equal_nan=True):
        return False
    if not fin.any():
        return True
    scale = float(np.max(np.abs(e[fin])))
    return bool(np.all(np.abs(a[fin] - e[fin]) <= tol * scale))


def _check_in_order(ctx, A, E, tol, known):
    """one obligation per key, in observation order; once the reconstruction of an inversion is refuted, the quantities
    derived from it (B s, s^T H s: the latter a quadratic 'differs somewhere' query that costs z3 minutes) are not queried
    for that inversion - a counterexample for it is already on record"""
    refuted = set()
    for key in E:
        prefix, name = key.rsplit("|", 1)
        if name in DERIVED and prefix in refuted:
            continue
        if key in A and _is_plain(A[key]) and _is_plain(E[key]) and not name.endswith("_unchanged"):
            # both sides concrete floats (two float64 routes to the same number): scale-relative comparison, same as in replay
            ok = ctx.check(key, _same_scaled(A[key], E[key]), known=(known or {}).get(key))
        else:
            ok = hx.check_all(ctx, A, E, tol=None, known=known, only={key})
        if not ok and name == "reconstruction":
            refuted.add(prefix)


def _inputs(ctx, g, noise_sym, box=None):
    inputs = {"d": V.real_array("d", (g["n"],))}
    if box is not None:     # only where a branch depends on the data (check_reconstruction): keeps float64 replay meaningful
        for e in inputs["d"]:
            ctx.assume(z3.And(e.t >= -box, e.t <= box))
    if noise_sym:
        n = V.real_array("n", (len(_noise_positions(g, 3 if noise_sym is True else int(noise_sym))),))
        for e in n:
            ctx.assume(z3.And(e.t >= V.rval(0.25), e.t <= V.rval(8)))
        inputs["n"] = n
    return inputs


def case_seq(ctx, geom, mix, wt, subsets, k, noise_sym=False, check=False, donor_wt=None):
    g = _geom(geom)
    inputs = _inputs(ctx, g, noise_sym, box=16 if check else None)
    ctx.set_case(geom=geom, mix=mix, use_w_tilde=wt, subsets=[_subset_tag(tuple(s)) for s in subsets], k=k)
    kw = {"geom": geom, "mix": mix, "wt": wt, "subsets": subsets, "k": k, "noise_sym": noise_sym, "check": check, "donor_wt": donor_wt}
    ctx.set_inputs(**inputs)
    A, E = body_seq(inputs, **kw)
    known = None
    if KNOWN_DVM in os.environ.get("VERIF_KNOWN", "").split(",") and not wt and any(c_ in mix for c_ in "FGO") and "M" in mix:
        # recorded defect: the mapping formalism returns Preloads.data_vector_mapper as the whole data vector
        known = {key: {KNOWN_DVM: z3.BoolVal(True)} for key in E
                 if "dvm" in key.split("|")[1].split("+") and key.rsplit("|", 1)[-1] in DVM_AFFECTED}
        for key in list(known):
            # s^T H s of an already-recorded wrong reconstruction: a quadratic 'differs somewhere' query that z3 leaves
            # unknown and that adds nothing to the finding -> not checked inside the recorded configurations
            if key.endswith("|regularization_term"):
                del known[key], E[key]
    _check_in_order(ctx, A, E, None if noise_sym else _tol(E, CONCRETE_TOL), known)
    hx.validate(ctx, body_seq, inputs, kw, {k_: v for k_, v in A.items() if not (noise_sym and k_.rsplit("|", 1)[-1] in VIA_UF)}, every=1)


def case_factory(ctx, geom, mix, check=False):
    g = _geom(geom)
    inputs = _inputs(ctx, g, False, box=16 if check else None)
    ctx.set_case(geom=geom, mix=mix)
    kw = {"geom": geom, "mix": mix, "check": check}
    ctx.set_inputs(**inputs)
    A, E = body_factory(inputs, **kw)
    known = None
    if "factory-preloads-none" in os.environ.get("VERIF_KNOWN", "").split(","):
        known = {k: {"factory-preloads-none": z3.BoolVal(True)} for k in E if "preloads=None|" in k}
    _check_in_order(ctx, A, E, _tol(E, 1e-9), known)
    hx.validate(ctx, body_factory, inputs, kw, A, every=1)


KNOWN_DVM = "mapping-data-vector-mapper"
DVM_AFFECTED = ("data_vector", "reconstruction", "mapped_reconstructed_data", "regularization_term")
G1 = ["curvature_matrix_mapper_diag", "data_vector_mapper", "mapper_operated_mapping_matrix_dict"]     # Preloads.set_curvature_matrix
G2 = ["linear_func_operated_mapping_matrix_dict", "data_linear_func_matrix_dict"]                      # Preloads.set_linear_func_inversion_dicts
EXT_QUICK = [[s_] for s_ in EXT_SLOTS] + [G1, G2, list(EXT_SLOTS)]
NOISE_SUBSETS = [["curvature_matrix"], ["w_tilde"], ["operated_mapping_matrix"], ["regularization_matrix", "log_det_regularization_matrix_term"],
                 ["w_tilde", "curvature_matrix", "operated_mapping_matrix"], list(SLOTS)]

BODIES = {"case_seq": body_seq, "case_factory": body_factory, "case_tables": body_tables, "case_setters": body_setters}


def _all_subsets():
    out = []
    for r in range(len(SLOTS) + 1):
        for c in itertools.combinations(SLOTS, r):
            out.append(list(c))
    return out


# cases with a data-dependent branch / non-linear terms (the engine retries `unknown` with up to 14x this timeout); on the
# clean tree the branching cases have 2-3 paths - under a fault every differing inversion adds a fork, hence the path cap
TABLE_STEPS = ((("M", "d"), ("M", "e"), ("M", "d")),                 # data differ, back and forth
               (("M", "d"), ("N", "d"), ("FM", "e"), ("M", "d")))     # mappers / mixes differ on the same tables, then data too
TABLE_STEPS = TABLE_STEPS + ((("OM", "d"), ("MO", "e"), ("OM", "e")),)
TABLE_STEPS_MORE = ((("N", "e"), ("M", "e"), ("MGMF", "d")), (("FM", "d"), ("FM", "e")), (("MM", "e"), ("MF", "d"), ("MM", "d")))
UNIT_GEOMS = ("tall", "wide", "big")
HETERO_MIXES = ("GFM", "FGM", "MGMF", "OM", "MOF")       # O: function list with an operated_mapping_matrix_override
HETERO_CORE = ((), ("curvature_matrix",), ("regularization_matrix",), ("operated_mapping_matrix",), ("w_tilde", "operated_mapping_matrix"),
               ("regularization_matrix", "log_det_regularization_matrix_term"), ("curvature_matrix", "operated_mapping_matrix"), SLOTS)
SLOW = {"timeout_ms": 12000, "max_paths": 24}


def _cases_base(tier):
    out = []
    subs = _all_subsets()
    chunk = 8
    quick = tier == "quick"
    if quick:
        plan = [("sq3", ("M", "FM", "MF", "MM"), 2)]
    else:
        plan = [("sq3", ("M", "FM", "MF", "MM", "F", "FMM"), 3), ("plus", ("M", "FM", "MF", "MM", "F"), 3)]
    for geom, mixes, k in plan:
        for mix in mixes:
            for wt in (True, False):
                # (1) all 2^5 subsets of the five slots named by the property, k successive inversions per Preloads object
                for i in range(0, len(subs), chunk):
                    out.append(("case_seq", {"geom": geom, "mix": mix, "wt": wt, "subsets": subs[i:i + chunk], "k": k}))
                # (2) the degenerate-solution test (config check_reconstruction: a fork on the reconstruction) switched on
                out.append(("case_seq", {"geom": geom, "mix": mix, "wt": wt, "subsets": [["curvature_matrix"], list(SLOTS)],
                                         "k": 2, "check": True}, SLOW))
                # (3) the further public slots of Preloads
                if "M" in mix:
                    if quick:
                        out.append(("case_seq", {"geom": geom, "mix": mix, "wt": wt, "subsets": EXT_QUICK, "k": k}))
                    else:
                        ext = [list(c) for r in range(1, 6) for c in itertools.combinations(EXT_SLOTS, r)] + [list(SLOTS) + list(EXT_SLOTS)]
                        for i in range(0, len(ext), chunk):
                            out.append(("case_seq", {"geom": geom, "mix": mix, "wt": wt, "subsets": ext[i:i + chunk], "k": k}))
                # (4) data AND noise symbolic
                if quick or "M" in mix:
                    out.append(("case_seq", {"geom": geom, "mix": mix, "wt": wt, "subsets": NOISE_SUBSETS, "k": 2, "noise_sym": True}, SLOW))
                # (5) slot values taken from an identical inversion of the OTHER formalism
                if not quick and mix in ("FM", "MF", "MM"):
                    for i in range(0, len(subs), 16):
                        out.append(("case_seq", {"geom": geom, "mix": mix, "wt": wt, "subsets": subs[i:i + 16], "k": 2, "donor_wt": not wt}))
            # (6) the factory's choice of formalism
            out.append(("case_factory", {"geom": geom, "mix": mix}))
            if not quick and mix in ("M", "FM"):
                out.append(("case_factory", {"geom": geom, "mix": mix, "check": True}, SLOW))
    # (8) one w-tilde tables object shared by inversions with DIFFERENT data / different mappers (both orders)
    for geom, _, k in plan:
        for share in ("preloads", "dataset"):
            for steps in TABLE_STEPS if quick else TABLE_STEPS + TABLE_STEPS_MORE:
                out.append(("case_tables", {"geom": geom, "steps": [list(s_) for s_ in steps], "share": share}))
    # (9) non-square PSFs and large-unit noise: w-tilde tables / mirrored curvature matrix vs the mapping formalism
    for geom in UNIT_GEOMS if quick else UNIT_GEOMS + ("col", "row"):
        for mix in ("FM", "MM"):
            for wt in (True, False):
                out.append(("case_seq", {"geom": geom, "mix": mix, "wt": wt, "subsets": [list(s_) for s_ in HETERO_CORE], "k": 2}))
            out.append(("case_factory", {"geom": geom, "mix": mix}))
        out.append(("case_tables", {"geom": geom, "steps": [list(s_) for s_ in TABLE_STEPS[1]], "share": "preloads"}))
    # (7) mixes in which EVERY further slot is non-trivial: two function lists with different parameter counts (3 and 2, both
    # orders) and two mappers with different mesh sizes, so that per-object column offsets and the positional re-keying of the
    # dict slots (linear_func_operated_mapping_matrix_dict, data_linear_func_matrix_dict, mapper_operated_mapping_matrix_dict)
    # and the block layout of data_vector_mapper / curvature_matrix_mapper_diag matter
    for geom, _, k in plan:
        for mix in HETERO_MIXES if quick else HETERO_MIXES + ("MFG", "GMMF"):
            for wt in (True, False):
                if quick:
                    out.append(("case_seq", {"geom": geom, "mix": mix, "wt": wt, "subsets": EXT_QUICK, "k": k}))
                    out.append(("case_seq", {"geom": geom, "mix": mix, "wt": wt, "subsets": [list(s_) for s_ in HETERO_CORE], "k": k}))
                else:
                    ext = [list(c) for r in range(1, 6) for c in itertools.combinations(EXT_SLOTS, r)] + [list(SLOTS) + list(EXT_SLOTS)]
                    for i in range(0, len(ext), chunk):
                        out.append(("case_seq", {"geom": geom, "mix": mix, "wt": wt, "subsets": ext[i:i + chunk], "k": k}))
                    for i in range(0, len(subs), 16):
                        out.append(("case_seq", {"geom": geom, "mix": mix, "wt": wt, "subsets": subs[i:i + 16], "k": k}))
            out.append(("case_factory", {"geom": geom, "mix": mix}))
    return out


DEEP_GEOMS = ("sq3", "plus", "sq4", "ring5", "tall", "wide", "big", "tiny", "delta", "col", "row")
DEEP_MIXES = ("M", "FM", "MF", "MM", "F", "FMM", "OM", "MMF", "MMM")
DEEP_HETERO = HETERO_MIXES + ("MFG", "GMMF")
DEEP_STEPS = TABLE_STEPS + TABLE_STEPS_MORE + ((("MM", "d"), ("FMM", "e"), ("N", "e"), ("MM", "e")),)


def _cases_deep():
    """thorough only: the SAME obligations over more of the input space - every geometry (incl. the next sizes up sq4 / ring5, the
    non-square PSFs, huge / tiny noise units, the degenerate no-blur PSF) gets the full plan that sq3 / plus had, more mixes
    (incl. three mappers, two of them coincident, and override function lists), longer histories, more symbolic noise pixels"""
    out = []
    subs = _all_subsets()
    ext = [list(c) for r in range(1, 6) for c in itertools.combinations(EXT_SLOTS, r)] + [list(SLOTS) + list(EXT_SLOTS)]
    for geom in DEEP_GEOMS:
        small = geom in ("sq3", "plus", "big", "tiny", "delta")
        k = 4 if small else 3
        for mix in DEEP_MIXES:
            for wt in (True, False):
                for i in range(0, len(subs), 8):
                    out.append(("case_seq", {"geom": geom, "mix": mix, "wt": wt, "subsets": subs[i:i + 8], "k": k}))
                if "M" in mix:
                    for i in range(0, len(ext), 8):
                        out.append(("case_seq", {"geom": geom, "mix": mix, "wt": wt, "subsets": ext[i:i + 8], "k": k}))
                    # data + noise symbolic: 3 noise pixels as in quick, and 5 (w-tilde) / ALL (mapping) noise pixels
                    out.append(("case_seq", {"geom": geom, "mix": mix, "wt": wt, "subsets": NOISE_SUBSETS, "k": 2, "noise_sym": True}, SLOW))
                    # (5 symbolic noise pixels in the w-tilde formalism were tried and backed out: the kernels' `value > 0`
                    # feasibility queries come back unknown for some mixes and the path cap is hit)
                    if small and not wt:
                        out.append(("case_seq", {"geom": geom, "mix": mix, "wt": wt, "subsets": NOISE_SUBSETS, "k": 2,
                                                 "noise_sym": 99}, SLOW))
                    for i in range(0, len(subs), 16):
                        out.append(("case_seq", {"geom": geom, "mix": mix, "wt": wt, "subsets": subs[i:i + 16], "k": 2, "donor_wt": not wt}))
                # (not for 'tiny' / 'big': with F ~ 1e9 or 1e-9 against H ~ 1 the absolute-tolerance degenerate-solution test is
                # ill-conditioned in float64 resp. leaves the solver with `unknown` feasibility - tried and backed out)
                if small and geom not in ("tiny", "big") and mix in ("M", "FM", "MM", "OM"):
                    out.append(("case_seq", {"geom": geom, "mix": mix, "wt": wt, "subsets": [["curvature_matrix"], list(SLOTS)],
                                             "k": 3, "check": True}, SLOW))
            out.append(("case_factory", {"geom": geom, "mix": mix}))
            if small and geom not in ("tiny", "big") and mix in ("M", "FM", "MM"):
                out.append(("case_factory", {"geom": geom, "mix": mix, "check": True}, SLOW))
        for mix in DEEP_HETERO:
            for wt in (True, False):
                for i in range(0, len(ext), 8):
                    out.append(("case_seq", {"geom": geom, "mix": mix, "wt": wt, "subsets": ext[i:i + 8], "k": 3}))
                for i in range(0, len(subs), 16):
                    out.append(("case_seq", {"geom": geom, "mix": mix, "wt": wt, "subsets": subs[i:i + 16], "k": 3}))
            out.append(("case_factory", {"geom": geom, "mix": mix}))
        for share in ("preloads", "dataset"):
            for steps in DEEP_STEPS:
                out.append(("case_tables", {"geom": geom, "steps": [list(s_) for s_ in steps], "share": share}))
    return out


def cases(tier):
    out = _cases_base(tier)
    # (10) slots filled through the public Preloads.set_* methods from fits with a scaled noise map
    for geom in ("sq3",) if tier == "quick" else ("sq3", "plus", "tall"):
        for mix in ("M", "FM", "MM"):
            for wt in (True, False):
                out.append(("case_setters", {"geom": geom, "mix": mix, "wt": wt, "setters": ["set_w_tilde_imaging"]}))
                out.append(("case_setters", {"geom": geom, "mix": mix, "wt": wt, "setters": list(SETTERS)}))
    if tier != "quick":
        seen = {json.dumps(c[:2], sort_keys=True) for c in out}
        for c in _cases_deep():
            key = json.dumps(c[:2], sort_keys=True)
            if key not in seen:
                seen.add(key)
                out.append(c)
    return out


def replay(cand):
    """native run of the same body on the counterexample; outputs compared relative to the magnitude of the expected output"""
    inp = hx.to_float_struct(cand["case"])
    actual, expected = BODIES[cand["case_fn"]](inp, **cand["case_kwargs"])
    keys = [cand["obligation"]] if cand.get("obligation") in expected else list(expected)
    bad = [k for k in keys if k not in actual or not _same_scaled(actual[k], expected[k], 1e-7)]
    if bad:
        k = bad[0]
        return True, "outputs differ from the reference on the real code: %s; e.g. %s: actual=%s expected=%s" % (
            bad[:6], k, hx._short(actual.get(k)), hx._short(expected[k]))
    return False, "real code agrees with the reference on this input (%d outputs compared)" % len(keys)
