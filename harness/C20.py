"""C20 - triangle up-sampling tiles exactly; neighbourhoods, selections and containment are faithful."""
import functools
import itertools
from fractions import Fraction

import numpy as np
import z3

from symx import hx, values as V
from symx.values import is_sym

PROPERTY = "C20"
FUNCTIONS = [
    "autoarray.structures.triangles.abstract.AbstractTriangles.area",
    "autoarray.structures.triangles.abstract.AbstractTriangles._up_sample_triangle",
    "autoarray.structures.triangles.abstract.AbstractTriangles._neighborhood_triangles",
    "autoarray.structures.triangles.abstract.AbstractTriangles.for_limits_and_scale",
    "autoarray.structures.triangles.array.ArrayTriangles.triangles",
    "autoarray.structures.triangles.array.ArrayTriangles.up_sample",
    "autoarray.structures.triangles.array.ArrayTriangles.neighborhood",
    "autoarray.structures.triangles.array.ArrayTriangles.for_indexes",
    "autoarray.structures.triangles.array.ArrayTriangles.with_vertices",
    "autoarray.structures.triangles.array.ArrayTriangles.containing_indices",
    "autoarray.structures.triangles.abstract_coordinate_array.AbstractCoordinateArray.__init__",
    "autoarray.structures.triangles.abstract_coordinate_array.AbstractCoordinateArray.triangles",
    "autoarray.structures.triangles.abstract_coordinate_array.AbstractCoordinateArray.centres",
    "autoarray.structures.triangles.abstract_coordinate_array.AbstractCoordinateArray.flip_mask",
    "autoarray.structures.triangles.abstract_coordinate_array.AbstractCoordinateArray.area",
    "autoarray.structures.triangles.abstract_coordinate_array.AbstractCoordinateArray.__len__",
    "autoarray.structures.triangles.abstract_coordinate_array.AbstractCoordinateArray.for_limits_and_scale",
    "autoarray.structures.triangles.coordinate_array.CoordinateArrayTriangles.flip_array",
    "autoarray.structures.triangles.coordinate_array.CoordinateArrayTriangles.up_sample",
    "autoarray.structures.triangles.coordinate_array.CoordinateArrayTriangles.neighborhood",
    "autoarray.structures.triangles.coordinate_array.CoordinateArrayTriangles._vertices_and_indices",
    "autoarray.structures.triangles.coordinate_array.CoordinateArrayTriangles.with_vertices",
    "autoarray.structures.triangles.coordinate_array.CoordinateArrayTriangles.for_indexes",
    "autoarray.structures.triangles.coordinate_array.CoordinateArrayTriangles.containing_indices",
    "autoarray.structures.triangles.shape.Point.mask",
    "autoarray.structures.triangles.shape.centroid",
    "autoarray.structures.triangles.shape.Circle.mask",
    "autoarray.structures.triangles.shape.Square.__init__",
    "autoarray.structures.triangles.shape.Square.mask",
    "autoarray.structures.triangles.shape.Triangle.__init__",
    "autoarray.structures.triangles.shape.Triangle.mask",
    "autoarray.structures.triangles.shape.Triangle.triangle_contains_mask",
    "autoarray.structures.triangles.shape.Polygon.__init__",
    "autoarray.structures.triangles.shape.Polygon.mask",
]
EXPLORER_OPTS = {"timeout_ms": 20000, "max_paths": 200000, "max_decisions": 400000}
BUDGET_S = {"quick": 900, "thorough": 2300}
TOL = 1e-9          # concrete-side tolerance for "coincident" coordinates (replay / encoding validation only)
DELTA = 1e-9        # a reference point counts as inside a triangle when all three barycentric coordinates exceed DELTA (scale-free)


def PRE_INSTALL():
    # the triangle modules are not imported by `import autoarray`; load them so that shim.install() rebinds their `np`
    import autoarray.structures.triangles.abstract  # noqa
    import autoarray.structures.triangles.array  # noqa
    import autoarray.structures.triangles.abstract_coordinate_array  # noqa
    import autoarray.structures.triangles.coordinate_array  # noqa
    import autoarray.structures.triangles.shape  # noqa


def POST_INSTALL():
    from symx import shim
    shim.NPFacade.unique = _facade_unique
    shim.NPFacade.mean = _facade_mean
    # SymReal has no `%`: model python's float modulo for a concrete positive modulus (x - m*floor(x/m), linear with an integer part);
    # a symbolic modulus would be non-linear mixed integer/real arithmetic -> Unsupported (the case fails loudly)
    if not hasattr(V.SymReal, "__mod__"):
        def _mod(self, o):
            if isinstance(o, np.ndarray):
                return NotImplemented
            if V._is_num(o) and float(o) > 0:
                m = V.rval(o)
                return V.SymReal(self.t - m * z3.ToReal(z3.ToInt(self.t / m)))
            raise V.Unsupported("symbolic %% with a symbolic or non-positive modulus")
        V.SymReal.__mod__ = _mod


# ---------------------------------------------------------------------------------------------------------------
# ordering of symbolic scalars: syntactic decision on linear forms where possible, otherwise a fork decided by z3

_EXACT = [True]     # False in the concrete-side-length variant: concrete float parts are rounded, coincidence / equality up to TOL
_POS = set()         # names of solver variables assumed > 0 on the current path (set by the case functions)
_LIN_MEMO = {}


def _lin(t):
    """linear form of a z3 real term: ({var name: Fraction}, const) or None when not linear"""
    k = t.get_id()
    hit = _LIN_MEMO.get(k)
    if hit is not None:
        return hit[1]
    r = _lin_raw(t)
    if len(_LIN_MEMO) > 400000:
        _LIN_MEMO.clear()
    _LIN_MEMO[k] = (t, r)       # keep t alive so that ids are not reused
    return r


def _lin_raw(t):
    if z3.is_rational_value(t):
        return {}, Fraction(t.numerator_as_long(), t.denominator_as_long())
    if z3.is_int_value(t):
        return {}, Fraction(t.as_long())
    if z3.is_const(t):
        if t.decl().kind() == z3.Z3_OP_UNINTERPRETED and z3.is_real(t):
            return {t.decl().name(): Fraction(1)}, Fraction(0)
        return None
    kind = t.decl().kind()
    ch = t.children()
    if kind == z3.Z3_OP_ADD:
        acc, c0 = {}, Fraction(0)
        for c in ch:
            r = _lin(c)
            if r is None:
                return None
            for n, v in r[0].items():
                acc[n] = acc.get(n, 0) + v
            c0 += r[1]
        return acc, c0
    if kind == z3.Z3_OP_SUB:
        r = _lin(ch[0])
        if r is None:
            return None
        acc, c0 = dict(r[0]), r[1]
        for c in ch[1:]:
            r = _lin(c)
            if r is None:
                return None
            for n, v in r[0].items():
                acc[n] = acc.get(n, 0) - v
            c0 -= r[1]
        return acc, c0
    if kind == z3.Z3_OP_UMINUS:
        r = _lin(ch[0])
        if r is None:
            return None
        return {n: -v for n, v in r[0].items()}, -r[1]
    if kind == z3.Z3_OP_MUL:
        acc, c0 = {}, Fraction(1)
        for c in ch:
            r = _lin(c)
            if r is None:
                return None
            if acc and r[0]:
                return None         # product of two non-constant forms
            if r[0]:
                acc, c0 = {n: v * c0 for n, v in r[0].items()}, r[1] * c0
            else:
                acc, c0 = {n: v * r[1] for n, v in acc.items()}, c0 * r[1]
        return acc, c0
    if kind == z3.Z3_OP_DIV:
        a, b = _lin(ch[0]), _lin(ch[1])
        if a is None or b is None or b[0] or b[1] == 0:
            return None
        return {n: v / b[1] for n, v in a[0].items()}, a[1] / b[1]
    if kind == z3.Z3_OP_TO_REAL:
        return None
    return None


def _sign_syntactic(a, b):
    """sign of a-b when it follows from the linear forms and the positivity assumptions alone, else None"""
    try:
        la, lb = _lin(V.to_real_term(a)), _lin(V.to_real_term(b))
    except Exception:  # noqa
        return None
    if la is None or lb is None:
        return None
    d = dict(la[0])
    for n, v in lb[0].items():
        d[n] = d.get(n, 0) - v
    c = la[1] - lb[1]
    coeffs = [(n, v) for n, v in d.items() if v != 0]
    if not coeffs:
        if not _EXACT[0] and abs(c) <= TOL:
            return 0            # concrete-side variant: float-rounded concrete parts, coincidence up to TOL
        return (c > 0) - (c < 0)
    if all(n in _POS for n, _ in coeffs):
        if all(v > 0 for _, v in coeffs) and c >= 0:
            return 1
        if all(v < 0 for _, v in coeffs) and c <= 0:
            return -1
    return None


_AUDIT = [0]


def _audit(a, b, s):
    """every 64th syntactic ordering decision is re-decided by z3 under the path condition (must be entailed)"""
    _AUDIT[0] += 1
    if _AUDIT[0] % 64:
        return
    c = V._CTX[0]
    if c is None:
        return
    claim = (a < b) if s < 0 else ((a == b) if s == 0 else (a > b))
    if s == 0 and not _EXACT[0]:
        claim = (a - b <= TOL) & (b - a <= TOL)
    r, _ = c._check(z3.Not(claim.t))
    if r != "unsat":
        c.stats.errors.append("audit: syntactic ordering decision not entailed (%s): %s vs %s" % (r, a, b))


def cmp3(a, b):
    """three-way comparison; symbolic operands: decided syntactically or by forking the path (z3 decides feasibility);
    concrete operands: float comparison with tolerance TOL"""
    if is_sym(a) or is_sym(b):
        s = _sign_syntactic(a, b)
        if s is not None:
            _audit(a, b, s)
            return s
        if bool(a < b):
            return -1
        if bool(a == b):
            return 0
        return 1
    a, b = float(a), float(b)
    if abs(a - b) <= TOL * (1.0 + max(abs(a), abs(b))):
        return 0
    return -1 if a < b else 1


def lexcmp(p, q):
    for a, b in zip(p, q):
        c = cmp3(a, b)
        if c:
            return c
    return 0


def sort_unique(rows):
    """sorted list of distinct rows (tuples of scalars), lexicographic order"""
    rows = sorted(rows, key=functools.cmp_to_key(lexcmp))
    out = []
    for r in rows:
        if not out or lexcmp(out[-1], r) != 0:
            out.append(r)
    return out


# ---------------------------------------------------------------------------------------------------------------
# model of np.unique(axis=0) for object arrays that hold proxies (NumPy refuses `axis` on object arrays)

_REAL_UNIQUE = np.unique


def _facade_unique(self, ar, return_index=False, return_inverse=False, return_counts=False, axis=None, **kw):
    from symx import shim
    a = shim.unwrap(ar)
    if not isinstance(a, np.ndarray):
        a = np.asarray(a)
    if a.dtype != object or not shim.has_sym(a):
        return _REAL_UNIQUE(shim.normalise(a), return_index=return_index, return_inverse=return_inverse,
                            return_counts=return_counts, axis=axis, **kw)
    if axis != 0 or a.ndim != 2:
        raise V.Unsupported("np.unique model: only axis=0 on 2D arrays")
    n = a.shape[0]
    rows = [tuple(a[i]) for i in range(n)]
    memo = {}

    def c(i, j):
        if i == j:
            return 0
        k = (i, j)
        if k not in memo:
            r = lexcmp(rows[i], rows[j])
            memo[k] = r
            memo[(j, i)] = -r
        return memo[k]

    order = sorted(range(n), key=functools.cmp_to_key(c))       # stable: equal rows keep their original order
    groups = []
    for i in order:
        if groups and c(groups[-1][0], i) == 0:
            groups[-1].append(i)
        else:
            groups.append([i])
    uniq = np.empty((len(groups), a.shape[1]), dtype=object)
    index = np.zeros(len(groups), dtype=np.intp)
    inverse = np.zeros(n, dtype=np.intp)
    counts = np.zeros(len(groups), dtype=np.intp)
    for g, members in enumerate(groups):
        for col in range(a.shape[1]):
            uniq[g, col] = rows[members[0]][col]
        index[g] = min(members)
        counts[g] = len(members)
        for i in members:
            inverse[i] = g
    out = (uniq,)
    if return_index:
        out += (index,)
    if return_inverse:
        out += (inverse,)
    if return_counts:
        out += (counts,)
    return out if len(out) > 1 else out[0]


def _facade_mean(self, a, axis=None, **kw):
    from symx import shim
    if shim.has_sym(a):
        arr = np.asarray(shim.unwrap(a) if not isinstance(a, (list, tuple)) else list(a), dtype=object)
        if axis is None:
            return arr.sum() / arr.size
        return arr.sum(axis=axis) / arr.shape[axis]
    return np.mean(a, axis=axis, **kw)


# ---------------------------------------------------------------------------------------------------------------
# reference geometry (independent of the repository; plain arithmetic on proxies or floats)

def _tris(x):
    x = np.asarray(hx.unwrap(x))
    return [[(t[k, 0], t[k, 1]) for k in range(3)] for t in x.reshape(-1, 3, 2)]


def _mid(p, q):
    return ((p[0] + q[0]) / 2, (p[1] + q[1]) / 2)


def ref_subdivide(tris):
    """the canonical midpoint subdivision: three corner triangles and the medial triangle"""
    out = []
    for a, b, c in tris:
        mab, mbc, mca = _mid(a, b), _mid(b, c), _mid(c, a)
        out += [[a, mab, mca], [b, mbc, mab], [c, mca, mbc], [mab, mbc, mca]]
    return out


def ref_neighbourhood(tris):
    """every triangle together with its three reflections through an edge midpoint (the edge-sharing congruent neighbours)"""
    out = []
    for a, b, c in tris:
        out.append([a, b, c])
        out.append([(b[0] + c[0] - a[0], b[1] + c[1] - a[1]), b, c])
        out.append([a, (a[0] + c[0] - b[0], a[1] + c[1] - b[1]), c])
        out.append([a, b, (a[0] + b[0] - c[0], a[1] + b[1] - c[1])])
    return out


def canon_set(tris):
    """a set of triangles as a canonical array (n, 6): every triangle = its lexicographically sorted vertices,
    triangles sorted and de-duplicated.  Two triangle lists describe the same set of triangles iff the arrays agree."""
    rows = []
    for t in tris:
        vs = sorted(t, key=functools.cmp_to_key(lexcmp))
        rows.append(tuple(vs[0]) + tuple(vs[1]) + tuple(vs[2]))
    rows = sort_unique(rows)
    out = np.empty((len(rows), 6), dtype=object)
    for i, r in enumerate(rows):
        for j in range(6):
            out[i, j] = r[j]
    return out


def canon_points(pts):
    pts = np.asarray(hx.unwrap(pts)).reshape(-1, 2)
    return sort_unique([(p[0], p[1]) for p in pts])


def subset_points(small, big):
    """every point of `small` occurs in `big` (both sorted, distinct)"""
    j = 0
    for p in small:
        while j < len(big) and lexcmp(big[j], p) < 0:
            j += 1
        if j >= len(big) or lexcmp(big[j], p) != 0:
            return False
    return True


def shoelace(t):
    (x1, y1), (x2, y2), (x3, y3) = t
    return 0.5 * abs(x1 * (y2 - y3) + x2 * (y3 - y1) + x3 * (y1 - y2))


def shoelace_sum(tris):
    tot = 0.0
    for t in tris:
        tot = tot + shoelace(t)
    return tot


def _and(*xs):
    acc = True
    for x in xs:
        if isinstance(x, (bool, np.bool_)):
            if not x:
                return False
            continue
        acc = x if acc is True else (acc & x)
    return acc


def _or(*xs):
    acc = False
    for x in xs:
        if isinstance(x, (bool, np.bool_)):
            if x:
                return True
            continue
        acc = x if acc is False else (acc | x)
    return acc


def _implies(a, b):
    if isinstance(a, (bool, np.bool_)):
        return b if a else True
    if isinstance(b, (bool, np.bool_)):
        return True if b else ~a
    return (~a) | b


def _eq_scalar(a, b):
    if is_sym(a) or is_sym(b):
        if not _EXACT[0]:
            return (a - b <= TOL) & (b - a <= TOL)
        return a == b
    a, b = float(a), float(b)
    return abs(a - b) <= TOL * (1.0 + max(abs(a), abs(b)))


def _eq_pt(p, q):
    return _and(_eq_scalar(p[0], q[0]), _eq_scalar(p[1], q[1]))


def _all_eq(X, Y):
    X, Y = np.asarray(hx.unwrap(X)), np.asarray(hx.unwrap(Y))
    if X.shape != Y.shape:
        return False
    return _and(*[_eq_scalar(x, y) for x, y in zip(X.reshape(-1), Y.reshape(-1))])


def same_triangle(t, u):
    """t and u have the same three vertices (in any order) - a formula, no forking"""
    return _or(*[_and(*[_eq_pt(t[k], u[perm[k]]) for k in range(3)]) for perm in itertools.permutations(range(3))])


def same_triangle_set(ts, us):
    """every triangle of ts occurs in us and vice versa - a formula, no forking"""
    return _and(*([_or(*[same_triangle(t, u) for u in us]) for t in ts] + [_or(*[same_triangle(t, u) for t in ts]) for u in us]))


def strictly_inside(p, t):
    (x1, y1), (x2, y2), (x3, y3) = t
    px, py = p
    d1 = (x2 - x1) * (py - y1) - (y2 - y1) * (px - x1)
    d2 = (x3 - x2) * (py - y2) - (y3 - y2) * (px - x2)
    d3 = (x1 - x3) * (py - y3) - (y1 - y3) * (px - x3)
    # scale-free margin: every barycentric coordinate d_i / D exceeds DELTA, D = d1 + d2 + d3 = twice the signed area (non-zero)
    D = d1 + d2 + d3
    m = D * DELTA
    return _or(_and(D > 0, d1 > m, d2 > m, d3 > m), _and(D < 0, d1 < m, d2 < m, d3 < m))


def _safe(f, *a, **kw):
    return hx.attempt(f, *a, **kw)


def _ok(x):
    return not isinstance(x, hx.Raised)


# ---------------------------------------------------------------------------------------------------------------
# obligations shared by both representations

def _subsets(n, mode):
    if mode == "all":
        out = []
        for r in range(1, n + 1):
            out += [list(c) for c in itertools.combinations(range(n), r)]
        if n >= 2:
            out.append(list(range(n))[::-1])
            out.append([0, 0])
        return out
    out = [[0], [n - 1], list(range(n))[::-1], list(range(0, n, 2)), list(range(n // 2, n))]
    uniq = []
    for s in out:
        if s and s not in uniq:
            uniq.append(s)
    return uniq


def set_obligations(A, E, tag, T, P, area_ref, subsets, nonlinear_area=True, chain=False):
    """T: a triangle set of the repository (either representation); P: its triangles as a python list (read from T.triangles)."""
    n = len(P)
    exp_children = canon_set(ref_subdivide(P))
    exp_nb = canon_set(ref_neighbourhood(P))
    U = _safe(T.up_sample)
    if not _ok(U):
        A[tag + "up_sample"] = U
        E[tag + "up_sample"] = "no exception"
    else:
        ut = _safe(lambda: _tris(U.triangles))
        A[tag + "up_sample.count"] = _safe(lambda: [len(U), len(ut)])
        E[tag + "up_sample.count"] = [4 * n, 4 * n]
        A[tag + "up_sample.children_are_midpoint_subdivision"] = _safe(lambda: canon_set(ut))
        E[tag + "up_sample.children_are_midpoint_subdivision"] = exp_children
        A[tag + "up_sample.original_vertices_kept"] = _safe(lambda: subset_points(canon_points(T.vertices), canon_points(U.vertices)))
        E[tag + "up_sample.original_vertices_kept"] = True
        A[tag + "up_sample.vertices_indices_describe_triangles"] = _safe(lambda: np.asarray(hx.unwrap(U.vertices))[np.asarray(U.indices)].reshape(-1, 3, 2))
        E[tag + "up_sample.vertices_indices_describe_triangles"] = np.asarray(hx.unwrap(U.triangles)).reshape(-1, 3, 2) if _ok(ut) else "triangles"
        if nonlinear_area:
            A[tag + "NL.up_sample.area_conserved"] = _safe(lambda: U.area)
            E[tag + "NL.up_sample.area_conserved"] = area_ref
        if chain and _ok(ut):
            # second level: the up-sampled set (flipped lattice, shifted offset) is itself a set of the same kind
            set_obligations(A, E, tag + "up_sample().", U, ut, area_ref, [], nonlinear_area=False)
    NB = _safe(T.neighborhood)
    if not _ok(NB):
        A[tag + "neighborhood"] = NB
        E[tag + "neighborhood"] = "no exception"
    else:
        A[tag + "neighborhood.self_plus_edge_reflections"] = _safe(lambda: canon_set(_tris(NB.triangles)))
        E[tag + "neighborhood.self_plus_edge_reflections"] = exp_nb
        if chain:
            nt = _safe(lambda: _tris(NB.triangles))
            if _ok(nt):
                set_obligations(A, E, tag + "neighborhood().", NB, nt, shoelace_sum(nt), [], nonlinear_area=False)
    for sub in subsets:
        key = tag + "for_indexes%s" % (sub,)
        r = _safe(lambda: _sel(T, sub))
        A[key + ".count"] = r[0] if _ok(r) else r
        E[key + ".count"] = len(sub)
        A[key + ".same_triangles"] = r[1] if _ok(r) else r
        E[key + ".same_triangles"] = canon_set([P[i] for i in sub])


def _sel(T, sub):
    S = T.for_indexes(np.array(sub, dtype=int))
    ts = _tris(S.triangles)
    return [len(ts), canon_set(ts)]


def read_geometry(T):
    """evaluate every geometric query of a set (a history step: whatever is read here must not influence later derived objects)"""
    from autoarray.structures.triangles import shape as S
    out = []
    for f in (lambda: T.triangles, lambda: T.area, lambda: len(T), lambda: T.means, lambda: T.vertices, lambda: T.indices,
              lambda: T.up_sample().triangles, lambda: T.neighborhood().triangles, lambda: T.for_indexes(np.array([0])).triangles,
              lambda: T.containing_indices(S.Point(0.125, 0.0625)), lambda: [t for t in T]):
        out.append(_safe(f))
    return out


def derived_obligations(A, E, tag, D, W, idx):
    """D = <some set>.with_vertices(W): D must describe W[idx] - triangles, area, len - whatever was read on the parent before"""
    idx = np.asarray(idx)
    W = np.asarray(W)
    PW = [[(W[i, 0], W[i, 1]) for i in row] for row in idx]
    if not _ok(D):
        A[tag + "with_vertices"] = D
        E[tag + "with_vertices"] = "no exception"
        return PW
    # boolean form: the number of distinct vertices of a lattice set (hence the slice of W used) can differ between the exact and the
    # float64 run when float vertices coincide only up to rounding, so the outputs themselves are not compared across the two runs
    A[tag + "with_vertices.triangles_are_new_vertices[indices]"] = _safe(lambda: _all_eq(D.triangles, W[idx].reshape(-1, 3, 2)))
    E[tag + "with_vertices.triangles_are_new_vertices[indices]"] = True
    A[tag + "with_vertices.vertices"] = _safe(lambda: _all_eq(D.vertices, W.reshape(-1, 2)))
    E[tag + "with_vertices.vertices"] = True
    A[tag + "with_vertices.len"] = _safe(lambda: len(D) == len(PW))
    E[tag + "with_vertices.len"] = True
    A[tag + "NL.with_vertices.area"] = _safe(lambda: _eq_scalar(D.area, shoelace_sum(PW)))
    E[tag + "NL.with_vertices.area"] = True
    return PW


# ---------------------------------------------------------------------------------------------------------------
# integer-coordinate representation: concrete lattice coordinates / flip state, symbolic side length and offsets

def body_coord(inp, subsets="few"):
    from autoarray.structures.triangles.coordinate_array import CoordinateArrayTriangles
    from autoarray.structures.triangles.array import ArrayTriangles
    coords = np.array(inp["coords"], dtype=int).reshape(-1, 2)
    flipped = bool(inp["flipped"])
    s, xo, yo = inp["side"], inp["x_offset"], inp["y_offset"]
    n = coords.shape[0]
    A, E = {}, {}
    T = CoordinateArrayTriangles(coordinates=coords, side_length=s, x_offset=xo, y_offset=yo, flipped=flipped)
    P = _tris(T.triangles)
    A["coord.len"] = _safe(lambda: len(T))
    E["coord.len"] = n
    # the two area formulas (closed form of the lattice representation / shoelace sum of the vertex arrays) agree
    area_geo = shoelace_sum(P)
    A["NL.coord.area_is_area_of_its_triangles"] = _safe(lambda: T.area)
    E["NL.coord.area_is_area_of_its_triangles"] = area_geo
    subs = _subsets(n, subsets)
    set_obligations(A, E, "coord.", T, P, area_geo, subs, chain=(n <= 2))
    # the vertex-array representation of the same set
    AT = _safe(lambda: T.with_vertices(T.vertices))
    if not _ok(AT) or not isinstance(AT, ArrayTriangles):
        A["array_of_coord"] = AT if not _ok(AT) else type(AT).__name__
        E["array_of_coord"] = "ArrayTriangles"
        return A, E
    A["array_of_coord.same_triangles"] = _safe(lambda: np.asarray(hx.unwrap(AT.triangles)).reshape(-1, 3, 2))
    E["array_of_coord.same_triangles"] = np.asarray(hx.unwrap(T.triangles)).reshape(-1, 3, 2)
    A["NL.array_of_coord.area"] = _safe(lambda: AT.area)
    E["NL.array_of_coord.area"] = area_geo
    set_obligations(A, E, "array_of_coord.", AT, P, area_geo, subs[:2])
    # histories: both objects have been read above; replacing the vertices must give sets that describe the NEW vertices
    nv = int(np.asarray(hx.unwrap(T.vertices)).reshape(-1, 2).shape[0])
    W = np.asarray(inp["new_vertices"]).reshape(-1, 2)[:nv]
    derived_obligations(A, E, "coord.after_reads.", _safe(lambda: T.with_vertices(W)), W, T.indices)
    derived_obligations(A, E, "array_of_coord.after_reads.", _safe(lambda: AT.with_vertices(W)), W, AT.indices)
    return A, E


def case_coord(ctx, sets, subsets="few", side=None):
    k = V.integer("k")
    ctx.assume(z3.And(k.t >= 0, k.t < len(sets)))
    kk = ctx.concretize_int(k.t)
    coords, flipped = sets[kk]
    ctx.set_case(set_index=kk)
    xo, yo = V.real("x_offset"), V.real("y_offset")
    _POS.clear()
    if side is None:
        s = V.real("side")
        ctx.assume(s.t > 0)
        _POS.add("side")
    else:
        _EXACT[0] = False
        s = float(side)         # variant: concrete (dyadic) side length, offsets symbolic - everything stays linear even through % / floor
    inputs = {"coords": np.array(coords, dtype=int).reshape(-1, 2), "flipped": bool(flipped), "side": s, "x_offset": xo, "y_offset": yo,
              "new_vertices": V.real_array("w", (3 * len(coords), 2))}
    _run(ctx, body_coord, inputs, {"subsets": subsets}, validate_every=4)


def body_limits(inp, limits):
    """sets produced by CoordinateArrayTriangles.for_limits_and_scale (concrete limits, symbolic scale)"""
    from autoarray.structures.triangles.coordinate_array import CoordinateArrayTriangles
    scale = inp["scale"]
    A, E = {}, {}
    T = CoordinateArrayTriangles.for_limits_and_scale(limits[0], limits[1], limits[2], limits[3], scale)
    P = _tris(T.triangles)
    coords = np.asarray(T.coordinates)
    A["limits.side_length_is_scale"] = T.side_length
    E["limits.side_length_is_scale"] = scale
    area_geo = shoelace_sum(P)
    A["NL.limits.area_is_area_of_its_triangles"] = _safe(lambda: T.area)
    E["NL.limits.area_is_area_of_its_triangles"] = area_geo
    set_obligations(A, E, "limits.", T, P, area_geo, _subsets(len(P), "few")[:3])
    return A, E


def case_limits(ctx, limits, lo, hi):
    scale = V.real("scale")
    ctx.assume(z3.And(scale.t >= V.rval(lo), scale.t <= V.rval(hi)))
    _POS.clear()
    _POS.add("scale")
    _run(ctx, body_limits, {"scale": scale}, {"limits": limits}, validate_every=1)


# ---------------------------------------------------------------------------------------------------------------
# vertex-array representation with symbolic vertex coordinates

def body_array(inp, indices, mesh=None, subsets="all", reads=False):
    from autoarray.structures.triangles.array import ArrayTriangles
    A, E = {}, {}
    if mesh is not None:
        base = ArrayTriangles.for_limits_and_scale(*mesh)
        if reads:
            read_geometry(base)         # history: the concrete mesh is inspected before its vertices are replaced
        s, ty, tx = inp["scale"], inp["shift"][0], inp["shift"][1]
        bv = np.asarray(base.vertices, dtype=float)
        # for_limits_and_scale builds the rows with float steps of scale*sqrt(3)/2, so its vertices are a lattice only up to rounding;
        # snap them to an exactly representable (affinely equivalent) lattice so that coincident vertices coincide exactly
        height = mesh[4] * (3 ** 0.5 / 2)
        bv = np.stack([np.round(bv[:, 0] / height) * (0.875 * mesh[4]), np.round(bv[:, 1] / (mesh[4] / 2)) * (mesh[4] / 2)], axis=1)
        verts = np.empty(bv.shape, dtype=object if is_sym(s) or is_sym(ty) else float)
        for i in range(bv.shape[0]):
            verts[i, 0] = bv[i, 0] * s + ty
            verts[i, 1] = bv[i, 1] * s + tx
        T = base.with_vertices(verts)
        idx = np.asarray(base.indices)
        A["mesh.with_vertices"] = _safe(lambda: np.asarray(hx.unwrap(T.triangles)).reshape(-1, 3, 2))
        E["mesh.with_vertices"] = verts[idx].reshape(-1, 3, 2)
    else:
        idx = np.array(indices, dtype=int).reshape(-1, 3)
        verts = np.asarray(inp["vertices"]).reshape(-1, 2)
        T = ArrayTriangles(indices=idx, vertices=verts)
        W = np.asarray(inp["new_vertices"]).reshape(-1, 2)
        A["array.with_vertices"] = _safe(lambda: np.asarray(hx.unwrap(T.with_vertices(W).triangles)).reshape(-1, 3, 2))
        E["array.with_vertices"] = W[idx].reshape(-1, 3, 2)
    P = [[(verts[i, 0], verts[i, 1]) for i in row] for row in idx]
    A["array.triangles"] = _safe(lambda: np.asarray(hx.unwrap(T.triangles)).reshape(-1, 3, 2))
    E["array.triangles"] = verts[idx].reshape(-1, 3, 2)
    area_geo = shoelace_sum(P)
    A["NL.array.area"] = _safe(lambda: T.area)
    E["NL.array.area"] = area_geo
    set_obligations(A, E, "array.", T, P, area_geo, _subsets(len(P), subsets))
    # history: T has been read above (triangles, area, len, up_sample, neighborhood, for_indexes)
    if mesh is None:
        W2 = np.asarray(inp["new_vertices"]).reshape(-1, 2)
    else:
        W2 = np.empty(verts.shape, dtype=verts.dtype)
        for i in range(verts.shape[0]):
            W2[i, 0], W2[i, 1] = 2 * verts[i, 1] + 1, verts[i, 0] - verts[i, 1] / 2
    derived_obligations(A, E, "array.after_reads.", _safe(lambda: T.with_vertices(W2)), W2, idx)
    return A, E


def case_array(ctx, indices, nv, subsets="all"):
    _POS.clear()
    inputs = {"vertices": V.real_array("v", (nv, 2)), "new_vertices": V.real_array("w", (nv, 2))}
    _run(ctx, body_array, inputs, {"indices": indices, "subsets": subsets}, validate_every=8)


def case_mesh(ctx, mesh, reads=False):
    s = V.real("scale")
    ctx.assume(s.t > 0)
    _POS.clear()
    _POS.add("scale")
    inputs = {"scale": s, "shift": [V.real("ty"), V.real("tx")]}
    _run(ctx, body_array, inputs, {"indices": None, "mesh": mesh, "subsets": "few", "reads": reads}, validate_every=1)


def body_history(inp, base, indices, lattice):
    """two- and three-step histories on vertex arrays: a concrete set is fully read, then with_vertices(symbolic W) -> D (all obligations
    on D, which reads D), then D.with_vertices(integer-dtype lattice) -> L (all obligations on L)"""
    from autoarray.structures.triangles.array import ArrayTriangles
    idx = np.array(indices, dtype=int).reshape(-1, 3)
    A, E = {}, {}
    T = ArrayTriangles(indices=idx, vertices=np.array(base, dtype=float).reshape(-1, 2))
    read_geometry(T)
    W = np.asarray(inp["new_vertices"]).reshape(-1, 2)
    D = _safe(lambda: T.with_vertices(W))
    PW = derived_obligations(A, E, "history.read_then_", D, W, idx)
    if _ok(D):
        set_obligations(A, E, "history.read_then_with_vertices.", D, PW, shoelace_sum(PW), _subsets(len(PW), "all"))
        L = np.array(lattice, dtype=np.int64).reshape(-1, 2)
        DL = _safe(lambda: D.with_vertices(L))
        PL = derived_obligations(A, E, "history.read_then_with_vertices.read_then_int_", DL, L, idx)
        if _ok(DL):
            set_obligations(A, E, "history.int_lattice.", DL, PL, shoelace_sum(PL), _subsets(len(PL), "all"))
    return A, E


def case_history(ctx, base, indices, lattice):
    _POS.clear()
    nv = len(base) // 2
    _run(ctx, body_history, {"new_vertices": V.real_array("w", (nv, 2))}, {"base": base, "indices": indices, "lattice": lattice}, validate_every=8)


def body_int(inp, indices):
    """vertex arrays of INTEGER dtype (the values are enumerated by the explorer; edge midpoints are half-integers for odd coordinate sums)"""
    from autoarray.structures.triangles.array import ArrayTriangles
    idx = np.array(indices, dtype=int).reshape(-1, 3)
    verts = np.array(inp["vertices"], dtype=np.int64).reshape(-1, 2)
    A, E = {}, {}
    T = ArrayTriangles(indices=idx, vertices=verts)
    P = [[(int(verts[i, 0]), int(verts[i, 1])) for i in row] for row in idx]
    A["int.triangles"] = _safe(lambda: np.asarray(T.triangles).reshape(-1, 3, 2))
    E["int.triangles"] = verts[idx].reshape(-1, 3, 2)
    area_geo = shoelace_sum(P)
    A["NL.int.area"] = _safe(lambda: T.area)
    E["NL.int.area"] = area_geo
    set_obligations(A, E, "int.", T, P, area_geo, _subsets(len(P), "all"))
    return A, E


def case_int(ctx, indices, nv, lo, hi, fixed=None):
    _POS.clear()
    vals = []
    for j in range(2 * nv):
        if fixed is not None and fixed[j] is not None:
            vals.append(int(fixed[j]))
            continue
        t = V.integer("iv%d" % j)
        ctx.assume(z3.And(t.t >= lo, t.t <= hi))
        vals.append(ctx.concretize_int(t.t))
    verts = np.array(vals, dtype=np.int64).reshape(nv, 2)
    ctx.set_case(int_vertices=verts.tolist())
    _run(ctx, body_int, {"vertices": verts}, {"indices": indices}, validate_every=16)


def body_kernels(inp, indices):
    """the two vectorised helpers behind both up_sample / neighborhood implementations, all vertices symbolic, no forking:
    the sets are compared by a formula (every produced triangle equals some reference triangle as a vertex set and vice versa)"""
    from autoarray.structures.triangles.array import ArrayTriangles
    idx = np.array(indices, dtype=int).reshape(-1, 3)
    verts = np.asarray(inp["vertices"]).reshape(-1, 2)
    T = ArrayTriangles(indices=idx, vertices=verts)
    P = [[(verts[i, 0], verts[i, 1]) for i in row] for row in idx]
    A, E = {}, {}
    up = _safe(lambda: _tris(T._up_sample_triangle()))
    A["kernel.up_sample.count"] = len(up) if _ok(up) else up
    E["kernel.up_sample.count"] = 4 * len(P)
    A["kernel.up_sample.set"] = _safe(lambda: same_triangle_set(up, ref_subdivide(P)))
    E["kernel.up_sample.set"] = True
    A["NL.kernel.up_sample.quarter_area"] = _safe(lambda: np.array([shoelace(t) for t in up], dtype=object))
    E["NL.kernel.up_sample.quarter_area"] = np.array([shoelace(P[k % len(P)]) / 4 for k in range(4 * len(P))], dtype=object)
    nb = _safe(lambda: _tris(T._neighborhood_triangles()))
    A["kernel.neighborhood.count"] = len(nb) if _ok(nb) else nb
    E["kernel.neighborhood.count"] = 4 * len(P)
    A["kernel.neighborhood.set"] = _safe(lambda: same_triangle_set(nb, ref_neighbourhood(P)))
    E["kernel.neighborhood.set"] = True
    return A, E


def case_kernels(ctx, indices, nv):
    _POS.clear()
    _run(ctx, body_kernels, {"vertices": V.real_array("v", (nv, 2))}, {"indices": indices}, validate_every=1)


# ---------------------------------------------------------------------------------------------------------------
# containment: reference point strictly inside a triangle => the triangle is reported

TEMPLATES = {
    # concrete vertex offsets (x, y); the shape is the template translated by a symbolic vector
    "tri_small": [(0.0, 0.0), (0.25, 0.0), (0.0, 0.25)],
    "tri_large": [(0.0, 0.0), (2.0, 0.5), (-1.0, 3.0)],
    "quad_small": [(0.0, 0.0), (0.125, 0.0), (0.125, 0.125), (0.0, 0.125)],
    "quad_nonconvex": [(0.0, 0.0), (2.0, 0.0), (0.5, 0.5), (0.0, 2.0)],
    "pent": [(0.0, 0.0), (1.0, -0.5), (2.0, 0.0), (1.5, 1.0), (0.25, 1.0)],
    "sliver": [(0.0, 0.0), (4.0, 0.0), (4.0, 0.0625)],
}


def _make_shape(kind, q):
    """-> (shape object of the repository, its reference point computed here from the constructor arguments)"""
    from autoarray.structures.triangles import shape as S
    if kind == "point":
        return S.Point(q[0], q[1]), (q[0], q[1])
    if kind == "circle":
        return S.Circle(q[0], q[1], radius=q[2]), (q[0], q[1])
    if kind == "square":
        top, bottom, left, right = q[0], q[1], q[2], q[3]
        return S.Square(top=top, bottom=bottom, left=left, right=right), ((left + right) / 2, (top + bottom) / 2)
    if kind == "triangle":
        vs = [(q[0], q[1]), (q[2], q[3]), (q[4], q[5])]
    elif kind.startswith("polygon") and "@" not in kind:
        k = int(kind[len("polygon"):])
        vs = [(q[2 * i], q[2 * i + 1]) for i in range(k)]
    else:
        tmpl = TEMPLATES[kind.split("@")[1]]
        vs = [(cx + q[0], cy + q[1]) for (cx, cy) in tmpl]
    k = len(vs)
    sx, sy = 0.0, 0.0
    for v in vs:
        sx, sy = sx + v[0], sy + v[1]
    ref = (sx / k, sy / k)
    if kind.startswith("triangle"):
        return S.Triangle(*vs), ref
    return S.Polygon(vs), ref


def n_params(kind):
    if "@" in kind:
        return 2
    return {"point": 2, "circle": 3, "square": 4, "triangle": 6}.get(kind) or 2 * int(kind[len("polygon"):])


def _containment(A, E, tag, T, P, shape, ref, target):
    n = len(P)
    mask = _safe(lambda: np.asarray(shape.mask(np.asarray(hx.unwrap(T.triangles)))))
    idx = _safe(lambda: [int(i) for i in np.asarray(T.containing_indices(shape)).reshape(-1)])
    if not _ok(mask) or not _ok(idx):
        A[tag + "no_exception"] = "mask=%r containing_indices=%r" % (mask if not _ok(mask) else "ok", idx if not _ok(idx) else "ok")
        E[tag + "no_exception"] = "mask='ok' containing_indices='ok'"
        return
    A[tag + "mask_shape"] = list(np.shape(mask))
    E[tag + "mask_shape"] = [n]
    A[tag + "containing_indices_valid"] = bool(all(0 <= i < n for i in idx) and len(set(idx)) == len(idx))
    E[tag + "containing_indices_valid"] = True
    A[tag + "containing_indices_is_where_mask"] = bool(idx == [i for i in range(n) if np.shape(mask) == (n,) and mask[i]])
    E[tag + "containing_indices_is_where_mask"] = True
    # refinement step (two entry points): selecting the reported positions gives exactly the triangles at those positions
    if idx:
        A[tag + "for_indexes(containing_indices)_selects_reported_triangles"] = _safe(
            lambda: _all_eq(T.for_indexes(np.array(idx, dtype=int)).triangles, np.array([[list(v) for v in P[i]] for i in idx], dtype=object)))
        E[tag + "for_indexes(containing_indices)_selects_reported_triangles"] = True
    inside = strictly_inside(ref, P[target])
    A[tag + "reference_point_inside_implies_mask"] = _implies(inside, bool(mask[target]) if np.shape(mask) == (n,) else False)
    E[tag + "reference_point_inside_implies_mask"] = True
    A[tag + "reference_point_inside_implies_containing_indices"] = _implies(inside, target in idx)
    E[tag + "reference_point_inside_implies_containing_indices"] = True


def _shape_setup(inp, coords, flipped, side, kind):
    from autoarray.structures.triangles.coordinate_array import CoordinateArrayTriangles
    from autoarray.structures.triangles.array import ArrayTriangles
    q = list(inp["shape"])
    if coords is not None:
        c = np.array(coords, dtype=int).reshape(-1, 2)
        xo, yo = inp["offset"]
        T = CoordinateArrayTriangles(coordinates=c, side_length=side, x_offset=xo, y_offset=yo, flipped=bool(flipped))
        P = _tris(T.triangles)
    else:
        verts = np.asarray(inp["vertices"]).reshape(-1, 2)
        idx = np.arange(verts.shape[0]).reshape(-1, 3)
        T = ArrayTriangles(indices=idx, vertices=verts)
        P = [[(verts[i, 0], verts[i, 1]) for i in row] for row in idx]
    shape, ref = _make_shape(kind, q)
    return T, P, shape, ref


def body_shape(inp, coords, flipped, side, kind):
    """the triangle `target` is reported by shape.mask / containing_indices whenever the shape's reference point lies strictly inside it"""
    from autoarray.structures.triangles.coordinate_array import CoordinateArrayTriangles
    target = int(inp["target"])
    A, E = {}, {}
    T, P, shape, ref = _shape_setup(inp, coords, flipped, side, kind)
    rep = "coord" if coords is not None else "array"
    _containment(A, E, "%s.%s." % (rep, kind), T, P, shape, ref, target)
    if isinstance(T, CoordinateArrayTriangles):
        AT = T.with_vertices(T.vertices)
        _containment(A, E, "array_of_coord.%s." % kind, AT, P, shape, ref, target)
    return A, E


def case_shape(ctx, coords, flipped, side, kind, nvert=0, fixed=None):
    """coords given: integer-coordinate set with concrete side length, symbolic offsets;
    coords None: vertex array of nvert/3 triangles with symbolic vertex coordinates. Shape parameters symbolic.
    The path is restricted to 'reference point strictly inside triangle `target`' (one exploration per target)."""
    _POS.clear()
    n = len(coords) if coords is not None else nvert // 3
    t = V.integer("target")
    ctx.assume(z3.And(t.t >= 0, t.t < n))
    target = ctx.concretize_int(t.t)
    inputs = {"target": target, "shape": [V.real("q%d" % i) for i in range(n_params(kind))]}
    if coords is not None:
        inputs["offset"] = [V.real("x_offset"), V.real("y_offset")]
    else:
        vs = V.real_array("v", (nvert, 2))
        for j, val in enumerate(fixed or []):
            if val is not None:
                vs[j // 2, j % 2] = np.float64(val)
        inputs["vertices"] = vs
    kw = {"coords": coords, "flipped": flipped, "side": side, "kind": kind}
    T, P, shape, ref = _shape_setup(inputs, **kw)
    ctx.assume(strictly_inside(ref, P[target]))
    _run(ctx, body_shape, inputs, kw, validate_every=8)


# ---------------------------------------------------------------------------------------------------------------

def _run(ctx, body, inputs, kwargs, validate_every=1):
    """hx.run_body with the non-linear (area) obligations decided by a fresh QF_NRA solver per query"""
    ctx.set_inputs(**inputs)
    actual, expected = body(inputs, **kwargs)
    lin = [k for k in expected if "NL." not in k]
    nl = [k for k in expected if "NL." in k]
    tol = None if _EXACT[0] else TOL
    _EXACT[0] = True
    hx.check_all(ctx, actual, expected, only=lin, tol=tol)
    if nl:
        old = ctx.logic
        ctx.logic = "QF_NRA"
        try:
            hx.check_all(ctx, actual, expected, only=nl, tol=tol)
        finally:
            ctx.logic = old
    if sum(1 for c in ctx.stats.candidates if c.known is None) >= ctx.max_candidates:
        # enough counterexample candidates for this case: they are replayed by the driver; do not explore the remaining paths
        raise StopCase("case stopped after %d counterexample candidates (remaining paths not explored)" % ctx.max_candidates)
    if validate_every:
        hx.validate(ctx, body, inputs, kwargs, actual, every=validate_every)


class StopCase(Exception):
    pass


BODIES = {"case_coord": body_coord, "case_limits": body_limits, "case_array": body_array, "case_mesh": body_array,
          "case_kernels": body_kernels, "case_shape": body_shape, "case_history": body_history, "case_int": body_int}


def replay(cand):
    kw = dict(cand["case_kwargs"])
    fn = cand["case_fn"]
    case = dict(cand["case"])
    if fn == "case_coord":
        kw = {"subsets": kw.get("subsets", "few")}
    elif fn == "case_limits":
        kw = {"limits": kw["limits"]}
    elif fn == "case_array":
        kw = {"indices": kw["indices"], "subsets": kw.get("subsets", "all")}
    elif fn == "case_mesh":
        kw = {"indices": None, "mesh": kw["mesh"], "subsets": "few", "reads": kw.get("reads", False)}
    elif fn == "case_int":
        kw = {"indices": kw["indices"]}
    elif fn == "case_kernels":
        kw = {"indices": kw["indices"]}
    elif fn == "case_shape":
        kw = {k: kw[k] for k in ("coords", "flipped", "side", "kind")}
    c2 = dict(cand)
    c2["case_kwargs"] = kw
    c2["case"] = case
    return hx.replay_body(BODIES[fn], c2, tol=1e-6)


# ---------------------------------------------------------------------------------------------------------------
# bounds

def _coord_sets(tier):
    sets = []
    R = 3 if tier == "quick" else 5
    for flipped in (False, True):
        for cx in range(-R, R + 1):
            for cy in range(-R, R + 1):
                sets.append(([[cx, cy]], flipped))
    W = (-1, 0, 1) if tier == "quick" else (-2, -1, 0, 1, 2)
    cells = [(x, y) for x in W for y in ((-1, 0, 1) if tier == "quick" else (-2, -1, 0, 1, 2))]
    for flipped in (False, True):
        for a in cells:
            for b in cells:
                if a != b:
                    sets.append(([list(a), list(b)], flipped))
    if tier != "quick":
        win = [(x, y) for x in (0, 1, 2) for y in (0, 1)]
        for flipped in (False, True):
            for tri in itertools.permutations(win, 3):
                sets.append(([list(c) for c in tri], flipped))
    # a coordinate may be listed more than once (e.g. for_indexes with overlapping / repeated selections): positions must stay faithful
    for flipped in (False, True):
        for rep in ([[0, 0], [0, 0]], [[0, 0], [1, 0], [0, 0]], [[1, 0], [1, 0], [0, 1]]):
            sets.append((rep, flipped))
    multi = [
        [[0, 0], [1, 0], [2, 0], [1, 0], [3, 0], [4, 0]],                  # strip with a repeated entry
        [[0, 0], [1, 0], [2, 0], [0, 1], [1, 1], [2, 1]],                  # hexagon around a lattice vertex
        [[-2, 0], [-1, 0], [0, 0], [1, 0], [2, 0]],                       # strip
        [[0, 0], [0, 1], [0, -1], [3, 2], [-3, -2]],                      # column + far triangles
        [[1, 1], [0, 0], [-1, -1], [2, 1], [1, 0]],
    ]
    if tier != "quick":
        multi += [
            [[x, y] for x in range(-2, 3) for y in range(-1, 2)],
            [[0, 0], [1, 0], [1, 1], [2, 1], [2, 2], [3, 2], [3, 3]],
            [[-3, 3], [3, -3], [-3, -3], [3, 3], [0, 0]],
        ]
    for m in multi:
        for flipped in (False, True):
            sets.append((m, flipped))
    return sets


def cases(tier):
    out = []
    sets = _coord_sets(tier)
    singles = [s for s in sets if len(s[0]) == 1]
    pairs = [s for s in sets if len(s[0]) in (2, 3)]
    multi = [s for s in sets if len(s[0]) > 3]
    for m in multi:
        out.append(("case_coord", {"sets": [m], "subsets": "few"}))
    chunk = 8
    for i in range(0, len(pairs), chunk):
        out.append(("case_coord", {"sets": pairs[i:i + chunk], "subsets": "all"}))
    chunk = 12
    for i in range(0, len(singles), chunk):
        out.append(("case_coord", {"sets": singles[i:i + chunk], "subsets": "all"}))
    # variant: concrete dyadic side length with symbolic offsets (incl. the second up-sample level with half the side)
    cs = [([[0, 0]], False), ([[1, 0]], False), ([[0, 1]], True), ([[1, 1]], True), ([[0, 0], [1, 0]], False), ([[1, 0], [0, 1]], True)]
    for side in ((1.0, 0.5) if tier == "quick" else (1.0, 0.5, 4.0, 0.375)):
        out.append(("case_coord", {"sets": cs, "subsets": "all", "side": side}))
    out.append(("case_limits", {"limits": [-0.5, 0.5, -0.5, 0.5], "lo": 0.75, "hi": 1.5}))
    if tier != "quick":
        out.append(("case_limits", {"limits": [0.0, 1.0, 0.0, 1.0], "lo": 0.5, "hi": 2.0}))
    # vertex arrays, symbolic vertices
    out.append(("case_array", {"indices": [[0, 1, 2]], "nv": 3}))
    out.append(("case_kernels", {"indices": [[0, 1, 2]], "nv": 3}))
    out.append(("case_kernels", {"indices": [[0, 1, 2], [1, 2, 3]], "nv": 4}))
    out.append(("case_kernels", {"indices": [[0, 1, 2], [3, 4, 5]], "nv": 6}))
    out.append(("case_mesh", {"mesh": [0.0, 1.0, 0.0, 1.0, 1.0]}))
    out.append(("case_mesh", {"mesh": [0.0, 1.0, 0.0, 1.0, 1.0], "reads": True}))
    # histories (read geometry, then derive) and integer-dtype vertex arrays
    tri, lat1 = [0.0, 0.0, 1.0, 0.0, 0.0, 1.0], [0, 0, 3, 0, 1, 2]
    out.append(("case_history", {"base": tri, "indices": [[0, 1, 2]], "lattice": lat1}))
    out.append(("case_int", {"indices": [[0, 1, 2]], "nv": 3, "lo": -1, "hi": 1}, {"split": 3}))
    out.append(("case_int", {"indices": [[0, 1, 2]], "nv": 3, "lo": 2, "hi": 5, "fixed": [0, 0, None, None, 3, None]}))
    out.append(("case_int", {"indices": [[0, 1, 2], [1, 2, 3]], "nv": 4, "lo": -1, "hi": 1, "fixed": [0, 0, None, None, None, None, 3, 2]}))
    if tier != "quick":
        out.append(("case_array", {"indices": [[0, 1, 2], [1, 2, 3]], "nv": 4, "subsets": "all"}, {"split": 5}))
        out.append(("case_mesh", {"mesh": [0.0, 1.0, 0.0, 2.0, 0.5]}))
        out.append(("case_mesh", {"mesh": [0.0, 1.0, 0.0, 2.0, 0.5], "reads": True}))
        out.append(("case_history", {"base": [0.0, 0.0, 1.0, 0.0, 0.0, 1.0, 1.0, 1.0], "indices": [[0, 1, 2], [1, 2, 3]],
                                     "lattice": [0, 0, 1, 0, 0, 1, 2, 3]}, {"split": 5}))
        out.append(("case_int", {"indices": [[0, 1, 2]], "nv": 3, "lo": -1, "hi": 2}, {"split": 5}))
        out.append(("case_int", {"indices": [[0, 1, 2]], "nv": 3, "lo": -3, "hi": 3, "fixed": [0, 0, None, None, None, None]}, {"split": 4}))
        out.append(("case_int", {"indices": [[0, 1, 2], [1, 2, 3]], "nv": 4, "lo": -1, "hi": 1, "fixed": [0, 0, None, None, None, None, None, None]}, {"split": 4}))
        out.append(("case_kernels", {"indices": [[0, 1, 2], [1, 2, 3], [2, 3, 4]], "nv": 5}))
    # containment
    S1, S2, S3 = ([[0, 0]], False, 1.0), ([[1, 0]], False, 1.0), ([[0, 0]], True, 0.5)
    S4, S5, S6 = ([[0, 0], [1, 0]], False, 2.0), ([[0, 1], [1, 1], [0, 0]], True, 1.0), ([[-1, 2], [2, -1]], False, 0.25)
    plan = [("point", [S1, S2, S3, S4, S5]), ("circle", [S1, S2, S3, S4, S5]), ("square", [S1, S2, S3, S4]),
            ("triangle@tri_small", [S1, S2, S4]), ("triangle@tri_large", [S1]), ("polygon@quad_small", [S1, S2]),
            ("polygon@quad_nonconvex", [S2])]
    if tier != "quick":
        plan = [("point", [S1, S2, S3, S4, S5, S6]), ("circle", [S1, S2, S3, S4, S5, S6]), ("square", [S1, S2, S3, S4, S5, S6]),
                ("triangle@tri_small", [S1, S2, S3, S4, S6]), ("triangle@tri_large", [S1, S2, S4]), ("triangle@sliver", [S1, S2]),
                ("polygon@quad_small", [S1, S2, S3]), ("polygon@quad_nonconvex", [S1, S2]), ("polygon@pent", [S1, S2])]
    # scale dimension (deep refinement levels / large fields): the clause is scale-free; repeated coordinates: positions stay faithful
    T1, T2, T3 = ([[0, 0], [1, 0]], False, 2.0 ** -21), ([[1, 0]], True, 2.0 ** -34), ([[0, 0], [1, 0]], False, 2.0 ** 12)
    R1, R2 = ([[0, 0], [1, 0], [0, 0], [2, 0]], False, 1.0), ([[1, 0], [0, 0], [1, 0], [2, 0], [3, 0]], True, 0.5)
    extra = [("point", [T1, T2, T3, R1, R2]), ("circle", [T1, T2, T3, R1]), ("square", [T1, T2, R1]), ("triangle@tri_small", [T2]),
             ("polygon@quad_small", [T2])]
    if tier != "quick":
        extra += [("circle", [R2]), ("square", [T3, R2]), ("triangle@tri_small", [T1, T3, R1]), ("triangle@tri_large", [T1, T2])]
    for kind, ss in plan + extra:
        for coords, flipped, side in ss:
            out.append(("case_shape", {"coords": coords, "flipped": flipped, "side": side, "kind": kind}))
    # all shape vertices symbolic (non-linear barycentric tests); a symbolic 4-gon does not terminate (> 15 min without a first path)
    for kind in (("triangle",) if tier == "quick" else ("triangle", "polygon3")):
        for S in ((S1,) if tier == "quick" else (S1, S2)):
            out.append(("case_shape", {"coords": S[0], "flipped": S[1], "side": S[2], "kind": kind}, {"split": 4, "logic": "QF_NRA"}))
    # vertex array, one vertex symbolic (Point.mask treats the three vertices differently), shape symbolic
    fixed = [[None, None, 1.0, 0.0, -0.5, 2.0], [-1.0, -0.25, None, None, 0.5, 2.0], [1.0, 1.0, -2.0, 0.5, None, None]]
    for kind in ("point", "circle", "square"):
        for f in (fixed if kind != "square" else fixed[:1]):      # square with vertex 1 / 2 symbolic: z3 (nlsat) needs > 30 min
            out.append(("case_shape", {"coords": None, "flipped": False, "side": None, "kind": kind, "nvert": 3, "fixed": f}, {"logic": "QF_NRA"}))
    return out


BOUNDS = {
    "quick": "integer-coordinate sets: every single triangle with coordinates in [-3,3]^2, every ordered pair from a 3x3 window, 4 larger sets "
             "(hexagon, strip, scattered; 5-6 triangles), each with flipped=False/True; side length (> 0), x/y offsets symbolic reals; second level "
             "(up_sample / neighborhood of the up-sampled and of the neighbourhood set) for sets of <= 2 triangles; index subsets: all non-empty "
             "subsets (+ reversed, repeated) for sets of <= 2 triangles, 5 fixed subsets otherwise; for_limits_and_scale with concrete limits and "
             "symbolic scale in [0.75, 1.5]. Vertex arrays: one triangle with all 6 vertex coordinates symbolic (public methods, np.unique explored by "
             "forking on coordinate comparisons, ties and degenerate triangles included); 1-2 triangles (shared edge / disjoint) all coordinates "
             "symbolic at the level of the vectorised helpers (one formula, no forking); the mesh topology of ArrayTriangles.for_limits_and_scale(0,1,0,1,1) "
             "snapped to an exact lattice under a symbolic similarity (scale > 0, shift). Containment (reference point strictly inside triangle t => t "
             "reported by shape.mask and containing_indices, both representations): Point / Circle / Square with all parameters symbolic on 4-5 small "
             "coordinate sets (1-3 triangles, concrete dyadic side length, symbolic offsets) and on a vertex-array triangle with one symbolic vertex; "
             "Triangle / Polygon shapes: 4 concrete templates (3-4 vertices, one non-convex) under a symbolic translation, plus a Triangle with all six "
             "vertex coordinates symbolic on one lattice triangle. Histories: every derived-object clause is also checked after the parent "
             "has been read (triangles, area, len, up_sample, neighborhood, for_indexes, containing_indices, iteration): with_vertices(symbolic W) "
             "on fully read lattice sets, their vertex arrays, the symbolic triangle, the (concrete, read) mesh and a read concrete triangle, "
             "followed by with_vertices(integer lattice). Integer-dtype vertex arrays (values ENUMERATED by the explorer, no real-valued variable): "
             "one triangle with all six coordinates in [-1,1] (729 sets) and 16 larger odd-sum sets, two triangles sharing an edge (81 sets). "
             "Variant with concrete dyadic side length (1, 0.5; thorough also 4, 0.375) and symbolic offsets on 6 small sets incl. the second "
             "up-sample level (concrete float parts are rounded, so coincidence / equality there is up to 1e-9). "
             "Lattice sets with a coordinate listed more than once (2-6 entries) in the set and containment clauses; containment also at side "
             "lengths 2^-21, 2^-34 and 2^12 (the inside test is scale-free: barycentric coordinates > 1e-9) and with the refinement step "
             "for_indexes(containing_indices(shape)) == the triangles at the reported positions.",
    "thorough": "single coordinates in [-5,5]^2, ordered pairs from a 5x5 window, ordered triples from a 3x2 window, 7 larger sets (up to 15 triangles); two for_limits_and_scale ranges "
                "(scale in [0.5, 2]); vertex arrays additionally two triangles sharing an edge with all 8 coordinates symbolic through the public methods "
                "(4365 orderings), a second mesh, a 3-triangle strip at helper level; containment additionally a 5-gon and a sliver template, two more "
                "coordinate sets, Triangle and 3-vertex Polygon with all vertices symbolic on an upright and an inverted lattice triangle; histories on two "
                "triangles sharing an edge; integer-dtype triangles with coordinates in [-1,2]^6 (4096), (0,0)+[-3,3]^4 (2401), two triangles (729).",
}
OUTSIDE = [
    "float64 coincidence of vertices computed along different routes (np.unique on floats): the solver works in exact real arithmetic where coincident "
    "vertices are exactly equal; concrete comparisons in replay use a 1e-9 tolerance (the property's 'stated tolerance for coincident vertices')",
    "for_limits_and_scale with symbolic limits (np.arange / range over symbolic bounds); ArrayTriangles.for_limits_and_scale enters only through concrete "
    "limits followed by a symbolic similarity transform",
    "symbolic (solver-variable) lattice coordinates: boolean fancy indexing needs concrete coordinates, they are enumerated",
    "NaN-padded / JAX variants (jax_array.py, jax_coordinate_array.py; jax is not installed)",
    "containment for vertex-array triangles with more than one symbolic vertex, Square with symbolic vertex 1 or 2, Polygon with >= 4 symbolic vertices "
    "(non-linear rational barycentric tests: z3 does not terminate); the converse direction (reported => intersects) is not part of the property",
    "reference points whose barycentric coordinates are within 1e-9 of 0 (relative, scale-free); degenerate triangles in the containment clause (Point.mask divides by the "
    "doubled signed area)",
    "the order of triangles / vertices in the outputs (sets of triangles are compared as sets of vertex sets, counts separately)",
]
STUBS = [
    "np.unique(axis=0[, return_inverse/return_index]) on arrays holding proxies: lexicographic stable sort + grouping of equal rows, every coordinate "
    "comparison either decided from the linear forms under the positivity assumption (side length / scale > 0) or forked and decided by z3; "
    "concrete arrays go to the real np.unique",
    "np.mean on proxies: sum / count",
    "SymReal % concrete positive modulus: x - m*floor(x/m) (python float modulo); symbolic modulus is Unsupported",
    "ordering shortcut: a comparison whose difference is a linear form c0 + sum c_i*v_i over variables assumed > 0 with all c_i, c0 of one sign "
    "is decided without the solver; every 64th such decision is re-decided by z3 (disagreement = harness error)",
    "HEIGHT_FACTOR = 3**0.5/2 enters as the exact rational value of its float64 (all checked identities are polynomial identities that hold for any value of it)",
]
ASSUMPTIONS = [
    "side length / scale > 0",
    "containment: the divisions in Point.mask / Triangle.triangle_contains_mask are by non-zero denominators (non-degenerate triangles)",
    "lattice coordinates, flip states, index subsets and the mesh topology are enumerated; all real-valued inputs are solver variables",
]
