"""C12 - all geometry is covariant under translation of the coordinate origin.

Metamorphic relation decided by the solver: every public entry point is executed twice on the real code, once on
structures whose origin is the symbolic pair o = (oy, ox) and once at o + d with d = (dy, dx) symbolic reals.
Coordinate-valued results must differ by exactly d, index / count / weight / matrix-valued results must be equal."""
import os

import numpy as np
import z3

from symx import hx, values as V

PROPERTY = "C12"
FUNCTIONS = [
    "autoarray.geometry.geometry_util.central_scaled_coordinate_2d_from",
    "autoarray.geometry.geometry_util.pixel_coordinates_2d_from",
    "autoarray.geometry.geometry_util.scaled_coordinates_2d_from",
    "autoarray.geometry.geometry_util.grid_pixels_2d_slim_from",
    "autoarray.geometry.geometry_util.grid_pixel_centres_2d_slim_from",
    "autoarray.geometry.geometry_util.grid_pixel_indexes_2d_slim_from",
    "autoarray.geometry.geometry_util.grid_scaled_2d_slim_from",
    "autoarray.geometry.geometry_util.transform_grid_2d_to_reference_frame",
    "autoarray.geometry.geometry_util.transform_grid_2d_from_reference_frame",
    "autoarray.geometry.geometry_2d.Geometry2D.extent",
    "autoarray.geometry.geometry_2d.Geometry2D.scaled_coordinate_2d_to_scaled_at_pixel_centre_from",
    "autoarray.structures.grids.grid_2d_util.grid_2d_slim_via_mask_from",
    "autoarray.structures.grids.grid_2d_util.grid_2d_slim_via_shape_native_from",
    "autoarray.structures.grids.grid_2d_util.grid_2d_centre_from",
    "autoarray.structures.grids.grid_2d_util._radial_projected_shape_slim_from",
    "autoarray.structures.grids.grid_2d_util.grid_scaled_2d_slim_radial_projected_from",
    "autoarray.structures.grids.uniform_2d.Grid2D.from_mask",
    "autoarray.structures.grids.uniform_2d.Grid2D.uniform",
    "autoarray.structures.grids.uniform_2d.Grid2D.blurring_grid_from",
    "autoarray.structures.grids.uniform_2d.Grid2D.padded_grid_from",
    "autoarray.structures.grids.uniform_2d.Grid2D.subtracted_from",
    "autoarray.structures.grids.uniform_2d.Grid2D.grid_2d_radial_projected_from",
    "autoarray.mask.mask_2d.Mask2D.mask_centre",
    "autoarray.mask.mask_2d.Mask2D.resized_from",
    "autoarray.mask.mask_2d.Mask2D.rescaled_from",
    "autoarray.mask.mask_2d.Mask2D.zoom_centre",
    "autoarray.mask.mask_2d.Mask2D.zoom_offset_scaled",
    "autoarray.mask.mask_2d.Mask2D.zoom_region",
    "autoarray.mask.mask_2d.Mask2D.zoom_mask_unmasked",
    "autoarray.mask.mask_2d.Mask2D.circular_radius",
    "autoarray.mask.derive.grid_2d.DeriveGrid2D.all_false",
    "autoarray.mask.derive.grid_2d.DeriveGrid2D.unmasked",
    "autoarray.mask.derive.grid_2d.DeriveGrid2D.edge",
    "autoarray.mask.derive.grid_2d.DeriveGrid2D.border",
    "autoarray.mask.derive.mask_2d.DeriveMask2D.all_false",
    "autoarray.mask.derive.mask_2d.DeriveMask2D.blurring_from",
    "autoarray.mask.derive.mask_2d.DeriveMask2D.edge",
    "autoarray.mask.derive.mask_2d.DeriveMask2D.edge_buffed",
    "autoarray.mask.derive.mask_2d.DeriveMask2D.border",
    "autoarray.operators.over_sampling.over_sample_util.grid_2d_slim_over_sampled_via_mask_from",
    "autoarray.operators.over_sampling.uniform.OverSamplerUniform.over_sampled_grid",
    "autoarray.operators.over_sampling.uniform.OverSamplingUniform.from_radial_bins",
    "autoarray.inversion.pixelization.border_relocator.BorderRelocator.sub_grid",
    "autoarray.inversion.pixelization.border_relocator.BorderRelocator.border_grid",
    "autoarray.inversion.pixelization.border_relocator.BorderRelocator.sub_border_grid",
    "autoarray.inversion.pixelization.image_mesh.overlay.Overlay.image_plane_mesh_grid_from",
    "autoarray.structures.arrays.uniform_2d.Array2D.zoomed_around_mask",
    "autoarray.structures.arrays.uniform_2d.Array2D.extent_of_zoomed_array",
    "autoarray.structures.arrays.uniform_2d.Array2D.resized_from",
    "autoarray.structures.arrays.uniform_2d.Array2D.padded_before_convolution_from",
    "autoarray.structures.arrays.uniform_2d.Array2D.trimmed_after_convolution_from",
    "autoarray.structures.mesh.rectangular_2d.Mesh2DRectangular.overlay_grid",
    "autoarray.inversion.pixelization.mesh.rectangular.Rectangular.mapper_grids_from",
    "autoarray.inversion.pixelization.mappers.rectangular.MapperRectangular.pix_sub_weights",
    "autoarray.inversion.pixelization.mappers.delaunay.MapperDelaunay.pix_sub_weights",
    "autoarray.inversion.pixelization.mappers.abstract.AbstractMapper.mapping_matrix",
    "autoarray.inversion.pixelization.mappers.mapper_util.pixel_weights_delaunay_from",
    "autoarray.inversion.pixelization.mappers.mapper_util.pix_indexes_for_sub_slim_index_delaunay_from",
    "autoarray.inversion.pixelization.mappers.mapper_util.mapping_matrix_from",
    "autoarray.dataset.imaging.dataset.Imaging.apply_mask",
    "autoarray.dataset.imaging.dataset.Imaging.apply_noise_scaling",
    "autoarray.dataset.imaging.dataset.Imaging.apply_over_sampling",
    "autoarray.dataset.abstract.dataset.AbstractDataset.trimmed_after_convolution_from",
    "autoarray.dataset.grids.GridsDataset.uniform",
    "autoarray.dataset.grids.GridsDataset.blurring",
    "autoarray.dataset.grids.GridsDataset.pixelization",
    "autoarray.dataset.imaging.simulator.SimulatorImaging.via_image_from",
    "autoarray.dataset.preprocess.noise_map_with_signal_to_noise_limit_from",
]
BOUNDS = {
    "quick": "symbolic reals: origin o=(oy,ox) and shift d=(dy,dx) (unbounded except where stated), array values, the origin-relative query "
             "coordinates / pixel pairs / radial centre. Enumerated: pixel scales from the dyadic set {(0.5,2),(1,1),(2,0.25),(0.25,0.5),(3,1)}; "
             "masks = 12 named masks up to 7x7 (ring with hole, off-centre blob, boundary-touching, two components, fully unmasked, single pixel, "
             "row, cross, disc, corner) plus ALL masks (>=1 unmasked pixel, by forking) of every shape with <= 6 pixels; kernels (3,3) and the trivial "
             "(1,1), (1,3); every over-sampling route (OverSamplerUniform, Grid2D.from_mask / uniform with over_sampling, BorderRelocator, "
             "from_radial_bins, dataset grids, mapper data grids) with sub size 2 AND the trivial ones: 1 as int, an all-ones adaptive Array2D, "
             "a mixed adaptive map 1,2,1,3,...; resize pads (+2,+1)/(-1,-2)/(0,0), rescale factors 2 and 1, zoom buffers 0/1, subtraction "
             "offsets (0.25,-1.5) and (0,0). ~110 mask-level outputs per mask. Pixel indices of translated points: util level with "
             "unbounded symbolic points (shapes 5x8,6x9,3x3,4x4), class level with points at most one pixel outside the extent (2x3, 3x2). Radial "
             "projection: 3 shape/scale/angle combinations, centre anywhere inside the extent, with / without projected centre, shape_slim 0/1/3. Mappers: rectangular (3x3 / 3x4 meshes) on 4 named "
             "masks + all 2x2 masks, Delaunay (9 fixed origin-relative vertices, and a single triangle) on 4 named masks, data grid = over-sampled "
             "pixel centres with sub size 2 / 1 / all-ones map / mixed map. "
             "Datasets (apply_mask / noise scaling / over sampling on masked and unmasked datasets with all four sub-size options, default "
             "argument, over sampling given at construction / trimming (3,3) and (1,1) / PSF 3x3, 1x1 and None / simulator with and without PSF "
             "and Poisson noise / S/N-limited noise map with and without noise_limit_mask): 4 named masks, concrete dyadic data and noise values. "
             "Overlay image mesh: 2x2 on 2 named masks with |o|,|o+d| <= 1 (0.75) pixel per axis; 3x3, 1x1, 1x3, 3x1, 2x3 on 5 named masks and "
             "2x2 on all 2x3 masks with unbounded origin. Border relocation (BorderRelocator.relocated_grid_from / relocated_mesh_grid_from of the "
             "over-sampled grid stretched by 1 / 1.25 / 1.5 / 2 about the origin and of 1 / 3 / 9 origin-relative mesh points) on full3x3, single5x4, "
             "row3x7 and all 2x2 masks with |o|,|o+d| <= 8 pixels (thorough: 7 more named masks, all 2x3 masks). Shared option objects: on 3 named masks + all 2x2 masks ONE OverSamplingUniform (sub 2/3 and "
             "1) / OverSamplingIterate / OverSamplingDataset (explicit and default) / Overlay / mesh.Rectangular / mesh.Delaunay / reg.Constant / "
             "SettingsInversion / Preloads / PSF / SimulatorImaging instance is used for the run at o and the run at o+d, in both orders.",
    "thorough": "as quick plus ALL masks of 3x3, 2x4, 4x2, 2x5, 5x2; every named mask a second time with kernel (3,5), sub size 3, pads (+1,+4); more "
                "shapes for points / radial; rectangular + Delaunay mappers on all 2x3 masks and more named masks; datasets on 8 named masks and all "
                "2x3 and 2x2 masks; overlay additionally on blob6x7 (2x3 mesh), all 2x2 masks (bounded) and all 3x3 masks (3x2 and 1x1 meshes, unbounded); "
                "shared option objects on 7 named masks and all 2x2 / 2x3 masks. DEEPER (same obligations): (1) each of the 12 named masks and of 8 "
                "further hard masks (9x9 annulus, 8x10 off-centre blob, 6x6 fully unmasked, 7x7 diagonal, 6x6 checkerboard, 8x8 boundary frame, 1x9 "
                "row, 9x2 column) under ALL ten dyadic pixel-scale pairs - the five above plus (0.125,4), (8,8), (1,0.0625), (1.5,0.75), (1024,0.5) - "
                "cycling kernels (3,3)/(5,5)/(5,3)/(3,7), sub sizes 2/4/3, pads (+2,+1)/(+3,+3)/(0,+2)/(+4,0); (2) ALL 4095 masks of 3x4 (scales "
                "(0.5,2)) and of 4x3 (scales (0.25,0.5), kernel (3,5), sub 3); (3) datasets on all 3x3 and 2x4 masks and on the hard masks with "
                ">= 2 rows; rectangular (meshes up to 7x7, 4x4 on all 3x3 masks) and Delaunay mappers on the hard masks and all 3x3 masks; shared "
                "option objects on the hard masks and all 3x3 / 3x2 masks; overlay meshes 4x4 / 2x5 / 5x1 / 3x3 on the hard masks, 2x2 on all 3x3 "
                "masks (unbounded) and 2x3 on all 2x4 masks (|o| <= 0.75 pixel); (4) translated points: 3 unbounded points for shapes 7x11, 1x1, 2x13, "
                "10x10, 9x4 under all ten scale pairs, class level for 4x4, 5x3, 1x6, 3x5 and two points on 2x2; radial projections for ten more "
                "angles (15 ... 359, -45, 720 degrees) on shapes 7x7, 3x9, 10x4, 1x5, 6x6.",
}
OUTSIDE = [
    "image_mesh.Hilbert / HilbertBalanced (scipy.interpolate.griddata / interp1d on the mask geometry): not executed symbolically",
    "pixel scales outside the dyadic set; symbolic pixel scales (non-linear terms o/s*s)",
    "masks larger than the named list / the forked shapes; kernel shapes, sub sizes (> 3), adaptive sub-size maps and pads other than the listed ones",
    "mappers: data grids other than the over-sampled pixel centres (e.g. deflected source-plane grids); Voronoi mappers (C library absent); "
    "border relocation of deflected (non-uniform) data grids (C18); relocation is checked here only for grids of the form origin + constant",
    "dataset pixel values are concrete (medians, Poisson draws and scipy convolution need numbers); only origins are symbolic there",
    "float64 rounding of o+d (exact reals in the solver; replay runs in float64 with 1e-7 tolerance)",
]
STUBS = [
    "scipy.spatial.Delaunay (MapperDelaunay): for vertices / query points of the form origin + constant the real qhull routine runs on the "
    "origin-relative constants; simplices and find_simplex answers are reused for the translated points (contract: qhull's triangulation and "
    "point location are translation invariant); anything not of that form raises Unsupported (harness error, never a pass)",
    "scipy.signal.convolve2d, np.random.poisson (SimulatorImaging): receive all-concrete object arrays, converted to float64, real routine",
    "np.arctan2 (radial projection): arguments whose z3 term simplifies to a numeral are passed to the real function (the grid minus its centre "
    "is concrete once the origin cancels); otherwise the engine's unit-vector angle model applies",
]
ASSUMPTIONS = [
    "the translated structures are built by the public constructors with origin=o+d (mask, arrays, datasets) and user-supplied coordinates "
    "(query points, radial centre, Delaunay vertices) are translated together with the origin",
    "relation checked: F(o+d) == F(o) + d for coordinate outputs (extent: x entries by dx, y entries by dy), F(o+d) == F(o) for index / count / "
    "weight / matrix outputs; an exception at o must be the same exception at o+d (only MaskException of blurring / circular_radius and the "
    "trimming errors of tiny arrays are accepted as results)",
    "mask bits explored by forking; known-finding regions are z3 predicates 'result identical at o and o+d' (origin ignored) per entry point",
]
EXPLORER_OPTS = {"timeout_ms": 8000, "max_paths": 20000, "max_candidates": 6}
BUDGET_S = {"quick": 600, "thorough": 3000}

# dyadic pixel scales (float arithmetic on them is exact); several are anisotropic on purpose
SCALES = [(0.5, 2.0), (1.0, 1.0), (2.0, 0.25), (0.25, 0.5), (3.0, 1.0)]


def _known_ids():
    return set(x for x in os.environ.get("VERIF_KNOWN", "").split(",") if x)


# ------------------------------------------------------------------------------------------------ small helpers

def _arr(x):
    """structure / tuple / list -> numpy array (object when proxies are inside)"""
    x = hx.unwrap(x)
    if isinstance(x, np.ndarray):
        return x
    if isinstance(x, (list, tuple)):
        try:
            if any(V.is_sym(e) for e in x):
                return np.array(list(x), dtype=object)
        except TypeError:
            pass
        a = np.array([_arr(e) if isinstance(e, (list, tuple)) else e for e in x], dtype=object)
        try:
            if not any(V.is_sym(e) for e in a.reshape(-1)):
                return a.astype(float)
        except (TypeError, ValueError):
            pass
        return a
    return np.array(x)


def _empty(a):
    """marker for an empty array result (compares by shape; hx compares Raised markers by name)"""
    return hx.Raised("Empty%s" % (tuple(a.shape),))


def _shift(kind, v, d):
    """expected value at origin o+d given the value v observed at origin o"""
    if isinstance(v, hx.Raised) or v is None:
        return v
    if kind == "inv":
        return _val(kind, v)
    a = _arr(v)
    if a.size == 0:
        return _empty(a)
    if kind == "coord":       # (..., 2) array / (y, x) tuple
        if a.shape[-1:] != (2,):
            return hx.Raised("HarnessShape")
        out = np.empty(a.shape, dtype=object)
        out[..., 0] = a[..., 0] + d[0]
        out[..., 1] = a[..., 1] + d[1]
        return out
    if kind == "extent":      # [x_min, x_max, y_min, y_max]
        return np.array([a[0] + d[1], a[1] + d[1], a[2] + d[0], a[3] + d[0]], dtype=object)
    raise ValueError(kind)


def _val(kind, v):
    if isinstance(v, hx.Raised) or v is None:
        return v
    if kind in ("coord", "extent"):
        a = _arr(v)
        return a if a.size else _empty(a)
    if isinstance(hx.unwrap(v), np.ndarray) and hx.unwrap(v).size == 0:
        return _empty(hx.unwrap(v))
    return v


class Out(dict):
    """key -> (kind, value, allowed exception names)"""

    def put(self, key, kind, f, allow=()):
        self[key] = (kind, hx.attempt(f), tuple(allow))


def relate(R1, R2, d):
    """turn the outputs at origin o (R1) and at o+d (R2) into (actual, expected) dictionaries"""
    A, E = {}, {}
    for k, (kind, v1, allow) in R1.items():
        if isinstance(v1, hx.Raised) and v1.name not in allow:
            # an entry point that fails at the first origin cannot be compared; on the unchanged tree this only happens
            # where a recorded finding makes the code index the mask with origin-dependent pixel indices
            A[k] = v1
            E[k] = "no exception at origin o"
            continue
        v2 = R2[k][1] if k in R2 else hx.Raised("MissingAtShiftedOrigin")
        A[k] = _val(kind, v2)
        E[k] = _shift(kind, v1, d)
    return A, E


def _ignored_region(R1, R2, key):
    """z3 region 'the result is the same at both origins' (the origin is ignored by the entry point)"""
    v1, v2 = R1[key][1], R2[key][1]
    if isinstance(v1, hx.Raised) or isinstance(v2, hx.Raised):
        return None
    t = hx.eq_terms(_arr(v2), _arr(v1))
    t = [z3.BoolVal(bool(x)) if isinstance(x, (bool, np.bool_)) else x for x in t]
    return z3.And(*t) if t else z3.BoolVal(True)


def _origins(inp):
    o = list(inp["origin"])
    d = list(inp["shift"])
    return o, [o[0] + d[0], o[1] + d[1]], d


def _sym_origin(ctx):
    return {"origin": [V.real("oy"), V.real("ox")], "shift": [V.real("dy"), V.real("dx")]}


def _early_stop(ctx):
    """called at the very start of a path: once three counterexample candidates (outside recorded findings) exist in this case,
    stop exploring it (a seeded fault that makes pixel look-ups origin-dependent would otherwise fork over unboundedly many index
    values).  Never taken on a tree without candidates, so it cannot turn a violation into a pass."""
    from symx.explore import PathAbort
    if sum(1 for c in ctx.stats.candidates if c.known is None) >= 3:
        raise PathAbort()


def _fork_mask(ctx, H, W):
    m = V.bool_array("m", (H, W))
    ctx.assume(z3.Or(*[z3.Not(b.t) for b in m.reshape(-1)]))
    return ctx.concrete_bools(m)


# a fixed list of larger masks: ring with hole, irregular blob off-centre, mask touching the array boundary,
# two components, fully unmasked, single pixel, elongated
def _mask_from_rows(rows):
    return np.array([[c != "." for c in r] for r in rows])       # '.' = unmasked (False), anything else = masked


MASKS = {
    "ring5": _mask_from_rows(["#####", "#...#", "#.#.#", "#...#", "#####"]),
    "blob6x7": _mask_from_rows(["#######", "#..####", "#...###", "##..###", "#######", "#######"]),
    "edge4x6": _mask_from_rows(["..####", "...###", "#..###", "####.."]),
    "two5x6": _mask_from_rows(["######", "#.##.#", "#.##.#", "####.#", "######"]),
    "full4x3": _mask_from_rows(["...", "...", "...", "..."]),
    "full3x3": _mask_from_rows(["...", "...", "..."]),
    "full2x5": _mask_from_rows([".....", "....."]),
    "single5x4": _mask_from_rows(["####", "####", "##.#", "####", "####"]),
    "row3x7": _mask_from_rows(["#######", "#.....#", "#######"]),
    "cross7": _mask_from_rows(["#######", "###.###", "###.###", "#.....#", "###.###", "###.###", "#######"]),
    "disc7": _mask_from_rows(["#######", "##...##", "#.....#", "#.....#", "#.....#", "##...##", "#######"]),
    "corner6": _mask_from_rows(["######", "######", "######", "###..#", "###...", "####.."]),
}


QUICK_NAMES = sorted(MASKS)          # the quick tier (and the round-1..6 thorough cases) iterate over these twelve only

MASKS.update({           # thorough-only 'hard' masks: larger, annulus, checkerboard, diagonal, boundary frame, off-centre in a big array
    "annulus9": _mask_from_rows(["#########", "###...###", "##.....##", "#..###..#", "#..###..#", "#..###..#", "##.....##", "###...###", "#########"]),
    "blob8x10": _mask_from_rows(["##########", "##########", "######..##", "#####...##", "#####....#", "######..##", "##########", "##########"]),
    "full6x6": _mask_from_rows(["......"] * 6),
    "diag7": _mask_from_rows([".######", "#.#####", "##.####", "###.###", "####.##", "#####.#", "######."]),
    "checker6": _mask_from_rows([".#.#.#", "#.#.#.", ".#.#.#", "#.#.#.", ".#.#.#", "#.#.#."]),
    "frame8": _mask_from_rows(["........", ".######.", ".######.", ".######.", ".######.", ".######.", ".######.", "........"]),
    "full1x9": _mask_from_rows(["........."]),
    "column9x2": _mask_from_rows(["#.", "#.", "#.", "#.", "#.", "#.", "#.", "#.", "#."]),
})
BIG_NAMES = ["annulus9", "blob8x10", "full6x6", "diag7", "checker6", "frame8", "full1x9", "column9x2"]
SCALES_MORE = [(0.125, 4.0), (8.0, 8.0), (1.0, 0.0625), (1.5, 0.75), (1024.0, 0.5)]       # dyadic; tiny / huge / extreme aspect ratios


# ------------------------------------------------------------------------------------------------ mask-level geometry

def _sub_of(spec, m):
    """sub-size option: an int, "ones" (adaptive Array2D, every entry 1) or "mixed" (adaptive Array2D 1,2,1,3,... containing 1)"""
    import autoarray as aa
    if isinstance(spec, int):
        return spec
    n = int(m.pixels_in_mask)
    vals = np.ones(n, dtype=int) if spec == "ones" else np.array([(1, 2, 1, 3)[k % 4] for k in range(n)], dtype=int)
    return aa.Array2D(values=vals, mask=m)


def sub_variants(sub):
    """the non-trivial sub size of the case plus the trivial ones (1 as int, all-ones map, mixed map containing 1)"""
    return [sub, 1, "ones", "mixed"]


def geometry_outputs(mask, scales, o, v, kernel, sub, pad, relc):
    """every mask-level coordinate / index producing entry point, for a mask built at origin o"""
    import autoarray as aa
    from autoarray.inversion.pixelization.border_relocator import BorderRelocator
    H, W = mask.shape
    R = Out()
    org = (o[0], o[1])
    m = aa.Mask2D(mask=mask.copy(), pixel_scales=scales, origin=org)
    g = aa.Grid2D.from_mask(mask=m)
    R.put("Grid2D.from_mask", "coord", lambda: g.slim.array)
    R.put("Grid2D.uniform", "coord", lambda: aa.Grid2D.uniform(shape_native=(H, W), pixel_scales=scales, origin=org).slim.array)
    R.put("derive_grid.all_false", "coord", lambda: m.derive_grid.all_false.slim.array)
    R.put("derive_grid.unmasked", "coord", lambda: m.derive_grid.unmasked.slim.array)
    R.put("derive_grid.edge", "coord", lambda: m.derive_grid.edge.slim.array)
    R.put("derive_grid.border", "coord", lambda: m.derive_grid.border.slim.array)
    for kv in (kernel, (1, 1), (1, 3)):          # the case's kernel plus the trivial / degenerate ones
        t = "" if kv == kernel else "[kernel=%dx%d]" % kv
        R.put("Grid2D.blurring_grid_from" + t, "coord", lambda: aa.Grid2D.blurring_grid_from(mask=m, kernel_shape_native=kv).slim.array,
              allow=("MaskException",))
        R.put("Grid2D.blurring_grid_via_kernel_shape_from" + t, "coord",
              lambda: g.blurring_grid_via_kernel_shape_from(kernel_shape_native=kv).slim.array, allow=("MaskException",))
        R.put("Grid2D.padded_grid_from" + t, "coord", lambda: g.padded_grid_from(kernel_shape_native=kv).slim.array)
        R.put("Grid2D.padded_grid_from.mask_origin" + t, "coord", lambda: g.padded_grid_from(kernel_shape_native=kv).mask.origin)
        R.put("derive_mask.blurring_from.grid" + t, "coord",
              lambda: m.derive_mask.blurring_from(kernel_shape_native=kv).derive_grid.unmasked.slim.array, allow=("MaskException",))
    R.put("Grid2D.subtracted_from", "coord", lambda: g.subtracted_from(offset=(0.25, -1.5)).slim.array)
    R.put("Grid2D.subtracted_from(0,0)", "coord", lambda: g.subtracted_from(offset=(0.0, 0.0)).slim.array)
    for sv in sub_variants(sub):
        t = "[sub=%s]" % sv
        osu = hx.attempt(lambda: aa.OverSamplerUniform(mask=m, sub_size=_sub_of(sv, m)))
        R.put("OverSamplerUniform.over_sampled_grid" + t, "coord", lambda: _reraise(osu).over_sampled_grid.array)
        R.put("OverSamplerUniform.slim_for_sub_slim" + t, "inv", lambda: np.asarray(_reraise(osu).slim_for_sub_slim, dtype=float))
        R.put("OverSamplerUniform.sub_mask_native_for_sub_mask_slim" + t, "inv",
              lambda: np.asarray(_reraise(osu).sub_mask_native_for_sub_mask_slim, dtype=float))
        R.put("OverSamplerUniform.binned_array_2d_from" + t, "inv",
              lambda: _reraise(osu).binned_array_2d_from(array=np.arange(1.0, float(_reraise(osu).sub_total) + 1.0)).slim.array)
        gos = hx.attempt(lambda: aa.Grid2D.from_mask(mask=m, over_sampling=aa.OverSamplingUniform(sub_size=_sub_of(sv, m))))
        R.put("Grid2D.from_mask(over_sampling).grid" + t, "coord", lambda: _reraise(gos).slim.array)
        R.put("Grid2D.from_mask(over_sampling).over_sampler.over_sampled_grid" + t, "coord",
              lambda: _reraise(gos).over_sampler.over_sampled_grid.array)
        R.put("Grid2D.uniform(over_sampling).over_sampler.over_sampled_grid" + t, "coord",
              lambda: aa.Grid2D.uniform(shape_native=(H, W), pixel_scales=scales, origin=org, over_sampling=aa.OverSamplingUniform(
                  sub_size=sv if isinstance(sv, int) else _sub_of(sv, aa.Mask2D.all_false(shape_native=(H, W), pixel_scales=scales, origin=org))
              )).over_sampler.over_sampled_grid.array)
        br = hx.attempt(lambda: BorderRelocator(mask=m, sub_size=_sub_of(sv, m)))
        R.put("BorderRelocator.sub_grid" + t, "coord", lambda: _reraise(br).sub_grid)
        R.put("BorderRelocator.sub_border_grid" + t, "coord", lambda: _reraise(br).sub_border_grid)
        R.put("BorderRelocator.sub_border_slim" + t, "inv", lambda: np.asarray(_reraise(br).sub_border_slim, dtype=float))
    R.put("BorderRelocator.border_grid", "coord", lambda: BorderRelocator(mask=m, sub_size=sub).border_grid.array)
    rb = hx.attempt(lambda: aa.OverSamplingUniform.from_radial_bins(grid=g, sub_size_list=[4, 2, 1], radial_list=[0.75, 2.0, 100.0]))
    R.put("OverSamplingUniform.from_radial_bins.sub_size", "inv", lambda: _reraise(rb).sub_size.array)
    R.put("OverSamplingUniform.from_radial_bins.over_sampled_grid", "coord", lambda: _reraise(rb).over_sampler_from(mask=m).over_sampled_grid.array)
    rb1 = hx.attempt(lambda: aa.OverSamplingUniform.from_radial_bins(grid=g, sub_size_list=[1, 1], radial_list=[0.5, 100.0],
                                                                   centre_list=[(o[0] + 0.25, o[1] - 0.5)]))
    R.put("OverSamplingUniform.from_radial_bins(all 1, centre_list).over_sampled_grid", "coord",
          lambda: _reraise(rb1).over_sampler_from(mask=m).over_sampled_grid.array)
    R.put("Mask2D.mask_centre", "coord", lambda: m.mask_centre)
    R.put("Mask2D.geometry.extent", "extent", lambda: m.geometry.extent)
    R.put("Mask2D.geometry.scaled_maxima", "coord", lambda: m.geometry.scaled_maxima)
    R.put("Mask2D.geometry.scaled_minima", "coord", lambda: m.geometry.scaled_minima)
    R.put("Mask2D.zoom_centre", "inv", lambda: m.zoom_centre)
    R.put("Mask2D.zoom_offset_scaled", "inv", lambda: m.zoom_offset_scaled)
    R.put("Mask2D.zoom_region", "inv", lambda: [float(x) for x in m.zoom_region])
    zm = hx.attempt(lambda: m.zoom_mask_unmasked)
    R.put("Mask2D.zoom_mask_unmasked.origin", "coord", lambda: _reraise(zm).origin)
    R.put("Mask2D.zoom_mask_unmasked.grid", "coord", lambda: _reraise(zm).derive_grid.unmasked.slim.array)
    R.put("Mask2D.zoom_mask_unmasked.shape", "inv", lambda: [float(x) for x in _reraise(zm).shape_native])
    arr = aa.Array2D(values=np.array(v).reshape(H, W).copy(), mask=m)
    for buf in (0, 1):
        za = hx.attempt(lambda: arr.zoomed_around_mask(buffer=buf))
        R.put("Array2D.zoomed_around_mask(%d).origin" % buf, "coord", lambda: _reraise(za).mask.origin)
        R.put("Array2D.zoomed_around_mask(%d).grid" % buf, "coord", lambda: _reraise(za).mask.derive_grid.unmasked.slim.array)
        R.put("Array2D.zoomed_around_mask(%d).extent" % buf, "extent", lambda: _reraise(za).geometry.extent)
        R.put("Array2D.zoomed_around_mask(%d).values" % buf, "inv", lambda: _reraise(za).native.array)
        R.put("Array2D.extent_of_zoomed_array(%d)" % buf, "extent", lambda: arr.extent_of_zoomed_array(buffer=buf))
    new_shape = (H + pad[0], W + pad[1])
    rm = hx.attempt(lambda: m.resized_from(new_shape=new_shape, pad_value=1))
    R.put("Mask2D.resized_from.origin", "coord", lambda: _reraise(rm).origin)
    R.put("Mask2D.resized_from.grid", "coord", lambda: _reraise(rm).derive_grid.unmasked.slim.array)
    R.put("Mask2D.resized_from.mask", "inv", lambda: np.array(_reraise(rm).array, dtype=float))
    sm = hx.attempt(lambda: m.resized_from(new_shape=(max(1, H - 1), max(1, W - 2))))
    R.put("Mask2D.resized_from(smaller).grid", "coord", lambda: _reraise(sm).derive_grid.all_false.slim.array)
    R.put("Mask2D.rescaled_from.grid", "coord", lambda: m.rescaled_from(rescale_factor=2.0).derive_grid.all_false.slim.array)
    R.put("Array2D.resized_from.grid", "coord", lambda: arr.resized_from(new_shape=new_shape).mask.derive_grid.all_false.slim.array)
    for kv in (kernel, (1, 1)):
        t = "" if kv == kernel else "[kernel=%dx%d]" % kv
        R.put("Array2D.padded_before_convolution_from.grid" + t, "coord",
              lambda: arr.padded_before_convolution_from(kernel_shape=kv).mask.derive_grid.all_false.slim.array)
        R.put("Array2D.trimmed_after_convolution_from.grid" + t, "coord",
              lambda: arr.trimmed_after_convolution_from(kernel_shape=kv).mask.derive_grid.all_false.slim.array,
              allow=("ValueError", "MaskException", "ArrayException"))
    # trivial resize / rescale options (same shape, factor 1)
    R.put("Mask2D.resized_from(same shape).grid", "coord", lambda: m.resized_from(new_shape=(H, W)).derive_grid.unmasked.slim.array)
    R.put("Mask2D.rescaled_from(1.0).grid", "coord", lambda: m.rescaled_from(rescale_factor=1.0).derive_grid.unmasked.slim.array)
    R.put("Array2D.resized_from(same shape).grid", "coord", lambda: arr.resized_from(new_shape=(H, W)).mask.derive_grid.unmasked.slim.array)
    dm = m.derive_mask
    R.put("derive_mask.all_false.origin", "coord", lambda: dm.all_false.origin)
    R.put("derive_mask.edge.grid", "coord", lambda: dm.edge.derive_grid.unmasked.slim.array)
    R.put("derive_mask.edge_buffed.grid", "coord", lambda: dm.edge_buffed.derive_grid.unmasked.slim.array)
    R.put("derive_mask.border.grid", "coord", lambda: dm.border.derive_grid.unmasked.slim.array)
    # a coordinate given relative to the origin (translated together with it): distances and pixel indices are unchanged
    c = (o[0] + relc[0], o[1] + relc[1])
    R.put("Grid2D.squared_distances_to_coordinate_from", "inv", lambda: g.squared_distances_to_coordinate_from(coordinate=c).array)
    R.put("geometry.pixel_coordinates_2d_from(mask_centre)", "inv",
          lambda: [x * 1.0 for x in m.geometry.pixel_coordinates_2d_from(scaled_coordinates_2d=m.mask_centre)])
    if scales[0] == scales[1]:
        R.put("Mask2D.circular_radius", "inv", lambda: m.circular_radius, allow=("MaskException",))
    R.put("Mask2D.is_circular", "inv", lambda: bool(m.is_circular), allow=("MaskException",))
    return R


def _reraise(x):
    """carry the exception of an earlier failed construction into hx.attempt (same exception name)"""
    if isinstance(x, hx.Raised):
        raise type(x.name, (Exception,), {})(x.msg)
    return x


KNOWN_GEOMETRY = {"Grid2D.padded_grid_from": "padded-grid-origin", "Mask2D.zoom_mask_unmasked": "zoom-mask-origin"}


def body_geometry(inp, H, W, scales, kernel, sub, pad, _keep=None):
    mask = np.array(inp["mask"], dtype=bool).reshape(H, W)
    o1, o2, d = _origins(inp)
    scales, kernel, pad = tuple(scales), tuple(kernel), tuple(pad)
    v = np.asarray(inp["v"]).reshape(H, W)
    relc = list(inp["relc"])
    R1 = geometry_outputs(mask, scales, o1, v, kernel, sub, pad, relc)
    R2 = geometry_outputs(mask, scales, o2, v, kernel, sub, pad, relc)
    if _keep is not None:
        _keep["R1"], _keep["R2"] = R1, R2
    return relate(R1, R2, d)


def _known_keys(keymap, R1):
    """obligation key -> finding id, for the coordinate-valued keys matching a prefix of keymap (longest prefix wins)"""
    ids = _known_ids()
    out = {}
    for key, (kind, _v, _a) in R1.items():
        if kind == "inv":
            continue
        best = None
        for pre, fid in keymap.items():
            if key.startswith(pre) and (best is None or len(pre) > len(best[0])):
                best = (pre, fid)
        if best and best[1] in ids:
            out[key] = best[1]
    return out


def _known_regions(keymap, keep, region):
    known = {}
    for key, fid in _known_keys(keymap, keep["R1"]).items():
        reg = _ignored_region(keep["R1"], keep["R2"], key) if region == "ignored" else z3.BoolVal(True)
        if reg is not None:
            known[key] = {fid: reg}
    return known


def _run(ctx, body, inputs, kwargs, keymap, validate_every=16, region="ignored"):
    """hx.run_body with the known-finding regions, which need the outputs of both runs (they are terms over them)"""
    ctx.set_inputs(**inputs)
    keep = {}
    actual, expected = body(inputs, _keep=keep, **kwargs)
    known = _known_regions(keymap, keep, region)
    hx.check_all(ctx, actual, expected, known=known)
    if validate_every:
        hx.validate(ctx, body, inputs, kwargs, actual, every=validate_every)


def _geom_inputs(ctx, mask, H, W):
    inputs = _sym_origin(ctx)
    inputs["mask"] = mask
    inputs["v"] = V.real_array("v", (H, W))
    inputs["relc"] = [V.real("cy"), V.real("cx")]
    return inputs


def case_geometry(ctx, H, W, scales, kernel=(3, 3), sub=2, pad=(2, 1)):
    _early_stop(ctx)
    mask = _fork_mask(ctx, H, W)
    ctx.set_case(mask=mask.tolist())
    _run(ctx, body_geometry, _geom_inputs(ctx, mask, H, W),
         {"H": H, "W": W, "scales": list(scales), "kernel": list(kernel), "sub": sub, "pad": list(pad)}, KNOWN_GEOMETRY, validate_every=32)


def case_geometry_named(ctx, name, scales, kernel=(3, 3), sub=2, pad=(2, 1)):
    _early_stop(ctx)
    mask = MASKS[name]
    H, W = mask.shape
    ctx.set_case(mask=mask.tolist())
    _run(ctx, body_geometry, _geom_inputs(ctx, mask, H, W),
         {"H": H, "W": W, "scales": list(scales), "kernel": list(kernel), "sub": sub, "pad": list(pad)}, KNOWN_GEOMETRY, validate_every=1)


# ------------------------------------------------------------------------------------------------ overlay image mesh

KNOWN_OVERLAY = {"Overlay.image_plane_mesh_grid_from": "overlay-mesh-origin"}


def overlay_outputs(mask, scales, o, shape):
    import autoarray as aa
    R = Out()
    m = aa.Mask2D(mask=mask.copy(), pixel_scales=scales, origin=(o[0], o[1]))
    R.put("Overlay.image_plane_mesh_grid_from", "coord",
          lambda: aa.image_mesh.Overlay(shape=shape).image_plane_mesh_grid_from(mask=m).array)
    return R


def body_overlay(inp, H, W, scales, shape, _keep=None):
    mask = np.array(inp["mask"], dtype=bool).reshape(H, W)
    o1, o2, d = _origins(inp)
    R1 = overlay_outputs(mask, tuple(scales), o1, tuple(shape))
    R2 = overlay_outputs(mask, tuple(scales), o2, tuple(shape))
    if _keep is not None:
        _keep["R1"], _keep["R2"] = R1, R2
    return relate(R1, R2, d)


def _bound_origin(ctx, inputs, scales, bound):
    """|o| and |o+d| at most `bound` pixels per axis (keeps the index forks of origin-dependent pixel look-ups finite)"""
    (oy, ox), (dy, dx) = inputs["origin"], inputs["shift"]
    by, bx = V.rval(bound * scales[0]), V.rval(bound * scales[1])
    for t, b in ((oy.t, by), (oy.t + dy.t, by), (ox.t, bx), (ox.t + dx.t, bx)):
        ctx.assume(z3.And(t <= b, -t <= b))


def case_overlay(ctx, scales, shape, bound, name=None, H=None, W=None):
    _early_stop(ctx)
    if name is not None:
        mask = MASKS[name]
        H, W = mask.shape
    else:
        mask = _fork_mask(ctx, H, W)
    ctx.set_case(mask=mask.tolist())
    inputs = _sym_origin(ctx)
    inputs["mask"] = mask
    if bound is not None:
        _bound_origin(ctx, inputs, scales, bound)
    _run(ctx, body_overlay, inputs, {"H": H, "W": W, "scales": list(scales), "shape": list(shape)}, KNOWN_OVERLAY,
         validate_every=4, region="all")


# ------------------------------------------------------------------------------------------------ datasets

KNOWN_DATASET = {      # key prefix -> finding id (coordinate-valued keys only)
    "Imaging.apply_noise_scaling": "noise-scaling-origin",
    "SimulatorImaging.via_image_from": "simulator-origin",
    "preprocess.noise_map_with_signal_to_noise_limit_from": "snr-limit-origin",
}


def _dataset_grids(R, tag, ds_attempt, psf=True, values=True):
    """origin and grids of the data / noise map of a dataset (ds_attempt: dataset or hx.Raised)"""
    R.put(tag + ".origin", "coord", lambda: _reraise(ds_attempt).data.mask.origin)
    R.put(tag + ".noise_map.origin", "coord", lambda: _reraise(ds_attempt).noise_map.mask.origin)
    R.put(tag + ".grid", "coord", lambda: _reraise(ds_attempt).grids.uniform.slim.array)
    R.put(tag + ".extent", "extent", lambda: _reraise(ds_attempt).data.geometry.extent)
    if values:
        R.put(tag + ".data", "inv", lambda: _reraise(ds_attempt).data.native.array)
        R.put(tag + ".noise_map", "inv", lambda: _reraise(ds_attempt).noise_map.native.array)


def dataset_outputs(mask, scales, o, data_v, noise_v, sub):
    import autoarray as aa
    from autoarray.dataset import preprocess
    H, W = mask.shape
    R = Out()
    org = (o[0], o[1])
    m = aa.Mask2D(mask=mask.copy(), pixel_scales=scales, origin=org)
    data = aa.Array2D.no_mask(values=np.array(data_v).reshape(H, W).copy(), pixel_scales=scales, origin=org)
    noise = aa.Array2D.no_mask(values=np.array(noise_v).reshape(H, W).copy(), pixel_scales=scales, origin=org)
    psf = aa.Kernel2D.no_mask(values=[[0.0, 1.0, 0.0], [1.0, 2.0, 1.0], [0.0, 1.0, 0.0]], pixel_scales=scales)
    ds = hx.attempt(lambda: aa.Imaging(data=data, noise_map=noise, psf=psf, check_noise_map=False))
    _dataset_grids(R, "Imaging", ds)
    dm = hx.attempt(lambda: _reraise(ds).apply_mask(mask=m))
    _dataset_grids(R, "Imaging.apply_mask", dm)
    R.put("Imaging.apply_mask.grids.blurring", "coord", lambda: _reraise(dm).grids.blurring.slim.array)
    R.put("Imaging.apply_mask.grids.pixelization", "coord", lambda: _reraise(dm).grids.pixelization.slim.array)
    R.put("Imaging.apply_mask.grids.pixelization.over_sampled", "coord",
          lambda: _reraise(dm).grids.over_sampler_pixelization.over_sampled_grid.array)
    R.put("Imaging.apply_mask.grids.border_relocator.sub_grid", "coord", lambda: _reraise(dm).grids.border_relocator.sub_grid)
    R.put("Imaging.apply_mask.grids.border_relocator.sub_border_grid", "coord",
          lambda: _reraise(dm).grids.border_relocator.sub_border_grid)
    R.put("Imaging.apply_mask.mask", "inv", lambda: np.array(_reraise(dm).mask.array, dtype=float))
    dn = hx.attempt(lambda: _reraise(ds).apply_noise_scaling(mask=m, noise_value=64.0))
    _dataset_grids(R, "Imaging.apply_noise_scaling", dn)
    dn2 = hx.attempt(lambda: _reraise(ds).apply_noise_scaling(mask=m, signal_to_noise_value=2.0, should_zero_data=False))
    _dataset_grids(R, "Imaging.apply_noise_scaling(snr)", dn2, values=False)
    for sv in sub_variants(sub):
        t = "[sub=%s]" % sv
        # un-masked dataset (adaptive maps live on its all-False mask) and masked dataset (maps live on m)
        for tag, base, bm in (("Imaging.apply_over_sampling", ds, None), ("Imaging.apply_mask.apply_over_sampling", dm, m)):
            def mk(base=base, bm=bm):
                b = _reraise(base)
                ss = _sub_of(sv, bm if bm is not None else b.data.mask)
                return b.apply_over_sampling(over_sampling=aa.OverSamplingDataset(
                    uniform=aa.OverSamplingUniform(sub_size=ss), non_uniform=aa.OverSamplingUniform(sub_size=ss),
                    pixelization=aa.OverSamplingUniform(sub_size=ss)))
            do = hx.attempt(mk)
            _dataset_grids(R, tag + t, do, values=False)
            R.put(tag + t + ".uniform.over_sampled", "coord", lambda: _reraise(do).grids.uniform.over_sampler.over_sampled_grid.array)
            R.put(tag + t + ".non_uniform.over_sampled", "coord", lambda: _reraise(do).grids.over_sampler_non_uniform.over_sampled_grid.array)
            R.put(tag + t + ".pixelization.over_sampled", "coord", lambda: _reraise(do).grids.over_sampler_pixelization.over_sampled_grid.array)
            R.put(tag + t + ".border_relocator.sub_grid", "coord", lambda: _reraise(do).grids.border_relocator.sub_grid)
        if isinstance(sv, int):
            # over sampling given at construction and carried through apply_mask
            dc = hx.attempt(lambda: aa.Imaging(data=data, noise_map=noise, psf=psf, check_noise_map=False, over_sampling=aa.OverSamplingDataset(
                uniform=aa.OverSamplingUniform(sub_size=sv), pixelization=aa.OverSamplingUniform(sub_size=sv))).apply_mask(mask=m))
            R.put("Imaging(over_sampling).apply_mask" + t + ".uniform.over_sampled", "coord",
                  lambda: _reraise(dc).grids.uniform.over_sampler.over_sampled_grid.array)
            R.put("Imaging(over_sampling).apply_mask" + t + ".pixelization.over_sampled", "coord",
                  lambda: _reraise(dc).grids.over_sampler_pixelization.over_sampled_grid.array)
            R.put("Imaging(over_sampling).apply_mask" + t + ".border_relocator.sub_border_grid", "coord",
                  lambda: _reraise(dc).grids.border_relocator.sub_border_grid)
    dd = hx.attempt(lambda: _reraise(ds).apply_over_sampling())          # default argument: keeps the current schemes
    _dataset_grids(R, "Imaging.apply_over_sampling(default)", dd, values=False)
    # no PSF (no blurring grid, no padding) and a 1x1 PSF
    dnp = hx.attempt(lambda: aa.Imaging(data=data, noise_map=noise, psf=None, check_noise_map=False).apply_mask(mask=m))
    _dataset_grids(R, "Imaging(psf=None).apply_mask", dnp, values=False)
    psf1 = aa.Kernel2D.no_mask(values=[[1.0]], pixel_scales=scales)
    d11 = hx.attempt(lambda: aa.Imaging(data=data, noise_map=noise, psf=psf1, check_noise_map=False).apply_mask(mask=m))
    _dataset_grids(R, "Imaging(psf 1x1).apply_mask", d11, values=False)
    R.put("Imaging(psf 1x1).apply_mask.grids.blurring", "coord", lambda: _reraise(d11).grids.blurring.slim.array)
    dt1 = hx.attempt(lambda: _reraise(ds).trimmed_after_convolution_from(kernel_shape=(1, 1)))
    _dataset_grids(R, "Imaging.trimmed_after_convolution_from(1x1)", dt1, values=False)
    dt = hx.attempt(lambda: _reraise(ds).trimmed_after_convolution_from(kernel_shape=(3, 3)))
    _dataset_grids(R, "Imaging.trimmed_after_convolution_from", dt)
    dmt = hx.attempt(lambda: _reraise(dm).trimmed_after_convolution_from(kernel_shape=(3, 3)))
    _dataset_grids(R, "Imaging.apply_mask.trimmed_after_convolution_from", dmt)
    sim = aa.SimulatorImaging(exposure_time=128.0, psf=psf, background_sky_level=0.5, add_poisson_noise_to_data=False,
                              include_poisson_noise_in_noise_map=False, noise_if_add_noise_false=0.25, noise_seed=1)
    dsim = hx.attempt(lambda: sim.via_image_from(image=data))
    _dataset_grids(R, "SimulatorImaging.via_image_from", dsim, values=False)
    sim0 = aa.SimulatorImaging(exposure_time=128.0, background_sky_level=0.5, noise_seed=1)      # defaults: no PSF, Poisson noise on
    dsim0 = hx.attempt(lambda: sim0.via_image_from(image=data + 2.0))
    _dataset_grids(R, "SimulatorImaging(defaults).via_image_from", dsim0, values=False)
    nlm = hx.attempt(lambda: preprocess.noise_map_with_signal_to_noise_limit_from(
        data=data, noise_map=noise, signal_to_noise_limit=2.0, noise_limit_mask=np.array(mask)))
    R.put("preprocess.noise_map_with_signal_to_noise_limit_from(noise_limit_mask).grid", "coord",
          lambda: _reraise(nlm).mask.derive_grid.unmasked.slim.array)
    nl = hx.attempt(lambda: preprocess.noise_map_with_signal_to_noise_limit_from(data=data, noise_map=noise, signal_to_noise_limit=2.0))
    R.put("preprocess.noise_map_with_signal_to_noise_limit_from.origin", "coord", lambda: _reraise(nl).mask.origin)
    R.put("preprocess.noise_map_with_signal_to_noise_limit_from.grid", "coord", lambda: _reraise(nl).mask.derive_grid.unmasked.slim.array)
    R.put("preprocess.noise_map_with_signal_to_noise_limit_from.values", "inv", lambda: _reraise(nl).native.array)
    return R


def _dataset_values(H, W):
    """concrete dyadic data / noise values (the property is about origins; medians / Poisson draws / scipy convolution need concrete data)"""
    data = np.array([[((3 * a + 5 * b) % 11) * 0.5 - 1.0 for b in range(W)] for a in range(H)])
    noise = np.array([[0.25 + ((a + 2 * b) % 3) * 0.25 for b in range(W)] for a in range(H)])
    return data, noise


def body_dataset(inp, H, W, scales, sub, _keep=None):
    mask = np.array(inp["mask"], dtype=bool).reshape(H, W)
    o1, o2, d = _origins(inp)
    data, noise = _dataset_values(H, W)
    R1 = dataset_outputs(mask, tuple(scales), o1, data, noise, sub)
    R2 = dataset_outputs(mask, tuple(scales), o2, data, noise, sub)
    if _keep is not None:
        _keep["R1"], _keep["R2"] = R1, R2
    return relate(R1, R2, d)


def case_dataset(ctx, scales, sub=2, name=None, H=None, W=None):
    _early_stop(ctx)
    if name is not None:
        mask = MASKS[name]
        H, W = mask.shape
    else:
        mask = _fork_mask(ctx, H, W)
    ctx.set_case(mask=mask.tolist())
    inputs = _sym_origin(ctx)
    inputs["mask"] = mask
    _run(ctx, body_dataset, inputs, {"H": H, "W": W, "scales": list(scales), "sub": sub}, KNOWN_DATASET, validate_every=1 if name else 16)


# ------------------------------------------------------------------------------------------------ pixel indices of translated points

def points_outputs(H, W, scales, o, rel, pix, cls):
    """rel: N x 2 coordinates relative to the origin (the points are translated together with it); pix: (i, j) pixel pair"""
    import autoarray as aa
    from autoarray.geometry import geometry_util as gu
    R = Out()
    org = (o[0], o[1])
    N = len(rel)
    pts = [(o[0] + rel[k][0], o[1] + rel[k][1]) for k in range(N)]
    m = aa.Mask2D.all_false(shape_native=(H, W), pixel_scales=scales, origin=org)
    geo = m.geometry
    kw = dict(shape_native=(H, W), pixel_scales=scales)
    R.put("util.pixel_coordinates_2d_from", "inv", lambda: list(gu.pixel_coordinates_2d_from(scaled_coordinates_2d=pts[0], origins=org, **kw)))
    R.put("geometry.pixel_coordinates_2d_from", "inv", lambda: list(geo.pixel_coordinates_2d_from(scaled_coordinates_2d=pts[0])))
    R.put("geometry.scaled_coordinate_2d_to_scaled_at_pixel_centre_from", "coord",
          lambda: geo.scaled_coordinate_2d_to_scaled_at_pixel_centre_from(scaled_coordinate_2d=pts[0]))
    R.put("util.scaled_coordinates_2d_from", "coord", lambda: gu.scaled_coordinates_2d_from(pixel_coordinates_2d=(pix[0], pix[1]), origins=org, **kw))
    R.put("geometry.scaled_coordinates_2d_from", "coord", lambda: geo.scaled_coordinates_2d_from(pixel_coordinates_2d=(pix[0], pix[1])))
    slim = np.array([[pts[k][0], pts[k][1]] for k in range(N)], dtype=object if V.is_sym(pts[0][0]) else float).reshape(N, 2)
    R.put("util.grid_pixels_2d_slim_from", "inv", lambda: gu.grid_pixels_2d_slim_from(grid_scaled_2d_slim=slim, origin=org, **kw))
    R.put("util.grid_pixel_centres_2d_slim_from", "inv", lambda: gu.grid_pixel_centres_2d_slim_from(grid_scaled_2d_slim=slim, origin=org, **kw))
    R.put("util.grid_pixel_indexes_2d_slim_from", "inv", lambda: gu.grid_pixel_indexes_2d_slim_from(grid_scaled_2d_slim=slim, origin=org, **kw))
    relpix = np.array([[rel[k][0], rel[k][1]] for k in range(N)], dtype=slim.dtype).reshape(N, 2)     # used as float pixel coordinates
    R.put("util.grid_scaled_2d_slim_from", "coord", lambda: gu.grid_scaled_2d_slim_from(grid_pixels_2d_slim=relpix, origin=org, **kw))
    if not cls:
        return R
    # the class wrappers convert to int arrays (.astype("int")), i.e. fork on the pixel indices: used with bounded points only
    gm = aa.Mask2D.all_false(shape_native=(1, N), pixel_scales=1.0)
    g = aa.Grid2D(values=slim.reshape(1, N, 2).copy(), mask=gm)
    R.put("geometry.grid_pixels_2d_from", "inv", lambda: geo.grid_pixels_2d_from(grid_scaled_2d=g).slim.array)
    R.put("geometry.grid_pixel_centres_2d_from", "inv", lambda: geo.grid_pixel_centres_2d_from(grid_scaled_2d=g).slim.array)
    R.put("geometry.grid_pixel_indexes_2d_from", "inv", lambda: geo.grid_pixel_indexes_2d_from(grid_scaled_2d=g).slim.array)
    gp = aa.Grid2D(values=relpix.reshape(1, N, 2).copy(), mask=gm)
    R.put("geometry.grid_scaled_2d_from", "coord", lambda: geo.grid_scaled_2d_from(grid_pixels_2d=gp).slim.array)
    return R


def body_points(inp, H, W, scales, N, cls, _keep=None):
    o1, o2, d = _origins(inp)
    rel = np.asarray(inp["rel"]).reshape(N, 2)
    pix = list(inp["pix"])
    R1 = points_outputs(H, W, tuple(scales), o1, rel, pix, cls)
    R2 = points_outputs(H, W, tuple(scales), o2, rel, pix, cls)
    if _keep is not None:
        _keep["R1"], _keep["R2"] = R1, R2
    return relate(R1, R2, d)


def case_points(ctx, H, W, scales, N=2, cls=False):
    _early_stop(ctx)
    inputs = _sym_origin(ctx)
    rel = V.real_array("p", (N, 2))
    inputs["rel"] = rel
    inputs["pix"] = [V.integer("pi"), V.integer("pj")]
    if cls:
        # points at most one pixel outside the extent (finite number of pixel cells to fork over)
        by, bx = V.rval((H / 2.0 + 1) * scales[0]), V.rval((W / 2.0 + 1) * scales[1])
        for k in range(N):
            ctx.assume(z3.And(rel[k, 0].t < by, -rel[k, 0].t < by, rel[k, 1].t < bx, -rel[k, 1].t < bx))
    ctx.set_case(shape=[H, W])
    _run(ctx, body_points, inputs, {"H": H, "W": W, "scales": list(scales), "N": N, "cls": cls}, {}, validate_every=1 if not cls else 8)


# ------------------------------------------------------------------------------------------------ radial projection

def radial_outputs(H, W, scales, o, relc, angle):
    import autoarray as aa
    R = Out()
    g = aa.Grid2D.uniform(shape_native=(H, W), pixel_scales=scales, origin=(o[0], o[1]))
    c = (o[0] + relc[0], o[1] + relc[1])
    R.put("Grid2D.grid_2d_radial_projected_shape_slim_from", "inv", lambda: g.grid_2d_radial_projected_shape_slim_from(centre=c) * 1.0)
    R.put("Grid2D.grid_2d_radial_projected_from", "coord",
          lambda: g.grid_2d_radial_projected_from(centre=c, angle=angle, remove_projected_centre=False).array)
    R.put("Grid2D.grid_2d_radial_projected_from(remove centre)", "coord",
          lambda: g.grid_2d_radial_projected_from(centre=c, angle=angle, remove_projected_centre=True).array)
    R.put("Grid2D.grid_2d_radial_projected_from(shape_slim=1)", "coord",
          lambda: g.grid_2d_radial_projected_from(centre=c, angle=angle, shape_slim=1, remove_projected_centre=False).array)
    R.put("Grid2D.grid_2d_radial_projected_from(shape_slim=3)", "coord",
          lambda: g.grid_2d_radial_projected_from(centre=c, angle=angle, shape_slim=3, remove_projected_centre=False).array)
    return R


def body_radial(inp, H, W, scales, angle, _keep=None):
    o1, o2, d = _origins(inp)
    relc = list(inp["relc"])
    R1 = radial_outputs(H, W, tuple(scales), o1, relc, angle)
    R2 = radial_outputs(H, W, tuple(scales), o2, relc, angle)
    if _keep is not None:
        _keep["R1"], _keep["R2"] = R1, R2
    return relate(R1, R2, d)


def case_radial(ctx, H, W, scales, angle):
    _early_stop(ctx)
    inputs = _sym_origin(ctx)
    cy, cx = V.real("cy"), V.real("cx")
    # centre (relative to the origin) strictly inside the extent
    ctx.assume(z3.And(cy.t > V.rval(-H * scales[0] / 2.0), cy.t < V.rval(H * scales[0] / 2.0),
                      cx.t > V.rval(-W * scales[1] / 2.0), cx.t < V.rval(W * scales[1] / 2.0)))
    inputs["relc"] = [cy, cx]
    ctx.set_case(shape=[H, W])
    _run(ctx, body_radial, inputs, {"H": H, "W": W, "scales": list(scales), "angle": angle}, {}, validate_every=1)


# ------------------------------------------------------------------------------------------------ mappers on translated grids

DELAUNAY_REL = [(1.875, -0.3125), (0.4375, 1.6875), (-1.5625, 0.9375), (-0.6875, -1.8125), (0.0625, 0.1875),
                (2.3125, 2.1875), (-2.4375, -2.0625), (2.1875, -2.3125), (-2.0625, 2.4375)]
_CUR_ORIGIN = [None]


def mapper_outputs(mask, scales, o, sub, kind, mesh_shape):
    import autoarray as aa
    R = Out()
    m = aa.Mask2D(mask=mask.copy(), pixel_scales=scales, origin=(o[0], o[1]))
    osamp = aa.OverSamplerUniform(mask=m, sub_size=_sub_of(sub, m))
    data_grid = osamp.over_sampled_grid
    _CUR_ORIGIN[0] = o
    if kind == "rectangular":
        mesh = aa.mesh.Rectangular(shape=mesh_shape)
        mg = hx.attempt(lambda: mesh.mapper_grids_from(mask=m, border_relocator=None, source_plane_data_grid=data_grid,
                                                       source_plane_mesh_grid=None))
    else:
        mesh = aa.mesh.Delaunay()
        rel = DELAUNAY_REL if kind == "delaunay" else DELAUNAY_REL[5:8]          # "delaunay3": a single triangle
        pts = aa.Grid2DIrregular(values=[(o[0] + a * scales[0], o[1] + b * scales[1]) for (a, b) in rel])
        mg = hx.attempt(lambda: mesh.mapper_grids_from(mask=m, border_relocator=None, source_plane_data_grid=data_grid,
                                                       source_plane_mesh_grid=pts))
    mp = hx.attempt(lambda: aa.Mapper(mapper_grids=_reraise(mg), over_sampler=osamp, regularization=None))
    tag = "Mapper%s" % ("Rectangular" if kind == "rectangular" else "Delaunay")
    R.put(tag + ".source_plane_mesh_grid", "coord", lambda: _reraise(mp).source_plane_mesh_grid.array)
    R.put(tag + ".source_plane_data_grid", "coord", lambda: _reraise(mp).source_plane_data_grid.array)
    if kind == "rectangular":
        R.put(tag + ".mesh.origin", "coord", lambda: _reraise(mp).source_plane_mesh_grid.origin)
        R.put(tag + ".mesh.extent", "extent", lambda: _reraise(mp).source_plane_mesh_grid.geometry.extent)
        R.put(tag + ".mesh.pixel_scales", "inv", lambda: list(_reraise(mp).source_plane_mesh_grid.pixel_scales))
    R.put(tag + ".pix_indexes_for_sub_slim_index", "inv", lambda: np.asarray(_reraise(mp).pix_indexes_for_sub_slim_index, dtype=float))
    R.put(tag + ".pix_sizes_for_sub_slim_index", "inv", lambda: np.asarray(_reraise(mp).pix_sizes_for_sub_slim_index, dtype=float))
    R.put(tag + ".pix_weights_for_sub_slim_index", "inv", lambda: _reraise(mp).pix_weights_for_sub_slim_index)
    R.put(tag + ".mapping_matrix", "inv", lambda: _reraise(mp).mapping_matrix)
    return R


def body_mapper(inp, H, W, scales, sub, kind, mesh_shape, _keep=None):
    mask = np.array(inp["mask"], dtype=bool).reshape(H, W)
    o1, o2, d = _origins(inp)
    R1 = mapper_outputs(mask, tuple(scales), o1, sub, kind, tuple(mesh_shape))
    R2 = mapper_outputs(mask, tuple(scales), o2, sub, kind, tuple(mesh_shape))
    if _keep is not None:
        _keep["R1"], _keep["R2"] = R1, R2
    return relate(R1, R2, d)


def case_mapper(ctx, scales, kind, sub=2, mesh_shape=(3, 3), name=None, H=None, W=None):
    _early_stop(ctx)
    if name is not None:
        mask = MASKS[name]
        H, W = mask.shape
    else:
        mask = _fork_mask(ctx, H, W)
    ctx.set_case(mask=mask.tolist())
    inputs = _sym_origin(ctx)
    inputs["mask"] = mask
    _run(ctx, body_mapper, inputs, {"H": H, "W": W, "scales": list(scales), "sub": sub, "kind": kind, "mesh_shape": list(mesh_shape)},
         {}, validate_every=1 if name else 16)


# ------------------------------------------------------------------------------------------------ border relocation of translated grids

def relocate_outputs(mask, scales, o, sub, stretch):
    """relocated data / mesh grids: the grids are the over-sampled grid stretched about the origin (so that points fall outside the
    border) and a few mesh points given relative to the origin; both are translated together with the mask"""
    import autoarray as aa
    from autoarray.inversion.pixelization.border_relocator import BorderRelocator
    R = Out()
    m = aa.Mask2D(mask=mask.copy(), pixel_scales=scales, origin=(o[0], o[1]))
    br = BorderRelocator(mask=m, sub_size=_sub_of(sub, m))
    sg = hx.attempt(lambda: np.asarray(br.sub_grid))

    def stretched(f):
        g = _reraise(sg)
        out = np.empty(g.shape, dtype=g.dtype)
        out[:, 0] = o[0] + f * (g[:, 0] - o[0])
        out[:, 1] = o[1] + f * (g[:, 1] - o[1])
        return aa.Grid2DIrregular(values=out)

    for f in (1.0, stretch):
        t = "[stretch=%s]" % f
        R.put("BorderRelocator.relocated_grid_from" + t, "coord", lambda: br.relocated_grid_from(grid=stretched(f)).array)
        for nm, pts in (("few", DELAUNAY_REL[:3]), ("inside", [(0.0625, 0.125)]), ("all", DELAUNAY_REL)):
            mesh = aa.Grid2DIrregular(values=[(o[0] + a * scales[0], o[1] + b * scales[1]) for (a, b) in pts])
            R.put("BorderRelocator.relocated_mesh_grid_from(%s)%s" % (nm, t), "coord",
                  lambda: br.relocated_mesh_grid_from(grid=stretched(f), mesh_grid=mesh).array)
    return R


def body_relocate(inp, H, W, scales, sub, stretch, _keep=None):
    mask = np.array(inp["mask"], dtype=bool).reshape(H, W)
    o1, o2, d = _origins(inp)
    R1 = relocate_outputs(mask, tuple(scales), o1, sub, stretch)
    R2 = relocate_outputs(mask, tuple(scales), o2, sub, stretch)
    if _keep is not None:
        _keep["R1"], _keep["R2"] = R1, R2
    return relate(R1, R2, d)


def case_relocate(ctx, scales, sub=2, stretch=1.5, name=None, H=None, W=None):
    _early_stop(ctx)
    if name is not None:
        mask = MASKS[name]
        H, W = mask.shape
    else:
        mask = _fork_mask(ctx, H, W)
    ctx.set_case(mask=mask.tolist())
    inputs = _sym_origin(ctx)
    inputs["mask"] = mask
    # |o|, |o+d| <= 8 pixels: a fault that measures radii from the absolute (0,0) puts sqrt terms of the origin into branch conditions
    _bound_origin(ctx, inputs, scales, 8.0)
    _run(ctx, body_relocate, inputs, {"H": H, "W": W, "scales": list(scales), "sub": sub, "stretch": stretch}, {}, validate_every=1 if name else 8)


# ------------------------------------------------------------------------------------------------ shared option objects

def _shared_objects(scales, sub):
    """option objects a user naturally creates once and re-uses for several (translated) masks / datasets"""
    import autoarray as aa
    S = {}
    S["osu"] = aa.OverSamplingUniform(sub_size=sub)
    S["osu1"] = aa.OverSamplingUniform(sub_size=1)
    S["osi"] = aa.OverSamplingIterate(fractional_accuracy=0.5, sub_steps=[2, 4])
    S["osd"] = aa.OverSamplingDataset(uniform=aa.OverSamplingUniform(sub_size=sub), non_uniform=aa.OverSamplingUniform(sub_size=1),
                                      pixelization=aa.OverSamplingUniform(sub_size=sub))
    S["osd_default"] = aa.OverSamplingDataset()
    S["overlay"] = aa.image_mesh.Overlay(shape=(2, 2))
    S["rect"] = aa.mesh.Rectangular(shape=(3, 3))
    S["delaunay"] = aa.mesh.Delaunay()
    S["reg"] = aa.reg.Constant(coefficient=1.0)
    S["settings"] = aa.SettingsInversion()
    S["preloads"] = aa.Preloads()
    S["psf"] = aa.Kernel2D.no_mask(values=[[0.0, 1.0, 0.0], [1.0, 2.0, 1.0], [0.0, 1.0, 0.0]], pixel_scales=scales)
    S["sim"] = aa.SimulatorImaging(exposure_time=128.0, psf=S["psf"], background_sky_level=0.5, add_poisson_noise_to_data=False,
                                   include_poisson_noise_in_noise_map=False, noise_if_add_noise_false=0.25, noise_seed=1)
    return S


def shared_outputs(mask, scales, o, S, data_v, noise_v, tag):
    """entry points that receive the shared option objects S (state cached on them by the run at the other origin is exposed)"""
    import autoarray as aa
    H, W = mask.shape
    R = Out()
    org = (o[0], o[1])
    m = aa.Mask2D(mask=mask.copy(), pixel_scales=scales, origin=org)
    for k in ("osu", "osu1"):
        R.put("shared %s.over_sampler_from.over_sampled_grid%s" % (k, tag), "coord", lambda: S[k].over_sampler_from(mask=m).over_sampled_grid.array)
        R.put("shared %s.over_sampler_from.mask.origin%s" % (k, tag), "coord", lambda: S[k].over_sampler_from(mask=m).mask.origin)
        g = hx.attempt(lambda: aa.Grid2D.from_mask(mask=m, over_sampling=S[k]))
        R.put("shared %s Grid2D.from_mask.over_sampler.over_sampled_grid%s" % (k, tag), "coord", lambda: _reraise(g).over_sampler.over_sampled_grid.array)
        R.put("shared %s Grid2D.from_mask.over_sampler.mask.origin%s" % (k, tag), "coord", lambda: _reraise(g).over_sampler.mask.origin)
        R.put("shared %s Grid2D.uniform.over_sampler.over_sampled_grid%s" % (k, tag), "coord",
              lambda: aa.Grid2D.uniform(shape_native=(H, W), pixel_scales=scales, origin=org, over_sampling=S[k]).over_sampler.over_sampled_grid.array)
    R.put("shared osi Grid2D.from_mask.over_sampler.mask.origin" + tag, "coord",
          lambda: aa.Grid2D.from_mask(mask=m, over_sampling=S["osi"]).over_sampler.mask.origin)
    data = aa.Array2D.no_mask(values=np.array(data_v).reshape(H, W).copy(), pixel_scales=scales, origin=org)
    noise = aa.Array2D.no_mask(values=np.array(noise_v).reshape(H, W).copy(), pixel_scales=scales, origin=org)
    for k in ("osd", "osd_default"):
        ds = hx.attempt(lambda: aa.Imaging(data=data, noise_map=noise, psf=S["psf"], check_noise_map=False, over_sampling=S[k]))
        dm = hx.attempt(lambda: _reraise(ds).apply_mask(mask=m))
        do = hx.attempt(lambda: aa.Imaging(data=data, noise_map=noise, psf=S["psf"], check_noise_map=False).apply_mask(mask=m).apply_over_sampling(
            over_sampling=S[k]))
        for nm, d in (("Imaging(over_sampling)", ds), ("Imaging(over_sampling).apply_mask", dm), ("Imaging.apply_mask.apply_over_sampling", do)):
            t = "shared %s %s" % (k, nm)
            R.put(t + ".grids.uniform" + tag, "coord", lambda: _reraise(d).grids.uniform.slim.array)
            if k == "osd":
                R.put(t + ".grids.uniform.over_sampled" + tag, "coord", lambda: _reraise(d).grids.uniform.over_sampler.over_sampled_grid.array)
            R.put(t + ".grids.pixelization.over_sampled" + tag, "coord", lambda: _reraise(d).grids.over_sampler_pixelization.over_sampled_grid.array)
            R.put(t + ".grids.border_relocator.sub_border_grid" + tag, "coord", lambda: _reraise(d).grids.border_relocator.sub_border_grid)
            if k == "osd":
                R.put(t + ".grids.non_uniform.over_sampled" + tag, "coord", lambda: _reraise(d).grids.over_sampler_non_uniform.over_sampled_grid.array)
    R.put("shared psf Imaging.apply_mask.grids.blurring" + tag, "coord",
          lambda: aa.Imaging(data=data, noise_map=noise, psf=S["psf"], check_noise_map=False).apply_mask(mask=m).grids.blurring.slim.array,
          allow=("MaskException",))
    R.put("shared sim SimulatorImaging.via_image_from.grid" + tag, "coord", lambda: S["sim"].via_image_from(image=data).grids.uniform.slim.array)
    R.put("shared overlay image_plane_mesh_grid_from" + tag, "coord",
          lambda: S["overlay"].image_plane_mesh_grid_from(mask=m, adapt_data=None, settings=S["settings"]).array)
    osamp = aa.OverSamplerUniform(mask=m, sub_size=2)
    data_grid = osamp.over_sampled_grid
    _CUR_ORIGIN[0] = o
    for kind in ("rect", "delaunay"):
        pts = None if kind == "rect" else aa.Grid2DIrregular(
            values=[(o[0] + a * scales[0], o[1] + b * scales[1]) for (a, b) in DELAUNAY_REL])
        mg = hx.attempt(lambda: S[kind].mapper_grids_from(mask=m, border_relocator=None, source_plane_data_grid=data_grid,
                                                          source_plane_mesh_grid=pts, preloads=S["preloads"]))
        mp = hx.attempt(lambda: aa.Mapper(mapper_grids=_reraise(mg), over_sampler=osamp, regularization=S["reg"]))
        t = "shared mesh/reg/preloads Mapper(%s)" % kind
        R.put(t + ".source_plane_mesh_grid" + tag, "coord", lambda: _reraise(mp).source_plane_mesh_grid.array)
        R.put(t + ".pix_indexes_for_sub_slim_index" + tag, "inv", lambda: np.asarray(_reraise(mp).pix_indexes_for_sub_slim_index, dtype=float))
        R.put(t + ".mapping_matrix" + tag, "inv", lambda: _reraise(mp).mapping_matrix)
        R.put(t + ".regularization_matrix" + tag, "inv", lambda: _reraise(mp).regularization_matrix)
    return R


def body_shared(inp, H, W, scales, sub, _keep=None):
    """both runs share ONE set of option objects; done in both orders (origin o first / origin o+d first)"""
    mask = np.array(inp["mask"], dtype=bool).reshape(H, W)
    o1, o2, d = _origins(inp)
    scales = tuple(scales)
    data, noise = _dataset_values(H, W)
    R1, R2 = Out(), Out()
    S = _shared_objects(scales, sub)
    R1.update(shared_outputs(mask, scales, o1, S, data, noise, " [o first]"))
    R2.update(shared_outputs(mask, scales, o2, S, data, noise, " [o first]"))
    S = _shared_objects(scales, sub)
    R2.update(shared_outputs(mask, scales, o2, S, data, noise, " [o+d first]"))
    R1.update(shared_outputs(mask, scales, o1, S, data, noise, " [o+d first]"))
    if _keep is not None:
        _keep["R1"], _keep["R2"] = R1, R2
    return relate(R1, R2, d)


def case_shared(ctx, scales, sub=2, name=None, H=None, W=None):
    _early_stop(ctx)
    if name is not None:
        mask = MASKS[name]
        H, W = mask.shape
    else:
        mask = _fork_mask(ctx, H, W)
    ctx.set_case(mask=mask.tolist())
    inputs = _sym_origin(ctx)
    inputs["mask"] = mask
    _run(ctx, body_shared, inputs, {"H": H, "W": W, "scales": list(scales), "sub": sub}, {}, validate_every=1 if name else 16)


def POST_INSTALL():
    """library boundaries that receive all-concrete object arrays: hand them float64 (scipy convolution, Poisson draws)"""
    from symx import shim
    import scipy.signal
    if not getattr(scipy.signal.convolve2d, "_c12", False):
        real_c2 = scipy.signal.convolve2d

        def convolve2d(a, b, *args, **kw):
            a, b = shim.normalise(a), shim.normalise(b)
            if shim.has_sym(a) or shim.has_sym(b):
                raise V.Unsupported("scipy.signal.convolve2d on symbolic values")
            return real_c2(np.asarray(a, dtype=float), np.asarray(b, dtype=float), *args, **kw)

        convolve2d._c12 = True
        scipy.signal.convolve2d = convolve2d

    class _Random:
        def __getattr__(self, name):
            return getattr(np.random, name)

        def poisson(self, lam, size=None):
            return np.random.poisson(np.asarray(shim.normalise(lam), dtype=float), size)

    shim.NPFacade.random = _Random()
    _patch_concretize()
    import scipy.spatial
    if not getattr(scipy.spatial.Delaunay, "_c12", False):
        real_delaunay = scipy.spatial.Delaunay

        def _relative(points):
            """origin-relative concrete coordinates of points of the form origin + constant (anything else is unsupported)"""
            o = _CUR_ORIGIN[0]
            pts = np.asarray(hx.unwrap(points), dtype=object)
            out = np.zeros(pts.shape, dtype=float)
            for idx in np.ndindex(*pts.shape):
                t = z3.simplify(V.to_real_term(pts[idx]) - V.to_real_term(o[idx[-1]]))
                if not z3.is_rational_value(t):
                    raise V.Unsupported("Delaunay stub: vertex / query point is not of the form origin + constant")
                out[idx] = float(t.as_fraction())
            return out

        class DelaunayStub:
            """scipy.spatial.Delaunay for vertices o + c (o symbolic origin, c concrete): qhull runs on the relative coordinates c"""

            def __init__(self, points):
                self._rel = real_delaunay(_relative(points))
                self.points = np.asarray(hx.unwrap(points), dtype=object)
                self.simplices = self._rel.simplices

            def find_simplex(self, xi, *a, **kw):
                return self._rel.find_simplex(_relative(xi), *a, **kw)

            def __getattr__(self, name):
                return getattr(self._rel, name)

        def delaunay(points, *a, **kw):
            if shim.has_sym(points):
                return DelaunayStub(points)
            return real_delaunay(np.asarray(shim.normalise(points), dtype=float), *a, **kw)

        delaunay._c12 = True
        scipy.spatial.Delaunay = delaunay
    real_arctan2 = shim.NPFacade.arctan2

    def arctan2(self, y, x, **kw):
        return real_arctan2(self, _simplified(y), _simplified(x), **kw)

    shim.NPFacade.arctan2 = arctan2


def _patch_concretize():
    """work-around for an engine defect (reported): since Explorer.decide memoises conditions per path, a second
    concretize_int of a term already concretised on this path creates no stack entry when first explored, but on re-execution
    concretize_int reads the payload of the *next* stack entry (which belongs to a later decision) and can spin forever on a
    memoised-False condition.  Return the value already chosen on this path instead (exactly what the memo would answer)."""
    from symx import explore as EX
    if getattr(EX.Explorer, "_c12_patched", False):
        return
    orig_begin, orig_conc = EX.Explorer._begin_path, EX.Explorer.concretize_int

    def _begin_path(self):
        orig_begin(self)
        self._c12_conc, self._c12_keep = {}, []

    def concretize_int(self, t):
        t = z3.simplify(t)
        if z3.is_int_value(t):
            return t.as_long()
        k = t.get_id()
        if k in self._c12_conc:
            return self._c12_conc[k]
        v = orig_conc(self, t)
        self._c12_conc[k] = v
        self._c12_keep.append(t)      # keep the term alive so that its id is not reused
        return v

    EX.Explorer._begin_path = _begin_path
    EX.Explorer.concretize_int = concretize_int
    EX.Explorer._c12_patched = True


def _simplified(x):
    """proxies whose term simplifies to a numeral become floats (sound: z3.simplify preserves equality)"""
    from symx import shim
    x = hx.unwrap(x)

    def one(e):
        if isinstance(e, (V.SymReal, V.SymInt)):
            t = z3.simplify(e.t)
            if z3.is_rational_value(t) or z3.is_int_value(t):
                return np.float64(float(t.as_fraction()))
        return e

    if V.is_sym(x):
        return one(x)
    if isinstance(x, np.ndarray) and x.dtype == object:
        out = np.empty(x.shape, dtype=object)
        fo, fx = out.reshape(-1), x.reshape(-1)
        for i in range(fx.shape[0]):
            fo[i] = one(fx[i])
        return shim.normalise(out)
    return x


BODIES = {"case_geometry": body_geometry, "case_geometry_named": body_geometry, "case_overlay": body_overlay,
          "case_dataset": body_dataset, "case_points": body_points, "case_radial": body_radial, "case_mapper": body_mapper, "case_shared": body_shared, "case_relocate": body_relocate}


def cases(tier):
    quick = tier == "quick"
    out = []
    names = QUICK_NAMES
    for n, name in enumerate(names):
        out.append(("case_geometry_named", {"name": name, "scales": SCALES[n % len(SCALES)]}))
        if not quick:
            out.append(("case_geometry_named", {"name": name, "scales": SCALES[(n + 2) % len(SCALES)], "kernel": [3, 5], "sub": 3, "pad": [1, 4]}))
    # overlay image mesh: 2x2 plus the degenerate 1x1 / 1xN / Nx1 meshes.  |o|,|o+d| bounded on two cases (a fault that makes the
    # mask look-up origin-dependent then forks over finitely many pixel indices), unbounded on the others
    out.append(("case_overlay", {"name": "ring5", "scales": [1.0, 1.0], "shape": [2, 2], "bound": 1.0}, {"split": 3}))
    out.append(("case_overlay", {"name": "full3x3", "scales": [0.5, 2.0], "shape": [2, 2], "bound": 0.75}, {"split": 2}))
    for n, (name, shp) in enumerate([("disc7", (3, 3)), ("ring5", (1, 1)), ("blob6x7", (1, 3)), ("cross7", (3, 1)), ("edge4x6", (2, 3))]):
        out.append(("case_overlay", {"name": name, "scales": SCALES[n % len(SCALES)], "shape": list(shp), "bound": None}))
    out.append(("case_overlay", {"H": 2, "W": 3, "scales": [2.0, 0.25], "shape": [2, 2], "bound": None}))
    if not quick:
        out.append(("case_overlay", {"name": "blob6x7", "scales": [2.0, 0.25], "shape": [2, 3], "bound": 0.5}))
        out.append(("case_overlay", {"H": 2, "W": 2, "scales": [1.0, 1.0], "shape": [2, 2], "bound": 0.75}, {"split": 3}))
        out.append(("case_overlay", {"H": 3, "W": 3, "scales": [0.5, 2.0], "shape": [3, 2], "bound": None}, {"split": 4}))
        out.append(("case_overlay", {"H": 3, "W": 3, "scales": [1.0, 1.0], "shape": [1, 1], "bound": None}, {"split": 4}))
    for (H, W, sc) in [(5, 8, (0.5, 2.0)), (6, 9, (1.0, 0.25)), (3, 3, (3.0, 1.0)), (4, 4, (1.0, 1.0))]:
        out.append(("case_points", {"H": H, "W": W, "scales": list(sc), "N": 2, "cls": False}))
    for (H, W, sc) in [(2, 3, (0.5, 2.0)), (3, 2, (2.0, 0.25))] + ([] if quick else [(4, 5, (0.25, 0.5)), (3, 3, (1.0, 1.0))]):
        out.append(("case_points", {"H": H, "W": W, "scales": list(sc), "N": 1, "cls": True}))
    for (H, W, sc, ang) in [(3, 4, (2.0, 0.25), 0.0), (4, 3, (1.0, 1.0), 30.0), (5, 5, (0.5, 2.0), 90.0)] + \
            ([] if quick else [(6, 7, (0.25, 0.5), 120.0), (2, 9, (3.0, 1.0), 45.0)]):
        out.append(("case_radial", {"H": H, "W": W, "scales": list(sc), "angle": ang}))
    subs = [2, 1, "ones", "mixed"]
    for n, name in enumerate(["disc7", "ring5", "cross7", "edge4x6"] + ([] if quick else ["blob6x7", "two5x6", "full4x3"])):
        out.append(("case_mapper", {"name": name, "scales": SCALES[(n + 1) % len(SCALES)], "kind": "rectangular", "sub": subs[n % 4],
                                    "mesh_shape": [3, 3] if n % 2 == 0 else [3, 4]}))
    for n, name in enumerate(["disc7", "cross7", "full4x3", "ring5"] + ([] if quick else ["blob6x7", "edge4x6"])):
        out.append(("case_mapper", {"name": name, "scales": SCALES[n % len(SCALES)], "kind": "delaunay", "sub": subs[n % 4]}))
    out.append(("case_mapper", {"name": "disc7", "scales": [1.0, 1.0], "kind": "delaunay3", "sub": 1}))
    out.append(("case_mapper", {"H": 2, "W": 2, "scales": [0.5, 2.0], "kind": "rectangular", "mesh_shape": [3, 3], "sub": 1}))
    out.append(("case_mapper", {"H": 2, "W": 2, "scales": [0.5, 2.0], "kind": "rectangular", "mesh_shape": [3, 3], "sub": "mixed"}))
    if not quick:
        out.append(("case_mapper", {"H": 2, "W": 3, "scales": [1.0, 1.0], "kind": "rectangular", "mesh_shape": [4, 3], "sub": 2}, {"split": 2}))
        out.append(("case_mapper", {"H": 2, "W": 3, "scales": [1.0, 1.0], "kind": "rectangular", "mesh_shape": [3, 3], "sub": "ones"}, {"split": 2}))
        out.append(("case_mapper", {"H": 2, "W": 3, "scales": [2.0, 0.25], "kind": "delaunay", "sub": 2}, {"split": 2}))
        out.append(("case_mapper", {"H": 2, "W": 3, "scales": [2.0, 0.25], "kind": "delaunay", "sub": 1}, {"split": 2}))
    for n, name in enumerate(["ring5", "edge4x6", "full4x3", "blob6x7"] + ([] if quick else ["disc7", "two5x6", "corner6", "row3x7"])):
        out.append(("case_dataset", {"name": name, "scales": SCALES[n % len(SCALES)]}))
    if not quick:
        out.append(("case_dataset", {"H": 2, "W": 3, "scales": [0.25, 0.5]}, {"split": 4}))
        out.append(("case_dataset", {"H": 2, "W": 2, "scales": [0.5, 2.0]}, {"split": 2}))
    # border relocation (BorderRelocator.relocated_grid_from / relocated_mesh_grid_from) of grids translated with the mask
    # (quick: small grids only - a fault that measures radii from the absolute (0,0) puts one sqrt term per grid point into the branch conditions)
    for n, (name, sub) in enumerate([("full3x3", 1), ("single5x4", 2), ("row3x7", 1)] +
                                    ([] if quick else [("disc7", 2), ("ring5", 1), ("cross7", "mixed"), ("blob6x7", 2), ("edge4x6", 1), ("annulus9", 2), ("diag7", 2)])):
        out.append(("case_relocate", {"name": name, "scales": SCALES[n % len(SCALES)], "sub": sub, "stretch": [1.5, 2.0, 1.25][n % 3]}))
    out.append(("case_relocate", {"H": 2, "W": 2, "scales": [1.0, 1.0]}))
    if not quick:
        out.append(("case_relocate", {"H": 2, "W": 3, "scales": [0.5, 2.0], "stretch": 2.0}, {"split": 2}))
    # one set of option objects (over-sampling, image mesh, mesh, regularization, settings, preloads, PSF, simulator) shared by both runs
    for n, name in enumerate(["disc7", "ring5", "full3x3"] + ([] if quick else ["edge4x6", "blob6x7", "cross7", "full4x3"])):
        out.append(("case_shared", {"name": name, "scales": SCALES[n % len(SCALES)], "sub": 2 if n % 2 == 0 else 3}))
    out.append(("case_shared", {"H": 2, "W": 2, "scales": [0.5, 2.0]}))
    if not quick:
        out.append(("case_shared", {"H": 2, "W": 3, "scales": [1.0, 1.0]}, {"split": 2}))
    caps = [(H, W) for H in range(1, 4) for W in range(1, 4) if H * W <= 6]
    if not quick:
        caps += [(3, 3), (2, 4), (4, 2), (2, 5), (5, 2)]
    for n, (H, W) in enumerate(caps):
        cells = H * W
        out.append(("case_geometry", {"H": H, "W": W, "scales": SCALES[n % len(SCALES)]},
                    {"split": 0 if cells < 6 else (2 if cells < 9 else (5 if cells <= 10 else 7))}))
    if not quick:
        out += _deeper_cases()
    return out


def _deeper_cases():
    """thorough only: the next sizes up under the same obligations"""
    out = []
    # (1) every named mask under every scale pair (incl. tiny / huge / extreme aspect ratios), larger kernels and sub size 4
    for n, name in enumerate(QUICK_NAMES + BIG_NAMES):
        for k, sc in enumerate(SCALES + SCALES_MORE):
            if name in QUICK_NAMES and (sc == SCALES[QUICK_NAMES.index(name) % len(SCALES)] or sc == SCALES[(QUICK_NAMES.index(name) + 2) % len(SCALES)]):
                continue          # already run above
            kern, sub, pad = [((3, 3), 2, (2, 1)), ((5, 5), 4, (3, 3)), ((5, 3), 3, (0, 2)), ((3, 7), 2, (4, 0))][(n + k) % 4]
            out.append(("case_geometry_named", {"name": name, "scales": list(sc), "kernel": list(kern), "sub": sub, "pad": list(pad)}))
    # (2) all masks of the next shapes up: 3x4 and 4x3 (4095 masks each)
    out.append(("case_geometry", {"H": 3, "W": 4, "scales": [0.5, 2.0]}, {"split": 8}))
    out.append(("case_geometry", {"H": 4, "W": 3, "scales": [0.25, 0.5], "kernel": [3, 5], "sub": 3, "pad": [1, 4]}, {"split": 8}))
    # (3) datasets, mappers, shared option objects and overlay meshes on all 3x3 masks / on the big masks
    out.append(("case_dataset", {"H": 3, "W": 3, "scales": [0.5, 2.0]}, {"split": 6}))
    out.append(("case_dataset", {"H": 2, "W": 4, "scales": [3.0, 1.0], "sub": 3}, {"split": 4}))
    for n, name in enumerate(BIG_NAMES):
        if MASKS[name].shape[0] > 1:      # a one-row 2D data set makes noise_map_with_signal_to_noise_limit_from build an Array1D on a 2D mask
            out.append(("case_dataset", {"name": name, "scales": (SCALES + SCALES_MORE)[(n + 3) % 10], "sub": 2 + n % 3}))     # (ValueError at every origin; not a C12 matter)
        out.append(("case_shared", {"name": name, "scales": (SCALES + SCALES_MORE)[(n + 6) % 10], "sub": 2 + n % 2}))
        out.append(("case_mapper", {"name": name, "scales": (SCALES + SCALES_MORE)[n % 10], "kind": "rectangular", "sub": [2, 1, "ones", "mixed"][n % 4],
                                    "mesh_shape": [[3, 3], [5, 4], [3, 6], [7, 7]][n % 4]}))
        out.append(("case_mapper", {"name": name, "scales": SCALES[n % 5], "kind": "delaunay" if n % 3 else "delaunay3", "sub": [1, 2, "mixed"][n % 3]}))
        out.append(("case_overlay", {"name": name, "scales": (SCALES + SCALES_MORE)[(n + 1) % 10], "shape": [[4, 4], [2, 5], [5, 1], [3, 3]][n % 4], "bound": None}))
    out.append(("case_mapper", {"H": 3, "W": 3, "scales": [0.5, 2.0], "kind": "rectangular", "mesh_shape": [4, 4], "sub": 2}, {"split": 5}))
    out.append(("case_mapper", {"H": 3, "W": 3, "scales": [1.0, 1.0], "kind": "delaunay", "sub": 2}, {"split": 5}))
    out.append(("case_shared", {"H": 3, "W": 3, "scales": [2.0, 0.25], "sub": 3}, {"split": 6}))
    out.append(("case_shared", {"H": 3, "W": 2, "scales": [0.25, 0.5]}, {"split": 2}))
    out.append(("case_overlay", {"H": 3, "W": 3, "scales": [3.0, 1.0], "shape": [2, 2], "bound": None}, {"split": 4}))
    out.append(("case_overlay", {"H": 2, "W": 4, "scales": [0.5, 2.0], "shape": [2, 3], "bound": 0.75}, {"split": 4}))
    # (4) translated points / radial projections: more shapes, scales (tiny, huge, extreme aspect), more points, more angles
    for n, sc in enumerate(SCALES + SCALES_MORE):
        H, W = [(7, 11), (1, 1), (2, 13), (10, 10), (9, 4)][n % 5]
        out.append(("case_points", {"H": H, "W": W, "scales": list(sc), "N": 3, "cls": False}))
    for (H, W, sc) in [(4, 4, (0.125, 4.0)), (5, 3, (8.0, 8.0)), (1, 6, (1.5, 0.75)), (3, 5, (3.0, 1.0))]:
        out.append(("case_points", {"H": H, "W": W, "scales": list(sc), "N": 1, "cls": True}))
    out.append(("case_points", {"H": 2, "W": 2, "scales": [0.5, 2.0], "N": 2, "cls": True}))
    for n, ang in enumerate([15.0, 60.0, 135.0, 180.0, 225.0, 270.0, 300.0, 359.0, -45.0, 720.0]):
        H, W = [(7, 7), (3, 9), (10, 4), (1, 5), (6, 6)][n % 5]
        out.append(("case_radial", {"H": H, "W": W, "scales": list((SCALES + SCALES_MORE)[n % 9]), "angle": ang}))
    return out


def replay(cand):
    kw = dict(cand["case_kwargs"])
    c2 = dict(cand)
    if cand["case_fn"] == "case_geometry_named":
        mask = MASKS[kw.pop("name")]
        kw["H"], kw["W"] = mask.shape
        kw.setdefault("kernel", [3, 3]); kw.setdefault("sub", 2); kw.setdefault("pad", [2, 1])
    elif cand["case_fn"] == "case_geometry":
        kw.setdefault("kernel", [3, 3]); kw.setdefault("sub", 2); kw.setdefault("pad", [2, 1])
    elif cand["case_fn"] == "case_mapper":
        if kw.get("name") is not None:
            kw["H"], kw["W"] = MASKS[kw["name"]].shape
        kw.pop("name", None)
        kw.setdefault("sub", 2); kw.setdefault("mesh_shape", [3, 3])
    elif cand["case_fn"] == "case_relocate":
        if kw.get("name") is not None:
            kw["H"], kw["W"] = MASKS[kw["name"]].shape
        kw.pop("name", None)
        kw.setdefault("sub", 2); kw.setdefault("stretch", 1.5)
    elif cand["case_fn"] == "case_shared":
        if kw.get("name") is not None:
            kw["H"], kw["W"] = MASKS[kw["name"]].shape
        kw.pop("name", None)
        kw.setdefault("sub", 2)
    elif cand["case_fn"] == "case_dataset":
        if kw.get("name") is not None:
            kw["H"], kw["W"] = MASKS[kw["name"]].shape
        kw.pop("name", None)
        kw.setdefault("sub", 2)
    elif cand["case_fn"] == "case_overlay":
        if kw.get("name") is not None:
            kw["H"], kw["W"] = MASKS[kw["name"]].shape
        kw.pop("name", None); kw.pop("bound", None)
    c2["case_kwargs"] = kw
    return hx.replay_body(BODIES[cand["case_fn"]], c2, tol=1e-7, key=cand["obligation"])
