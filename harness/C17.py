"""C17 - grid decorators return containers mirroring the input grid, entry k for point k.

Mock profile classes are built inside every body: their decorated method evaluates *uninterpreted functions*
f_i(y, x) (ctx.uf) at every coordinate of the grid it receives, and it is called through the REAL decorators
aa.grid_dec.to_array / to_grid / to_vector_yx / project_grid / relocate_to_radial_minimum / transform with real
Grid2D / Grid2DIrregular / Grid1D objects whose coordinates (origins, centres, radial minima, angles) are solver variables.
"""
import math
import os
import tempfile

import numpy as np
import z3

from symx import hx, shim, values as V

PROPERTY = "C17"
FUNCTIONS = [
    "autoarray.structures.decorators.abstract.AbstractMaker.evaluate_func",
    "autoarray.structures.decorators.abstract.AbstractMaker.result",
    "autoarray.structures.decorators.to_array.ArrayMaker.via_grid_2d",
    "autoarray.structures.decorators.to_array.ArrayMaker.via_grid_2d_irr",
    "autoarray.structures.decorators.to_array.ArrayMaker.via_grid_1d",
    "autoarray.structures.decorators.to_array.to_array",
    "autoarray.structures.decorators.to_grid.GridMaker.via_grid_2d",
    "autoarray.structures.decorators.to_grid.GridMaker.via_grid_2d_irr",
    "autoarray.structures.decorators.to_grid.GridMaker.via_grid_1d",
    "autoarray.structures.decorators.to_grid.to_grid",
    "autoarray.structures.decorators.to_vector_yx.VectorYXMaker.via_grid_2d",
    "autoarray.structures.decorators.to_vector_yx.VectorYXMaker.via_grid_2d_irr",
    "autoarray.structures.decorators.to_vector_yx.to_vector_yx",
    "autoarray.structures.decorators.project_grid.project_grid",
    "autoarray.structures.decorators.relocate_radial.relocate_to_radial_minimum",
    "autoarray.structures.decorators.transform.transform",
    "autoarray.structures.grids.uniform_2d.Grid2D.grid_2d_radial_projected_from",
    "autoarray.structures.grids.uniform_1d.Grid1D.grid_2d_radial_projected_from",
    "autoarray.structures.grids.grid_2d_util.grid_scaled_2d_slim_radial_projected_from",
    "autoarray.geometry.geometry_util.transform_grid_2d_to_reference_frame",
    "autoarray.geometry.geometry_util.transform_grid_2d_from_reference_frame",
    "autoarray.mask.derive.mask_1d.DeriveMask1D.to_mask_2d",
    "autoarray.abstract_ndarray.AbstractNDArray.with_new_array",
]
BOUNDS = {
    "quick": "user functions: uninterpreted f_i(y,x) returning a 1D array, an (n,2) array or a list of two of either. "
             "Grid2D: all masks (>=1 unmasked) of shapes H*W<=6 (forked), coordinates free symbolic reals and from_mask with symbolic origin "
             "(pixel scales (1,1),(2,0.5)); Grid2DIrregular: 1..4 symbolic points; Grid1D: all masks of length<=4, free symbolic x / symbolic origin; "
             "project_grid: profile angle symbolic (unit vector (c,s), c^2+s^2=1) and from the concrete set {0,30,120,-100}, Grid2D projections of "
             "2x2/2x3 grids (all masks of 2x2) with symbolic origin and symbolic centre inside the extent, remove_projected_centre in {False,True}; "
             "radial minimum: 1..3 symbolic points as ndarray / Grid2DIrregular / Grid2D (1x2 masks), symbolic minima r_A, r_B > 0 of a base class and a "
             "subclass sharing the decorated method (config lookup stubbed) and the real autoconf lookup with minima 0.5 / 2.0; "
             "decorator stack to_array(transform(relocate)) with symbolic profile centre (translation) on Grid2D (1x2 masks) / Grid2DIrregular (<=2 points); "
             "user functions on a Grid2D that return an already structured result (Array2D / Grid2D / VectorYX2D built by the user in native storage on "
             "the same mask, on an equal-pattern mask with another origin, Grid2D with another over-sampling) in every Grid2D case; "
             "subclass inputs (aa.Grid2DIrregularUniform; trivial harness subclasses of Grid2D / Grid2DIrregular / Grid1D) through every decorator and "
             "return kind: <=3 points, Grid1D length<=3, Grid2D masks of 1x1, 1x2, 2x2; "
             "user functions returning a list with exactly one entry and an empty list (every decorator and container); the caller's grid "
             "is compared with its coordinates after every decorated call; "
             "stack with to_grid / to_vector_yx as the outermost decorator (<=2 irregular points, 1x2 masks); caller's extra keyword "
             "arguments reach the user function (irregular cases, every decorator); "
             "the stack is called with no keyword, is_transformed=True and is_transformed=False, directly and NESTED (a to_array(transform) "
             "method whose body calls a transform(relocate) method of the same object with its **kwargs); "
             "histories: two grids with different symbolic coordinates on ONE mask geometry (separate equal mask objects) called A, B, A through "
             "to_array / to_grid / to_vector_yx / project_grid on the same profile: Grid1D masks of length<=3, Grid2D masks 1x2, 2x2, 1..3 irregular points",
    "thorough": "as quick with Grid2D masks of H*W<=9, Grid1D length<=5, irregular <=5 points, angle set {0,30,45,90,120,170,-100,200,-60}, projections of "
                "2x2,2x3,3x2,3x3 grids (all masks up to 6 pixels), radial minimum with <=4 points and 2x2 Grid2D masks, stack with 2x2 masks / <=3 points, histories with Grid1D length<=4, Grid2D 2x3, <=4 points, subclass inputs with <=5 points / length<=5 / masks up to 2x3, 3x2",
}
OUTSIDE = [
    "grids stored natively (store_native=True inputs), over_sample decorator, to_projected",
    "coordinate exactly at the profile centre with a symbolic radial minimum (the engine assumes divisors != 0; the r = 0 point is checked "
    "with concrete (0,0) and the concrete configured minima only)",
    "float64 rounding (real arithmetic; concrete cos/sin of the concrete angle set are the float64 values, compared with tolerance 1e-9)",
    "Grid2D projections for shapes beyond 3x3 and profile centres outside the grid extent",
    "a rotating profile frame inside the transform+relocate stack (nested square roots: z3 returns unknown within 20 s; rotation is covered on the "
    "project_grid path only)",
]
STUBS = [
    "user functions: z3 uninterpreted functions f_i : R x R -> R (no contract: this is 'every user function'); native runs use the solver model's graph of f_i",
    "np.arctan2 / np.radians / np.sin / np.cos on angles: unit-vector angle domain of symx.shim (exact in real arithmetic); symbolic profile angle = "
    "harness class SymAngleDeg ((c,s) pair; +-90k exact, %180 / %360 modelled exactly)",
    "autoconf lookup conf.instance['grids']['radial_minimum']['radial_minimum'][cls] replaced by a dict of solver variables in the 'sym' radial-minimum "
    "cases (the 'conf' cases use the real autoconf with a pushed temporary config directory)",
    "proxies are given a constant __hash__ (POST_INSTALL): dict / tuple key equality in repository code is then decided by the symbolic == (path decision)",
    "mock profile's transformed_to_reference_frame_grid_from (user code in PyAutoGalaxy): translation by the symbolic profile centre",
]
ASSUMPTIONS = [
    "mask bits, grid sizes, list lengths and the concrete angle set are enumerated; everything else is a solver variable",
    "divisors are non-zero (engine domain constraint): radial-minimum obligations with symbolic points exclude the point exactly at the centre",
    "general.grid.remove_projected_centre is provided by a temporary config directory (it is absent from autoarray/config/general.yaml)",
]
EXPLORER_OPTS = {"timeout_ms": 20000, "max_paths": 100000}
BUDGET_S = {"quick": 600, "thorough": 2300}

R_BASE, R_CORED = 0.5, 2.0          # concrete configured minima of the 'conf' cases (dyadic)
_CFG = [None]


def POST_INSTALL():
    # np.sin / np.cos of object arrays holding shim.Angle call the element's .sin() / .cos()
    shim.Angle.sin = lambda self: self.s
    shim.Angle.cos = lambda self: self.c
    # facade arctan2 hands proxy-free *object* arrays to numpy unchanged (numpy then looks for a .arctan2 method): normalise them first
    orig = shim.NPFacade.arctan2

    def arctan2(self, y, x, **kw):
        if not shim.has_sym(y) and not shim.has_sym(x):
            return np.arctan2(shim.normalise(y), shim.normalise(x))
        return orig(self, y, x, **kw)

    shim.NPFacade.arctan2 = arctan2
    # proxies are unhashable in the engine (TypeError as soon as repository code builds a dict key from a mask origin ...):
    # a constant hash sends every key comparison to the symbolic __eq__ (SymBool -> path decision), a faithful model of dict lookup
    V.SymReal.__hash__ = lambda self: 7919
    V.SymInt.__hash__ = lambda self: 7919


def _ensure_config():
    """temporary autoconf directory: radial minima of the mock classes + general.grid.remove_projected_centre"""
    if _CFG[0] is None:
        from autoconf import conf
        d = tempfile.mkdtemp(prefix="c17cfg_")
        with open(os.path.join(d, "general.yaml"), "w") as f:
            f.write("grid:\n  remove_projected_centre: false\n")
        with open(os.path.join(d, "grids.yaml"), "w") as f:
            f.write("radial_minimum:\n  radial_minimum:\n    C17Profile: %r\n    C17ProfileCored: %r\n" % (R_BASE, R_CORED))
        conf.instance.push(new_path=d, output_path=os.path.join(d, "output"))
        _CFG[0] = d
    return _CFG[0]


def _set_remove_centre(flag):
    from autoconf import conf
    _ensure_config()
    conf.instance["general"]["grid"]["remove_projected_centre"] = bool(flag)


def _is_sym():
    return V._CTX[0] is not None


# --------------------------------------------------------------------------- user functions

class UserFns:
    """family f_i(y, x): uninterpreted in symbolic runs (every application is recorded in inp['ftab'] so that the solver model's
    interpretation can be used by native runs); in native runs a lookup in that table, with a generic asymmetric fallback."""

    def __init__(self, inp):
        self.sym = _is_sym()
        self.tab = inp.setdefault("ftab", [])
        self._seen = set()
        if not self.sym:
            t = self.tab
            self.rows = [[float(v) for v in row] for row in (t.tolist() if isinstance(t, np.ndarray) else t)]

    def __call__(self, i, y, x):
        if self.sym:
            ty, tx = V.to_real_term(y), V.to_real_term(x)
            val = V.SymReal(V.ctx().uf("f%d" % i, 2)(ty, tx))
            key = (i, ty.get_id(), tx.get_id())
            if key not in self._seen:
                self._seen.add(key)
                self.tab.append([i, y, x, val])
            return val
        y, x = float(y), float(x)
        best, bd = None, 1e-6
        for row in self.rows:
            if int(row[0]) == i:
                d = abs(row[1] - y) + abs(row[2] - x)
                if d < bd:
                    best, bd = row[3], d
        if best is not None:
            return best
        return (i + 1) * 0.731 + 1.318 * y - 0.577 * x + 0.25 * y * x + 0.125 * x * x

    def column(self, i, coords):
        return _arr([self(i, c[0], c[1]) for c in coords])

    def ret(self, kind, coords):
        """what the mock profile returns for the (n,2) coordinates"""
        if kind == "scalar":
            return self.column(0, coords)
        if kind == "pair":
            return _pairs(self.column(0, coords), self.column(1, coords))
        if kind == "list_scalar":
            return [self.column(0, coords), self.column(1, coords)]
        if kind == "list_pair":
            return [_pairs(self.column(0, coords), self.column(1, coords)), _pairs(self.column(2, coords), self.column(3, coords))]
        if kind == "list1_scalar":                     # a list with exactly one entry stays a one-entry list
            return [self.column(0, coords)]
        if kind == "list1_pair":
            return [_pairs(self.column(0, coords), self.column(1, coords))]
        if kind == "list0":                            # an empty list stays an empty list
            return []
        raise ValueError(kind)


def _arr(items):
    if _is_sym():
        a = np.empty(len(items), dtype=object)
        for k, e in enumerate(items):
            a[k] = e
        return a
    return np.array([float(e) for e in items], dtype=float).reshape(len(items))


def _pairs(a, b):
    out = np.empty((len(a), 2), dtype=object if _is_sym() else float)
    out[:, 0] = a
    out[:, 1] = b
    return out


def _coords(g):
    a = np.asarray(hx.unwrap(g))
    return a


def _user(uf, log, kind, wrap=None):
    """body of the mock profile method: records what it received and returns f_i(coordinate k); `wrap(grid, values)` lets the
    function hand back an already structured result (Grid2D / Array2D / VectorYX2D built by the user) instead of a plain ndarray"""

    def fn(self, grid, *args, **kwargs):
        c = _coords(grid)
        out = uf.ret(kind, c.reshape(-1, 2))
        log.append({"type": type(grid).__name__, "coords": c.copy(), "grid": grid, "kwargs": dict(kwargs), "args": args, "ret": out})
        if wrap is not None:
            return wrap(grid, out)
        return out

    return fn


def _profile(name, fn, decs, base=object, **attrs):
    """class <name> with method `fn` wrapped by the real decorators `decs` (outermost first)"""
    for d in reversed(decs):
        fn = d(fn)
    ns = {"fn": fn}
    ns.update(attrs)
    return type(name, (base,), ns)


def _as_list(r):
    return r if isinstance(r, list) else [r]


def _ite(c, a, b):
    return shim._ite(c, a, b)


RET_N = {"scalar": 1, "pair": 1, "list_scalar": 2, "list_pair": 2, "list1_scalar": 1, "list1_pair": 1, "list0": 0}


def _check_container_list(A, E, key, res, kind, cls_name, ret_list, per_item):
    """shared obligations on the value returned by a decorated method: list-ness, length, container type, entries"""
    if isinstance(res, hx.Raised):
        A[key + ".call"] = res
        E[key + ".call"] = "returns"
        return []
    A[key + ".is_list"] = isinstance(res, list)
    E[key + ".is_list"] = kind.startswith("list")
    items = _as_list(res)
    A[key + ".len"] = len(items)
    E[key + ".len"] = RET_N[kind]
    for j, r in enumerate(items[:RET_N[kind]]):
        kj = "%s.%d" % (key, j)
        A[kj + ".type"] = type(r).__name__
        E[kj + ".type"] = cls_name
        A[kj + ".values"] = hx.attempt(lambda: _coords(r))
        E[kj + ".values"] = ret_list[j] if j < len(ret_list) else None
        per_item(kj, r)
    return items


# --------------------------------------------------------------------------- Grid2D through to_array / to_grid / to_vector_yx

DEC_KINDS = (("to_array", "scalar", "Array2D", "ArrayIrregular"), ("to_array", "list_scalar", "Array2D", "ArrayIrregular"),
             ("to_grid", "pair", "Grid2D", "Grid2DIrregular"), ("to_grid", "list_pair", "Grid2D", "Grid2DIrregular"),
             ("to_vector_yx", "pair", "VectorYX2D", "VectorYX2DIrregular"), ("to_vector_yx", "list_pair", "VectorYX2D", "VectorYX2DIrregular"),
             ("to_array", "list1_scalar", "Array2D", "ArrayIrregular"), ("to_grid", "list1_pair", "Grid2D", "Grid2DIrregular"),
             ("to_vector_yx", "list1_pair", "VectorYX2D", "VectorYX2DIrregular"),
             ("to_array", "list0", "Array2D", "ArrayIrregular"), ("to_grid", "list0", "Grid2D", "Grid2DIrregular"),
             ("to_vector_yx", "list0", "VectorYX2D", "VectorYX2DIrregular"))


_SUB = {}


def _grid_cls(base, sub):
    """grid class to instantiate: 'base' = the library class itself, 'user' = a trivial harness-defined subclass,
    'lib' = the library's own public subclass (only Grid2DIrregularUniform(Grid2DIrregular) exists)"""
    import autoarray as aa
    if sub == "base":
        return getattr(aa, base)
    if sub == "lib":
        assert base == "Grid2DIrregular"
        return aa.Grid2DIrregularUniform
    key = (base, sub)
    if key not in _SUB:
        _SUB[key] = type("C17User" + base, (getattr(aa, base),), {"__doc__": "user subclass without any change of behaviour"})
    return _SUB[key]


def _ref_positions(mask):
    return [(i, j) for i in range(mask.shape[0]) for j in range(mask.shape[1]) if not mask[i, j]]


def body_grid2d(inp, H, W, variant, scales, sub="base"):
    import autoarray as aa
    _ensure_config()
    mask = np.array(inp["mask"], dtype=bool).reshape(H, W)
    oy, ox = inp["origin"]
    sy, sx = scales
    pos = _ref_positions(mask)
    n = len(pos)
    uf = UserFns(inp)
    m2 = aa.Mask2D(mask=mask, pixel_scales=(sy, sx), origin=(oy, ox))
    osamp = aa.OverSamplingUniform(sub_size=2)
    if variant == "from_mask":
        grid = aa.Grid2D.from_mask(mask=m2, over_sampling=osamp)
        if sub != "base":       # the from_mask classmethods build the base class: re-wrap the same coordinates in the subclass
            grid = _grid_cls("Grid2D", sub)(values=_coords(grid).copy(), mask=m2, over_sampling=osamp)
        ref = [(oy + ((H - 1) / 2.0 - i) * sy, ox + (j - (W - 1) / 2.0) * sx) for (i, j) in pos]
    else:
        g = np.asarray(inp["g"]).reshape(-1, 2)[:n]
        grid = _grid_cls("Grid2D", sub)(values=g.copy(), mask=m2, over_sampling=osamp)
        ref = [(g[k, 0], g[k, 1]) for k in range(n)]
    A, E = {}, {}
    # user functions that return an ALREADY STRUCTURED result: the decorated result must still follow the INPUT grid
    # (its mask object/geometry, slim storage with entry k for unmasked pixel k, its over-sampling)
    cont = {"to_array": aa.Array2D, "to_grid": aa.Grid2D, "to_vector_yx": aa.VectorYX2D}

    def mk_wrap(dec, how):
        def wrap(g_in, vals):
            extra = {"grid": g_in} if dec == "to_vector_yx" else {}
            if how == "native_same_mask":          # same mask object, native (H, W[, 2]) storage
                return cont[dec](values=vals, mask=g_in.mask, store_native=True, **extra)
            if how == "other_origin":              # equal pattern, other mask object with a different origin
                m_o = aa.Mask2D(mask=mask.copy(), pixel_scales=(sy, sx), origin=(oy + 1.0, ox - 2.0))
                return cont[dec](values=vals, mask=m_o, **extra)
            return aa.Grid2D(values=vals, mask=g_in.mask, over_sampling=aa.OverSamplingUniform(sub_size=4))   # other_over_sampling
        return wrap

    structured = [(d, k, c, how) for (d, k, c) in (("to_array", "scalar", "Array2D"), ("to_grid", "pair", "Grid2D"), ("to_vector_yx", "pair", "VectorYX2D"))
                  for how in ("native_same_mask", "other_origin")] + [("to_grid", "pair", "Grid2D", "other_over_sampling")]
    for dec, kind, cls2d, how in [(d, k, c, None) for (d, k, c, _) in DEC_KINDS] + structured:
        key = "%s.%s" % (dec, kind) + ("" if how is None else ".returns_" + how)
        log = []
        P = _profile("C17Profile", _user(uf, log, kind, wrap=None if how is None else mk_wrap(dec, how)), [getattr(aa.grid_dec, dec)], centre=(0.0, 0.0))
        res = hx.attempt(lambda: P().fn(grid))
        # what reached the user function: the input grid itself, coordinate k in slim order
        A[key + ".seen_type"] = log[-1]["type"] if log else None
        E[key + ".seen_type"] = _grid_cls("Grid2D", sub).__name__
        A[key + ".seen"] = log[-1]["coords"] if log else None
        E[key + ".seen"] = _pairs(_arr([r[0] for r in ref]), _arr([r[1] for r in ref]))
        A[key + ".calls"] = len(log)
        E[key + ".calls"] = 1
        A[key + ".input_untouched"] = _coords(grid)          # the caller's grid still holds its coordinates after the call
        E[key + ".input_untouched"] = E[key + ".seen"]
        exp = uf.ret(kind, ref)
        exp = exp if isinstance(exp, list) else [exp]

        def per_item(kj, r, dec=dec):
            rm = getattr(r, "mask", None)
            A[kj + ".mask"] = hx.attempt(lambda: np.array(rm))
            E[kj + ".mask"] = mask
            A[kj + ".mask_geometry"] = hx.attempt(lambda: [rm.pixel_scales[0], rm.pixel_scales[1], rm.origin[0], rm.origin[1]])
            E[kj + ".mask_geometry"] = [sy, sx, oy, ox]
            nat = hx.attempt(lambda: r.native.array)
            A[kj + ".native_shape"] = list(nat.shape) if isinstance(nat, np.ndarray) else nat
            E[kj + ".native_shape"] = [H, W] if dec == "to_array" else [H, W, 2]
            if dec == "to_grid":
                A[kj + ".over_sampling"] = getattr(r, "over_sampling", None) is osamp
                E[kj + ".over_sampling"] = True
            if dec == "to_vector_yx":
                A[kj + ".grid"] = hx.attempt(lambda: _coords(r.grid))
                E[kj + ".grid"] = E[key + ".seen"]

        _check_container_list(A, E, key, res, kind, cls2d, exp, per_item)
    return A, E


def _sym_mask(ctx, shape, name="m"):
    m = V.bool_array(name, shape)
    ctx.assume(z3.Or(*[z3.Not(b.t) for b in m.reshape(-1)]))
    return ctx.concrete_bools(m)


def case_grid2d(ctx, H, W, variant, scales, sub="base"):
    mask = _sym_mask(ctx, (H, W))
    ctx.set_case(mask=mask.tolist())
    inputs = {"mask": mask, "origin": [V.real("oy"), V.real("ox")], "g": V.real_array("g", (H * W, 2)), "ftab": []}
    hx.run_body(ctx, body_grid2d, inputs, {"H": H, "W": W, "variant": variant, "scales": scales, "sub": sub}, validate_every=64)


# --------------------------------------------------------------------------- Grid2DIrregular

def body_irregular(inp, N, sub="base"):
    import autoarray as aa
    _ensure_config()
    p = np.asarray(inp["p"]).reshape(N, 2)
    uf = UserFns(inp)
    grid = _grid_cls("Grid2DIrregular", sub)(values=p.copy())
    ref = [(p[k, 0], p[k, 1]) for k in range(N)]
    ref_arr = _pairs(_arr([r[0] for r in ref]), _arr([r[1] for r in ref]))
    A, E = {}, {}
    for dec, kind, _, clsirr in DEC_KINDS + (("project_grid", "scalar", None, "ArrayIrregular"), ("project_grid", "pair", None, "Grid2DIrregular")):
        key = "%s.%s" % (dec, kind)
        log = []
        P = _profile("C17Profile", _user(uf, log, kind), [getattr(aa.grid_dec, dec)], centre=(0.0, 0.0), angle=30.0)
        res = hx.attempt(lambda: P().fn(grid, option=7, is_transformed=True))
        # the caller's keyword arguments reach the user function unchanged (extra POSITIONAL arguments are not used: the wrappers'
        # `Maker(func=func, obj=obj, grid=grid, *args, **kwargs)` raises TypeError for them on the pristine code - not part of the statement)
        A[key + ".kwargs_forwarded"] = repr(sorted(log[-1]["kwargs"].items())) if log else None
        E[key + ".kwargs_forwarded"] = repr([("is_transformed", True), ("option", 7)])
        A[key + ".seen_type"] = log[-1]["type"] if log else None
        E[key + ".seen_type"] = _grid_cls("Grid2DIrregular", sub).__name__
        A[key + ".seen"] = log[-1]["coords"] if log else None
        E[key + ".seen"] = ref_arr
        A[key + ".calls"] = len(log)
        E[key + ".calls"] = 1
        A[key + ".input_untouched"] = _coords(grid)
        E[key + ".input_untouched"] = ref_arr
        exp = uf.ret(kind, ref)
        exp = exp if isinstance(exp, list) else [exp]

        def per_item(kj, r, dec=dec):
            if dec == "to_vector_yx":
                A[kj + ".grid"] = hx.attempt(lambda: _coords(r.grid))
                E[kj + ".grid"] = ref_arr

        _check_container_list(A, E, key, res, kind, clsirr, exp, per_item)
    return A, E


def case_irregular(ctx, N, sub="base"):
    inputs = {"p": V.real_array("p", (N, 2)), "ftab": []}
    hx.run_body(ctx, body_irregular, inputs, {"N": N, "sub": sub}, validate_every=1)


# --------------------------------------------------------------------------- Grid1D

class SymAngleDeg(shim.AngleDeg):
    """a profile angle in degrees known only through (cos, sin); supports what project_grid does with it"""

    def _rot(self, deg):
        k = deg / 90.0
        if k == int(k):
            oc, os_ = ((1.0, 0.0), (0.0, 1.0), (-1.0, 0.0), (0.0, -1.0))[int(k) % 4]
        else:
            oc, os_ = math.cos(math.radians(deg)), math.sin(math.radians(deg))
        a = self.angle
        return SymAngleDeg(a.c * oc - a.s * os_, a.s * oc + a.c * os_)

    def __add__(self, o):
        if isinstance(o, (int, float, np.floating, np.integer)):
            return self._rot(float(o))
        return NotImplemented

    __radd__ = __add__

    def __sub__(self, o):
        if isinstance(o, (int, float, np.floating, np.integer)):
            return self._rot(-float(o))
        return NotImplemented

    def __mod__(self, m):
        if float(m) == 360.0:
            return self
        if float(m) == 180.0:
            a = self.angle
            inside = (a.s > 0) | ((a.s == 0) & (a.c > 0))         # angle mod 360 in [0, 180)
            return SymAngleDeg(_ite(inside, a.c, -a.c), _ite(inside, a.s, -a.s))
        raise V.Unsupported("symbolic angle %% %r" % (m,))


def _angle_spec(inp, angle):
    """(value given to the profile, cos, sin of the PROJECTION angle = profile angle + 90 degrees); angle == 'sym' uses inp['cs'];
    a profile without an angle (absent / None) is projected along the +x axis itself"""
    if angle == "sym":
        c, s = inp["cs"]
        if _is_sym():
            return SymAngleDeg(c, s), -s, c
        return math.degrees(math.atan2(float(s), float(c))), -float(s), float(c)
    if angle is None or angle == "absent":
        return angle, 1.0, 0.0
    a = float(angle)
    rad = float(np.radians(a + 90.0))
    return a, math.cos(rad), math.sin(rad)


def _profile_attrs(angle_value, centre):
    attrs = {}
    if angle_value != "absent":
        attrs["angle"] = angle_value
    if centre != "absent":
        attrs["centre"] = centre
    return attrs


def body_grid1d(inp, N, variant, angle, sub="base"):
    import autoarray as aa
    _ensure_config()
    mask = np.array(inp["mask"], dtype=bool).reshape(N)
    o = inp["origin"][0]
    ps = 0.5
    idx = [i for i in range(N) if not mask[i]]
    n = len(idx)
    uf = UserFns(inp)
    m1 = aa.Mask1D(mask=mask, pixel_scales=(ps,), origin=(o,))
    if variant == "from_mask":
        grid = aa.Grid1D.from_mask(mask=m1)
        if sub != "base":
            grid = _grid_cls("Grid1D", sub)(values=_coords(grid).copy(), mask=m1)
        xs = [o + (i - (N - 1) / 2.0) * ps for i in idx]
    else:
        xv = np.asarray(inp["x"]).reshape(-1)[:n]
        grid = _grid_cls("Grid1D", sub)(values=xv.copy(), mask=m1)
        xs = [xv[k] for k in range(n)]
    A, E = {}, {}
    TOL = {}
    zero = np.float64(0.0)
    ref0 = [(zero, x) for x in xs]                                   # projected line at angle 0: (0, x_k)
    ref0_arr = _pairs(_arr([r[0] for r in ref0]), _arr([r[1] for r in ref0]))
    for dec, kind, cls in (("to_array", "scalar", "Array1D"), ("to_array", "list_scalar", "Array1D"),
                           ("to_grid", "pair", "Grid2D"), ("to_grid", "list_pair", "Grid2D"),
                           ("to_array", "list1_scalar", "Array1D"), ("to_grid", "list1_pair", "Grid2D"),
                           ("to_array", "list0", "Array1D"), ("to_grid", "list0", "Grid2D")):
        key = "%s.%s" % (dec, kind)
        log = []
        P = _profile("C17Profile", _user(uf, log, kind), [getattr(aa.grid_dec, dec)], centre=(0.0, 0.0))
        res = hx.attempt(lambda: P().fn(grid))
        A[key + ".seen_type"] = log[-1]["type"] if log else None
        E[key + ".seen_type"] = "Grid2DIrregular"
        A[key + ".seen"] = log[-1]["coords"] if log else None
        E[key + ".seen"] = ref0_arr
        A[key + ".calls"] = len(log)
        E[key + ".calls"] = 1
        A[key + ".input_untouched"] = _coords(grid)
        E[key + ".input_untouched"] = _arr(xs)
        exp = uf.ret(kind, ref0)
        exp = exp if isinstance(exp, list) else [exp]

        def per_item(kj, r, dec=dec):
            rm = getattr(r, "mask", None)
            A[kj + ".mask"] = hx.attempt(lambda: np.array(rm))
            if dec == "to_array":
                E[kj + ".mask"] = mask
                A[kj + ".mask_geometry"] = hx.attempt(lambda: [rm.pixel_scales[0], rm.origin[0]])
                E[kj + ".mask_geometry"] = [ps, o]
            else:
                E[kj + ".mask"] = mask.reshape(1, N)
                A[kj + ".mask_geometry"] = hx.attempt(lambda: [rm.pixel_scales[0], rm.pixel_scales[1]])
                E[kj + ".mask_geometry"] = [ps, ps]

        _check_container_list(A, E, key, res, kind, cls, exp, per_item)

    # project_grid: evaluated along the +x half line rotated clockwise by (profile angle + 90)
    aval, ca, sa = _angle_spec(inp, angle)                           # cos / sin of the projection angle (profile angle + 90)
    refp = [(zero - x * sa, x * ca) for x in xs]
    key = "project_grid.scalar"
    log = []
    P = _profile("C17Profile", _user(uf, log, "scalar"), [aa.grid_dec.project_grid], **_profile_attrs(aval, (0.0, 0.0)))
    res = hx.attempt(lambda: P().fn(grid))
    A[key + ".seen_type"] = log[-1]["type"] if log else None
    E[key + ".seen_type"] = "Grid2DIrregular"
    A[key + ".seen"] = log[-1]["coords"] if log else None
    E[key + ".seen"] = _pairs(_arr([r[0] for r in refp]), _arr([r[1] for r in refp]))
    if angle != "sym":
        TOL[key + ".seen"] = 1e-9
    A[key + ".calls"] = len(log)
    E[key + ".calls"] = 1
    A[key + ".input_untouched"] = _coords(grid)
    E[key + ".input_untouched"] = _arr(xs)
    # entry k of the result is what the function returned for the k-th projected coordinate (an exact pairing)
    exp = [log[-1]["ret"]] if log else [None]

    def per_item1(kj, r):
        rm = getattr(r, "mask", None)
        A[kj + ".mask"] = hx.attempt(lambda: np.array(rm))
        E[kj + ".mask"] = np.zeros(n, dtype=bool)
        A[kj + ".pixel_scale"] = hx.attempt(lambda: rm.pixel_scales[0])
        E[kj + ".pixel_scale"] = ps

    _check_container_list(A, E, key, res, "scalar", "Array1D", exp, per_item1)
    inp["_tol"] = TOL
    return A, E


def _install_relevance_slicing(ctx):
    """Obligation queries first try a *relevance-sliced* hypothesis set: only those path constraints whose variables all occur in
    the obligation (plus the sqrt definitions over such variables).  Dropping hypotheses is sound for an `unsat` (= holds)
    verdict; any other answer falls back to the engine's own query with the full path condition.  Without it the per-point
    radial-minimum obligations carry the square roots and branch decisions of all the other points (z3 'unknown' under load)."""
    if getattr(ctx, "_c17_sliced", False):
        return
    import time
    orig = ctx._check_sliced
    fv_cache = {}

    def fvs(c):
        hit = fv_cache.get(c.get_id())
        if hit is None:
            if len(fv_cache) > 4000:
                fv_cache.clear()
            hit = (c, frozenset(ctx._free_vars(c, {})))       # keeps the term alive: z3 re-uses ids of collected terms
            fv_cache[c.get_id()] = hit
        return hit[1]

    def sliced(*extra, group=None):
        S = set()
        for e in extra:
            S |= set(ctx._free_vars(e, {}))
        cons = list(ctx.constraints)
        keep = [False] * len(cons)
        changed = True
        while changed:
            changed = False
            for i, c in enumerate(cons):
                if keep[i]:
                    continue
                cg = ctx.groups.get(c.get_id())
                if cg is not None and cg != group:
                    continue
                fv = fvs(c)
                dv = ctx.defs.get(c.get_id())
                if dv is not None:
                    if (fv - {dv.get_id()}) <= S:
                        keep[i] = True
                        if dv.get_id() not in S:
                            S.add(dv.get_id())
                        changed = True
                elif fv <= S:
                    keep[i] = True
                    changed = True
        if not all(keep):
            t0 = time.time()
            ctx.stats.queries += 1
            sv = ctx._new_solver()
            for i, c in enumerate(cons):
                if keep[i]:
                    sv.add(c)
            sv.add(*extra)
            r = str(sv.check())
            ctx.stats.solver_time += time.time() - t0
            if r == "unsat":
                return "unsat", None
        return orig(*extra, group=group)

    ctx._check_sliced = sliced
    ctx._c17_sliced = True


def _run(ctx, body, inputs, kwargs, validate_every=16, known=None):
    """hx.run_body with per-key tolerances published by the body (inp['_tol'])"""
    _install_relevance_slicing(ctx)
    ctx.set_inputs(**{k: v for k, v in inputs.items() if not k.startswith("_")})
    actual, expected = body(inputs, **kwargs)
    tol = inputs.pop("_tol", None) or None
    hx.check_all(ctx, actual, expected, tol=tol, known=known)
    if validate_every:
        # the reachability twin is a query over the WHOLE path condition (all points' square roots): give it a longer timeout
        old_to = ctx.timeout_ms
        ctx.timeout_ms = max(old_to, 90000)
        if not ctx.logic:
            ctx.solver.set("timeout", ctx.timeout_ms)
        try:
            hx.validate(ctx, body, {k: v for k, v in inputs.items() if not k.startswith("_")}, kwargs, actual, every=validate_every)
        finally:
            ctx.timeout_ms = old_to
            if not ctx.logic:
                ctx.solver.set("timeout", old_to)
    return actual, expected


def _sym_unit(ctx, name="a"):
    c, s = V.real(name + "_cos"), V.real(name + "_sin")
    ctx.assume(c.t * c.t + s.t * s.t == 1)
    return [c, s]


def case_grid1d(ctx, N, variant, angle, sub="base"):
    mask = _sym_mask(ctx, (N,))
    ctx.set_case(mask=mask.tolist())
    inputs = {"mask": mask, "origin": [V.real("o")], "x": V.real_array("x", (N,)), "ftab": []}
    if angle == "sym":
        inputs["cs"] = _sym_unit(ctx)
    _run(ctx, body_grid1d, inputs, {"N": N, "variant": variant, "angle": angle, "sub": sub}, validate_every=4)


# --------------------------------------------------------------------------- project_grid on a Grid2D

def _max2(a, b):
    return shim.sym_max2(a, b)


def body_project2d(inp, H, W, scales, angle, remove_centre, centre_mode="sym", fork_mask=True):
    import autoarray as aa
    _set_remove_centre(remove_centre)
    mask = np.array(inp["mask"], dtype=bool).reshape(H, W)
    oy, ox = inp["origin"]
    sy, sx = scales
    uf = UserFns(inp)
    m2 = aa.Mask2D(mask=mask, pixel_scales=(sy, sx), origin=(oy, ox))
    grid = aa.Grid2D.from_mask(mask=m2)
    if centre_mode == "sym":
        cy, cx = inp["centre"]
        centre = (cy, cx)
    else:
        cy, cx = 0.0, 0.0
        centre = centre_mode                                         # "absent" / None -> decorator default (0, 0)
    aval, ca, sa = _angle_spec(inp, angle)                           # cos / sin of the projection angle (profile angle + 90)
    A, E, TOL = {}, {}, {}
    key = "project_grid.scalar"
    log = []
    P = _profile("C17Profile", _user(uf, log, "scalar"), [aa.grid_dec.project_grid], **_profile_attrs(aval, centre))
    res = hx.attempt(lambda: P().fn(grid))
    _set_remove_centre(False)
    # reference: longest of the four axis-aligned distances from the centre to the edge of the grid's extent, sampled in
    # steps of that axis' pixel scale starting at the centre, laid along the +x half line rotated clockwise by angle + 90
    d_px, d_nx = (ox + W * sx / 2.0) - cx, cx - (ox - W * sx / 2.0)
    d_py, d_ny = (oy + H * sy / 2.0) - cy, cy - (oy - H * sy / 2.0)
    dmax = _max2(_max2(d_px, d_nx), _max2(d_py, d_ny))
    step = _ite((dmax == d_py) | (dmax == d_ny), sy, sx)
    n_ref = V.sym_int(dmax / step) + 1
    k0 = 1 if remove_centre else 0
    seen = log[-1]["coords"] if log else None
    n_act = (seen.shape[0] + k0) if isinstance(seen, np.ndarray) else -1
    A[key + ".n_points"] = n_act
    E[key + ".n_points"] = n_ref
    A[key + ".seen_type"] = log[-1]["type"] if log else None
    E[key + ".seen_type"] = "Grid2DIrregular"
    ref = [(cy - (k * step) * sa, cx + (k * step) * ca) for k in range(k0, max(n_act, k0))]
    A[key + ".seen"] = seen
    E[key + ".seen"] = _pairs(_arr([r[0] for r in ref]), _arr([r[1] for r in ref]))
    if angle != "sym":
        TOL[key + ".seen"] = 1e-9
    A[key + ".calls"] = len(log)
    E[key + ".calls"] = 1
    exp = [log[-1]["ret"]] if log else [None]

    def per_item(kj, r):
        rm = getattr(r, "mask", None)
        A[kj + ".mask"] = hx.attempt(lambda: np.array(rm))
        E[kj + ".mask"] = np.zeros(max(n_act - k0, 0), dtype=bool)
        A[kj + ".pixel_scale"] = hx.attempt(lambda: rm.pixel_scales[0])
        E[kj + ".pixel_scale"] = sy

    _check_container_list(A, E, key, res, "scalar", "Array1D", exp, per_item)
    inp["_tol"] = TOL
    return A, E


def case_project2d(ctx, H, W, scales, angle, remove_centre, fork_mask=True, centre_mode="sym"):
    if fork_mask:
        mask = _sym_mask(ctx, (H, W))
    else:
        mask = np.zeros((H, W), dtype=bool)
        mask[0, 0] = True
    ctx.set_case(mask=mask.tolist())
    oy, ox = V.real("oy"), V.real("ox")
    inputs = {"mask": mask, "origin": [oy, ox], "ftab": []}
    sy, sx = scales
    if centre_mode == "sym":
        cy, cx = V.real("cy"), V.real("cx")
        inputs["centre"] = [cy, cx]
        # bound: profile centre inside the extent of the grid
        for c_ in (cy.t >= oy.t - H * sy / 2.0, cy.t <= oy.t + H * sy / 2.0, cx.t >= ox.t - W * sx / 2.0, cx.t <= ox.t + W * sx / 2.0):
            ctx.assume(c_)
    else:
        for c_ in (oy.t >= -H * sy / 2.0, oy.t <= H * sy / 2.0, ox.t >= -W * sx / 2.0, ox.t <= W * sx / 2.0):
            ctx.assume(c_)
    if angle == "sym":
        inputs["cs"] = _sym_unit(ctx)
    _run(ctx, body_project2d, inputs, {"H": H, "W": W, "scales": scales, "angle": angle, "remove_centre": remove_centre,
                                       "centre_mode": centre_mode}, validate_every=4)


# --------------------------------------------------------------------------- relocate_to_radial_minimum

class _FakeConf:
    """stands in for `autoconf.conf` inside relocate_radial: radial minima per class name are the given values"""

    def __init__(self, minima):
        self.instance = {"grids": {"radial_minimum": {"radial_minimum": dict(minima)}}}


def _radial_grid_from(self, grid):
    g = _coords(grid)
    fnp = shim.FACADE            # user code sees the same numpy facade as the repository modules (passes through natively)
    return fnp.sqrt(np.add(fnp.square(g[:, 0]), fnp.square(g[:, 1])))


def _reloc_obligations(A, E, key, pts, seen, rmin, TOL):
    """spec of the radial minimum for the coordinates `pts` (relative to the profile centre) that became `seen`"""
    n = len(pts)
    ok_shape = isinstance(seen, np.ndarray) and seen.shape == (n, 2)
    A[key + ".seen_shape"] = list(seen.shape) if isinstance(seen, np.ndarray) else None
    E[key + ".seen_shape"] = [n, 2]
    if not ok_shape:
        return
    for k, (y, x) in enumerate(pts):
        yn, xn = seen[k, 0], seen[k, 1]
        r2 = y * y + x * x
        inside = r2 < rmin * rmin
        # closer than the minimum: moved to exactly the minimum ...
        A["%s.%d.radius2" % (key, k)] = yn * yn + xn * xn
        E["%s.%d.radius2" % (key, k)] = _ite(inside, rmin * rmin, r2)
        # ... along its own ray from the centre (same direction) ...
        A["%s.%d.cross" % (key, k)] = yn * x - xn * y
        E["%s.%d.cross" % (key, k)] = 0.0
        A["%s.%d.same_side" % (key, k)] = (yn * y + xn * x) > 0
        E["%s.%d.same_side" % (key, k)] = True
        # ... all other coordinates reach the function unchanged
        A["%s.%d.unchanged" % (key, k)] = [_ite(inside, 0.0, yn - y), _ite(inside, 0.0, xn - x)]
        E["%s.%d.unchanged" % (key, k)] = [0.0, 0.0]


def _make_grid(aa, kind, pts, mask=None):
    if kind == "ndarray":
        return pts.copy()
    if kind == "irregular":
        return aa.Grid2DIrregular(values=pts.copy())
    m2 = aa.Mask2D(mask=mask, pixel_scales=(1.0, 1.0))
    return aa.Grid2D(values=pts.copy(), mask=m2)


def body_relocate(inp, kind, N, mode, H=0, W=0):
    import autoarray as aa
    import sys
    rr_mod = sys.modules["autoarray.structures.decorators.relocate_radial"]
    _ensure_config()
    if kind == "grid2d":
        mask = np.array(inp["mask"], dtype=bool).reshape(H, W)
        n = int((~mask).sum())
    else:
        mask, n = None, N
    p = np.asarray(inp["p"]).reshape(-1, 2)[:n]
    pts = [(p[k, 0], p[k, 1]) for k in range(n)]
    uf = UserFns(inp)
    grid = _make_grid(aa, kind, p, mask)
    if mode == "sym":
        r_a, r_b = inp["rmin"]
    else:
        r_a, r_b = R_BASE, R_CORED
    A, E, TOL = {}, {}, {}
    log = []
    # a base profile and a subclass sharing ONE decorated method, with different configured minima
    Base = _profile("C17Profile", _user(uf, log, "pair"), [aa.grid_dec.relocate_to_radial_minimum], radial_grid_from=_radial_grid_from)
    Cored = type("C17ProfileCored", (Base,), {})
    Other = type("C17ProfileUnconfigured", (Base,), {})
    old = rr_mod.conf
    if mode == "sym":
        rr_mod.conf = _FakeConf({"C17Profile": r_a, "C17ProfileCored": r_b})
    try:
        for step, (cls, rmin) in enumerate(((Base, r_a), (Cored, r_b), (Base, r_a))):
            key = "call%d.%s" % (step, cls.__name__)
            nlog = len(log)
            res = hx.attempt(lambda: cls().fn(grid))
            called = len(log) == nlog + 1
            A[key + ".calls"] = len(log) - nlog
            E[key + ".calls"] = 1
            rec = log[-1] if called else None
            A[key + ".seen_type"] = rec["type"] if rec else None
            E[key + ".seen_type"] = {"ndarray": "ndarray", "irregular": "Grid2DIrregular", "grid2d": "Grid2D"}[kind]
            if kind == "grid2d":
                A[key + ".seen_mask"] = hx.attempt(lambda: np.array(rec["grid"].mask)) if rec else None
                E[key + ".seen_mask"] = mask
            _reloc_obligations(A, E, key, pts, rec["coords"] if rec else None, rmin, TOL)
            # the decorator hands back what the function returned
            A[key + ".returns"] = res if not isinstance(res, hx.Raised) else res
            E[key + ".returns"] = rec["ret"] if rec else None
            # the caller's grid is not modified
            A[key + ".input_untouched"] = _coords(grid)
            E[key + ".input_untouched"] = p
        res = hx.attempt(lambda: Other().fn(grid))
        A["unconfigured_class"] = res if isinstance(res, hx.Raised) else "returned"
        E["unconfigured_class"] = hx.Raised("ConfigException")
    finally:
        rr_mod.conf = old
    inp["_tol"] = TOL
    return A, E


def case_relocate(ctx, kind, N, mode, H=0, W=0):
    inputs = {"ftab": []}
    if kind == "grid2d":
        mask = _sym_mask(ctx, (H, W))
        ctx.set_case(mask=mask.tolist())
        inputs["mask"] = mask
        N = H * W
    inputs["p"] = V.real_array("p", (N, 2))
    if mode == "sym":
        ra, rb = V.real("r_base"), V.real("r_cored")
        ctx.assume(ra.t > 0)
        ctx.assume(rb.t > 0)
        inputs["rmin"] = [ra, rb]
    kw = {"kind": kind, "N": N, "mode": mode}
    if kind == "grid2d":
        kw.update(H=H, W=W)
    _run(ctx, body_relocate, inputs, kw, validate_every=1, known=_known_regions(inputs, "relocate"))


def body_relocate_centre(inp, kind, rcls):
    """a coordinate exactly at the profile centre (concrete (0,0)) next to a symbolic one; real autoconf lookup"""
    import autoarray as aa
    _ensure_config()
    q = np.asarray(inp["q"]).reshape(1, 2)
    sym = _is_sym()
    p = np.empty((2, 2), dtype=object if sym else float)
    p[0, 0], p[0, 1] = np.float64(0.0), np.float64(0.0)
    p[1, 0], p[1, 1] = q[0, 0], q[0, 1]
    uf = UserFns(inp)
    mask = np.array([[False, False]])
    grid = _make_grid(aa, kind, p, mask)
    log = []
    Base = _profile("C17Profile", _user(uf, log, "pair"), [aa.grid_dec.relocate_to_radial_minimum], radial_grid_from=_radial_grid_from)
    Cored = type("C17ProfileCored", (Base,), {})
    cls, rmin = (Base, R_BASE) if rcls == "base" else (Cored, R_CORED)
    A, E = {}, {}
    res = hx.attempt(lambda: cls().fn(grid))
    A["calls"] = len(log)
    E["calls"] = 1
    seen = log[-1]["coords"] if log else None
    if isinstance(seen, np.ndarray) and seen.shape == (2, 2):
        # the centre point must arrive at exactly the minimum radius (any direction). It is a concrete corner: the engine's
        # 'divisor != 0' domain constraint excludes r = 0 from the symbolic cases, so this obligation has no solver variable
        # of its own (the neighbour in the same grid is symbolic) - stated in OUTSIDE.
        A["centre_point.radius2"] = seen[0, 0] * seen[0, 0] + seen[0, 1] * seen[0, 1]
        E["centre_point.radius2"] = rmin * rmin
        TOL = {"centre_point.radius2": 1e-9}
        _reloc_obligations(A, E, "neighbour", [(q[0, 0], q[0, 1])], seen[1:2], rmin, TOL)
        inp["_tol"] = TOL
    else:
        A["seen_shape"] = None
        E["seen_shape"] = [2, 2]
    A["returns"] = res
    E["returns"] = log[-1]["ret"] if log else None
    return A, E


def case_relocate_centre(ctx, kind, rcls):
    inputs = {"q": V.real_array("q", (1, 2)), "ftab": []}
    _run(ctx, body_relocate_centre, inputs, {"kind": kind, "rcls": rcls}, validate_every=1,
         known=_known_regions(inputs, "centre"))


def _known_regions(inputs, which):
    ids = [i for i in os.environ.get("VERIF_KNOWN", "").split(",") if i]
    out = {}
    if which == "centre" and "radial-minimum-centre-point" in ids:
        out["centre_point.radius2"] = {"radial-minimum-centre-point": z3.BoolVal(True)}
    return out or None


# --------------------------------------------------------------------------- the decorator stack of real profiles

def body_stack(inp, kind, N, rot, H=0, W=0, outer_dec="to_array"):
    """to_array(transform(relocate_to_radial_minimum(f))) - the stack used by light/mass profiles"""
    import autoarray as aa
    import sys
    from autoarray.geometry import geometry_util
    rr_mod = sys.modules["autoarray.structures.decorators.relocate_radial"]
    _ensure_config()
    if kind == "grid2d":
        mask = np.array(inp["mask"], dtype=bool).reshape(H, W)
        n = int((~mask).sum())
    else:
        mask, n = None, N
    p = np.asarray(inp["p"]).reshape(-1, 2)[:n]
    cy, cx = inp["centre"]
    rmin = inp["rmin"][0]
    uf = UserFns(inp)
    grid = _make_grid(aa, kind, p, mask)
    A, E, TOL = {}, {}, {}
    log = []
    tlog = []

    def transformed(self, grid, **kwargs):
        tlog.append(dict(kwargs))
        g = _coords(grid)
        if rot is None:
            out = g - np.array([cy, cx], dtype=g.dtype)
        else:
            out = geometry_util.transform_grid_2d_to_reference_frame(grid_2d=g, centre=(cy, cx), angle=rot)
        if hasattr(grid, "with_new_array"):
            return grid.with_new_array(out)
        return out

    # the outermost structure decorator of the stack: to_array (1D values), to_grid / to_vector_yx ((y,x) pairs)
    ukind = "scalar" if outer_dec == "to_array" else "pair"
    odec = getattr(aa.grid_dec, outer_dec)
    ocls = {"to_array": ("Array2D", "ArrayIrregular"), "to_grid": ("Grid2D", "Grid2DIrregular"),
            "to_vector_yx": ("VectorYX2D", "VectorYX2DIrregular")}[outer_dec][0 if kind == "grid2d" else 1]
    P = _profile("C17Profile", _user(uf, log, ukind),
                 [odec, aa.grid_dec.transform, aa.grid_dec.relocate_to_radial_minimum],
                 radial_grid_from=_radial_grid_from, transformed_to_reference_frame_grid_from=transformed, centre=(cy, cx))
    # nested profile (the way light / mass profiles are written): a `to_array(transform(.))` method whose body calls a second
    # `transform(relocate(.))` method of the same object, handing its **kwargs on
    inner = aa.grid_dec.transform(aa.grid_dec.relocate_to_radial_minimum(_user(uf, log, ukind)))

    def outer(self, grid, **kwargs):
        return self.inner(grid, **kwargs)

    PN = type("C17Profile", (object,), {"inner": inner, "fn": odec(aa.grid_dec.transform(outer)),
                                         "radial_grid_from": _radial_grid_from, "transformed_to_reference_frame_grid_from": transformed,
                                         "centre": (cy, cx)})
    old = rr_mod.conf
    rr_mod.conf = _FakeConf({"C17Profile": rmin})
    try:
        if rot is None:
            rel = [(p[k, 0] - cy, p[k, 1] - cx) for k in range(n)]
        else:
            c, s = math.cos(float(np.radians(rot))), math.sin(float(np.radians(rot)))
            rel = [((p[k, 0] - cy) * c - (p[k, 1] - cx) * s, (p[k, 1] - cx) * c + (p[k, 0] - cy) * s) for k in range(n)]
        asis = [(p[k, 0], p[k, 1]) for k in range(n)]
        for tag, cls_, kwargs, pts in (("fresh", P, {}, rel), ("already_transformed", P, {"is_transformed": True}, asis),
                                       ("explicit_false", P, {"is_transformed": False}, rel),
                                       ("nested.fresh", PN, {}, rel), ("nested.explicit_false", PN, {"is_transformed": False}, rel),
                                       ("nested.already_transformed", PN, {"is_transformed": True}, asis)):
            nlog, ntlog = len(log), len(tlog)
            res = hx.attempt(lambda: cls_().fn(grid, **kwargs))
            rec = log[-1] if len(log) == nlog + 1 else None
            A[tag + ".calls"] = len(log) - nlog
            E[tag + ".calls"] = 1
            A[tag + ".transform_calls"] = len(tlog) - ntlog
            E[tag + ".transform_calls"] = 0 if tag.endswith("already_transformed") else 1      # exactly once, also when nested
            A[tag + ".is_transformed_flag"] = bool(rec["kwargs"].get("is_transformed")) if rec else None
            E[tag + ".is_transformed_flag"] = True
            A[tag + ".seen_type"] = rec["type"] if rec else None
            E[tag + ".seen_type"] = {"irregular": "Grid2DIrregular", "grid2d": "Grid2D"}[kind]
            A[tag + ".input_untouched"] = _coords(grid)
            E[tag + ".input_untouched"] = p
            # (with a rotation the reference uses the same float64 cos/sin as geometry_util, so the relation is exact in real arithmetic)
            _reloc_obligations(A, E, tag, pts, rec["coords"] if rec else None, rmin, TOL)
            exp_ret = [rec["ret"]] if rec else [None]

            def per_item(kj, r):
                if kind == "grid2d":
                    A[kj + ".mask"] = hx.attempt(lambda: np.array(r.mask))
                    E[kj + ".mask"] = mask

            _check_container_list(A, E, tag, res, ukind, ocls, exp_ret, per_item)
    finally:
        rr_mod.conf = old
    inp["_tol"] = TOL
    return A, E


def case_stack(ctx, kind, N, rot=None, H=0, W=0, outer_dec="to_array"):
    inputs = {"ftab": []}
    if kind == "grid2d":
        mask = _sym_mask(ctx, (H, W))
        ctx.set_case(mask=mask.tolist())
        inputs["mask"] = mask
        N = H * W
    inputs["p"] = V.real_array("p", (N, 2))
    inputs["centre"] = [V.real("cy"), V.real("cx")]
    r = V.real("r_min")
    ctx.assume(r.t > 0)
    inputs["rmin"] = [r]
    kw = {"kind": kind, "N": N, "rot": rot, "outer_dec": outer_dec}
    if kind == "grid2d":
        kw.update(H=H, W=W)
    _run(ctx, body_stack, inputs, kw, validate_every=1)


# --------------------------------------------------------------------------- histories: several grids on ONE mask geometry

def body_history(inp, family, N, origin_mode="conc"):
    """two different grids that share the mask geometry (same bits, pixel scales, origin) but hold different coordinates are
    passed, one after the other (A, B, A), through the same decorated methods in one process: entry k of every call must
    belong to coordinate k of THAT call's grid"""
    import autoarray as aa
    _ensure_config()
    uf = UserFns(inp)
    A, E = {}, {}
    zero = np.float64(0.0)
    if family == "grid1d":
        mask = np.array(inp["mask"], dtype=bool).reshape(N)
        n = int((~mask).sum())
        o = inp["origin"][0] if origin_mode == "sym" else 0.25
        xs = [np.asarray(inp["xa"]).reshape(-1)[:n], np.asarray(inp["xb"]).reshape(-1)[:n]]
        # separate but equal mask objects, like Grid1D.no_mask(...) after Grid1D.uniform_from_zero(...)
        grids = [aa.Grid1D(values=x.copy(), mask=aa.Mask1D(mask=mask.copy(), pixel_scales=(0.5,), origin=(o,))) for x in xs]
        refs = [[(zero, x[k]) for k in range(n)] for x in xs]
        seen_type = "Grid2DIrregular"
        decs = (("to_array", "scalar", "Array1D"), ("to_grid", "pair", "Grid2D"), ("to_vector_yx", "pair", None),
                ("to_array", "list_scalar", "Array1D"), ("project_grid", "scalar", "Array1D"))
    elif family == "grid2d":
        H, W = N
        mask = np.array(inp["mask"], dtype=bool).reshape(H, W)
        n = int((~mask).sum())
        oy, ox = inp["origin"] if origin_mode == "sym" else (0.25, -0.5)
        gs = [np.asarray(inp["xa"]).reshape(-1, 2)[:n], np.asarray(inp["xb"]).reshape(-1, 2)[:n]]
        grids = [aa.Grid2D(values=g.copy(), mask=aa.Mask2D(mask=mask.copy(), pixel_scales=(1.0, 1.0), origin=(oy, ox))) for g in gs]
        refs = [[(g[k, 0], g[k, 1]) for k in range(n)] for g in gs]
        seen_type = "Grid2D"
        decs = (("to_array", "scalar", "Array2D"), ("to_grid", "pair", "Grid2D"), ("to_vector_yx", "pair", "VectorYX2D"),
                ("to_grid", "list_pair", "Grid2D"))
    else:
        n = N
        gs = [np.asarray(inp["xa"]).reshape(-1, 2)[:n], np.asarray(inp["xb"]).reshape(-1, 2)[:n]]
        grids = [aa.Grid2DIrregular(values=g.copy()) for g in gs]
        refs = [[(g[k, 0], g[k, 1]) for k in range(n)] for g in gs]
        seen_type = "Grid2DIrregular"
        decs = (("to_array", "scalar", "ArrayIrregular"), ("to_grid", "pair", "Grid2DIrregular"), ("to_vector_yx", "pair", "VectorYX2DIrregular"),
                ("project_grid", "scalar", "ArrayIrregular"))
    for dec, kind, cls in decs:
        log = []
        # profile without an angle: project_grid then projects along the +x axis itself, like the other decorators
        P = _profile("C17Profile", _user(uf, log, kind), [getattr(aa.grid_dec, dec)], centre=(0.0, 0.0))
        prof = P()
        for step, which in enumerate((0, 1, 0)):
            key = "%s.%s.call%d_grid%s" % (dec, kind, step, "AB"[which])
            ref = refs[which]
            nlog = len(log)
            res = hx.attempt(lambda: prof.fn(grids[which]))
            rec = log[-1] if len(log) == nlog + 1 else None
            A[key + ".calls"] = len(log) - nlog
            E[key + ".calls"] = 1
            A[key + ".seen_type"] = rec["type"] if rec else None
            E[key + ".seen_type"] = seen_type
            A[key + ".seen"] = rec["coords"] if rec else None
            E[key + ".seen"] = _pairs(_arr([r[0] for r in ref]), _arr([r[1] for r in ref]))
            A[key + ".input_untouched"] = _coords(grids[which])
            E[key + ".input_untouched"] = _arr([r[1] for r in ref]) if family == "grid1d" else E[key + ".seen"]
            if cls is None:
                # to_vector_yx has no 1D container: the function is still evaluated on this grid's projected line, then it raises
                A[key + ".raises"] = res if isinstance(res, hx.Raised) else "returned"
                E[key + ".raises"] = hx.Raised("NotImplementedError")
                continue
            if dec == "project_grid":
                exp = [rec["ret"]] if rec else [None]
            else:
                exp = uf.ret(kind, ref)
                exp = exp if isinstance(exp, list) else [exp]

            def per_item(kj, r, dec=dec):
                if family == "grid1d" and dec == "to_array":
                    A[kj + ".mask"] = hx.attempt(lambda: np.array(r.mask))
                    E[kj + ".mask"] = mask
                if family == "grid2d":
                    A[kj + ".mask"] = hx.attempt(lambda: np.array(r.mask))
                    E[kj + ".mask"] = mask
                if dec == "to_vector_yx":
                    A[kj + ".grid"] = hx.attempt(lambda: _coords(r.grid))
                    E[kj + ".grid"] = E[key + ".seen"]

            _check_container_list(A, E, key, res, kind, cls, exp, per_item)
    return A, E


def case_history(ctx, family, N, origin_mode="conc"):
    inputs = {"ftab": []}
    if family == "grid1d":
        mask = _sym_mask(ctx, (N,))
        ctx.set_case(mask=mask.tolist())
        inputs.update(mask=mask, origin=[V.real("o")], xa=V.real_array("xa", (N,)), xb=V.real_array("xb", (N,)))
    elif family == "grid2d":
        H, W = N
        mask = _sym_mask(ctx, (H, W))
        ctx.set_case(mask=mask.tolist())
        inputs.update(mask=mask, origin=[V.real("oy"), V.real("ox")], xa=V.real_array("xa", (H * W, 2)), xb=V.real_array("xb", (H * W, 2)))
    else:
        inputs.update(xa=V.real_array("xa", (N, 2)), xb=V.real_array("xb", (N, 2)))
    _run(ctx, body_history, inputs, {"family": family, "N": N, "origin_mode": origin_mode}, validate_every=4)


# --------------------------------------------------------------------------- registry of cases

BODIES = {"case_grid2d": body_grid2d, "case_irregular": body_irregular, "case_grid1d": body_grid1d,
          "case_project2d": body_project2d, "case_relocate": body_relocate, "case_relocate_centre": body_relocate_centre,
          "case_stack": body_stack, "case_history": body_history}


def cases(tier):
    quick = tier == "quick"
    out = []
    cap2d = 6 if quick else 9
    for H in range(1, 4):
        for W in range(1, 4):
            if H * W <= cap2d:
                out.append(("case_grid2d", {"H": H, "W": W, "variant": "free", "scales": [1.0, 1.0]}))
                out.append(("case_grid2d", {"H": H, "W": W, "variant": "from_mask", "scales": [2.0, 0.5]}))
    for N in range(1, (4 if quick else 5) + 1):
        out.append(("case_irregular", {"N": N}))
    angles = [0.0, 30.0, 120.0, -100.0] if quick else [0.0, 30.0, 45.0, 90.0, 120.0, 170.0, -100.0, 200.0, -60.0]
    for N in range(1, (4 if quick else 5) + 1):
        out.append(("case_grid1d", {"N": N, "variant": "free", "angle": "sym"}))
        out.append(("case_grid1d", {"N": N, "variant": "from_mask", "angle": angles[N % len(angles)]}))
    for a in angles + ["absent", None]:
        out.append(("case_grid1d", {"N": 3, "variant": "free", "angle": a}))
    # project_grid on Grid2D
    shapes = [(2, 2), (2, 3)] if quick else [(2, 2), (2, 3), (3, 2), (3, 3)]
    for (H, W) in shapes:
        for scales in ([1.0, 1.0], [0.5, 0.5]):
            for rc in (False, True):
                out.append(("case_project2d", {"H": H, "W": W, "scales": scales, "angle": "sym", "remove_centre": rc,
                                               "fork_mask": H * W <= (4 if quick else 6)}, NRA))
    for a in angles:
        out.append(("case_project2d", {"H": 2, "W": 3, "scales": [1.0, 1.0], "angle": a, "remove_centre": False, "fork_mask": False}, NRA))
    for cm in ("absent", None):
        out.append(("case_project2d", {"H": 2, "W": 2, "scales": [1.0, 1.0], "angle": "absent" if cm == "absent" else None,
                                       "remove_centre": False, "fork_mask": False, "centre_mode": cm}, NRA))
    # radial minimum
    nmax = 3 if quick else 4
    for mode in ("sym", "conf"):
        for kind in ("ndarray", "irregular"):
            for N in range(1, nmax + 1):
                out.append(("case_relocate", {"kind": kind, "N": N, "mode": mode}, NRA))
        out.append(("case_relocate", {"kind": "grid2d", "N": 0, "mode": mode, "H": 1 if quick else 2, "W": 2}, NRA))
    for kind in ("ndarray", "irregular", "grid2d"):
        for rcls in ("base", "cored"):
            out.append(("case_relocate_centre", {"kind": kind, "rcls": rcls}, NRA))
    # decorator stack
    for N in range(1, (2 if quick else 3) + 1):
        out.append(("case_stack", {"kind": "irregular", "N": N, "rot": None}, NRA))
    out.append(("case_stack", {"kind": "grid2d", "N": 0, "rot": None, "H": 1 if quick else 2, "W": 2}, NRA if quick else dict(NRA, split=4)))
    for od in ("to_grid", "to_vector_yx"):
        out.append(("case_stack", {"kind": "irregular", "N": 1, "rot": None, "outer_dec": od}, NRA))
        out.append(("case_stack", {"kind": "irregular", "N": 2, "rot": None, "outer_dec": od}, NRA))
        out.append(("case_stack", {"kind": "grid2d", "N": 0, "rot": None, "H": 1, "W": 2, "outer_dec": od}, NRA))
    # subclass inputs: the library's Grid2DIrregularUniform and trivial user subclasses of the three grid types
    for N in range(1, (3 if quick else 5) + 1):
        out.append(("case_irregular", {"N": N, "sub": "lib"}))
        out.append(("case_irregular", {"N": N, "sub": "user"}))
        out.append(("case_grid1d", {"N": N, "variant": "free", "angle": "sym", "sub": "user"}))
    out.append(("case_grid1d", {"N": 3, "variant": "from_mask", "angle": 30.0, "sub": "user"}))
    for (H, W) in ([(1, 1), (1, 2), (2, 2)] if quick else [(1, 1), (1, 2), (2, 1), (2, 2), (2, 3), (3, 2)]):
        out.append(("case_grid2d", {"H": H, "W": W, "variant": "free", "scales": [1.0, 1.0], "sub": "user"}))
        out.append(("case_grid2d", {"H": H, "W": W, "variant": "from_mask", "scales": [2.0, 0.5], "sub": "user"}))
    # histories (A, B, A) of different grids on one mask geometry
    for N in range(1, (3 if quick else 4) + 1):
        out.append(("case_history", {"family": "grid1d", "N": N, "origin_mode": "conc"}))
        out.append(("case_history", {"family": "irregular", "N": N}))
    out.append(("case_history", {"family": "grid1d", "N": 2, "origin_mode": "sym"}))
    for (H, W) in ([(1, 2), (2, 2)] if quick else [(1, 2), (2, 2), (2, 3)]):
        out.append(("case_history", {"family": "grid2d", "N": [H, W], "origin_mode": "conc"}))
    out.append(("case_history", {"family": "grid2d", "N": [1, 2], "origin_mode": "sym"}))
    # long cases first (the pool takes tasks in list order)
    rank = {"case_stack": 0, "case_relocate": 1, "case_project2d": 2, "case_grid2d": 3}
    out.sort(key=lambda c: (rank.get(c[0], 9), -(c[1].get("H", 1) * c[1].get("W", 1) + (c[1].get("N", 0) if isinstance(c[1].get("N", 0), int) else 4))))
    return out


NRA = {"logic": "QF_NRA", "timeout_ms": 20000}


def replay(cand):
    body = BODIES[cand["case_fn"]]
    inp = hx.to_float_struct(cand["case"])

    # tolerance-aware replay: bodies publish per-key tolerances in inp['_tol']
    actual, expected = body(inp, **cand["case_kwargs"])
    tol = inp.get("_tol") or {}
    only = cand.get("obligation") if cand.get("obligation") in expected else None     # reproduce the reported obligation
    bad = []
    for k in expected:
        if only is not None and k != only:
            continue
        if k not in actual or not hx.concrete_equal(actual[k], expected[k], max(1e-7, tol.get(k, 0.0))):
            bad.append(k)
    if bad:
        k = cand["obligation"] if cand["obligation"] in bad else bad[0]
        return True, "outputs differ from the reference on the real code: %s; e.g. %s: actual=%s expected=%s" % (
            bad[:12], k, hx._short(actual.get(k)), hx._short(expected[k]))
    return False, "real code agrees with the reference on this input (%d outputs)" % len(expected)
