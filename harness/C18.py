"""C18 - border relocation only pulls outliers radially inward to the border; sub-border indices pick the farthest sub-pixel."""
import os
from fractions import Fraction as F

import numpy as np
import z3

from symx import hx, shim, values as V

PROPERTY = "C18"
FUNCTIONS = [
    "autoarray.structures.grids.grid_2d_util.relocated_grid_via_jit_from",
    "autoarray.structures.grids.grid_2d_util.furthest_grid_2d_slim_index_from",
    "autoarray.structures.grids.grid_2d_util.grid_2d_centre_from",
    "autoarray.inversion.pixelization.border_relocator.sub_slim_indexes_for_slim_index_via_mask_2d_from",
    "autoarray.inversion.pixelization.border_relocator.sub_border_pixel_slim_indexes_from",
    "autoarray.inversion.pixelization.border_relocator.BorderRelocator.sub_border_slim",
    "autoarray.inversion.pixelization.border_relocator.BorderRelocator.sub_grid",
    "autoarray.inversion.pixelization.border_relocator.BorderRelocator.sub_border_grid",
    "autoarray.inversion.pixelization.border_relocator.BorderRelocator.relocated_grid_from",
    "autoarray.inversion.pixelization.border_relocator.BorderRelocator.relocated_mesh_grid_from",
    "autoarray.inversion.pixelization.mesh.abstract.AbstractMesh.relocated_grid_from",
    "autoarray.inversion.pixelization.mesh.abstract.AbstractMesh.relocated_mesh_grid_from",
    "autoarray.inversion.pixelization.mesh.rectangular.Rectangular.mapper_grids_from",
    "autoarray.inversion.pixelization.mesh.triangulation.Triangulation.mapper_grids_from",
    "autoarray.operators.over_sampling.over_sample_util.grid_2d_slim_over_sampled_via_mask_from",
    "autoarray.operators.over_sampling.over_sample_util.slim_index_for_sub_slim_index_via_mask_2d_from",
]

# ---------------------------------------------------------------------------- border point sets of the kernel cases
# offsets from the centroid (they sum to zero, so the centroid is exactly the stated centre); "exact" sets have exactly
# representable radii (axis points / Pythagorean triples), so float sqrt is exact and no tolerance or margin is needed:
# points exactly at the border / exactly at the minimum radius are inside the claim for them.
BORDERS = {
    "single": ([(0, 0)], True),
    "pair": ([(0, 2), (0, -2)], True),
    "tri": ([(3, 4), (-3, 4), (0, -8)], True),
    "ellipse4": ([(0, 6), (0, -6), (2.5, 0), (-2.5, 0)], True),
    "circle8": ([(5, 0), (-5, 0), (0, 5), (0, -5), (3, 4), (-3, -4), (4, -3), (-4, 3)], True),
    "star8": ([(10, 0), (-10, 0), (0, 10), (0, -10), (3, 4), (-3, -4), (4, -3), (-4, 3)], True),      # non-convex
    "lopsided5": ([(8, 6), (-8, 6), (0, -2.5), (0, -4.5), (0, -5)], True),                             # non-convex, asymmetric
    "dup3": ([(0, 5), (0, 5), (0, -10)], True),                                                        # duplicate border point
    "irr_tri": ([(1, 1), (-2, 0.5), (1, -1.5)], False),
    "irr_quad": ([(2, 1), (-1, 3), (-2, -1), (1, -3)], False),
    "irr_nonconvex6": ([(4, 0), (0.5, 0.5), (0, 4), (-4, 0), (-0.25, -0.25), (-0.25, -4.25)], False),
}
CENTRE = (1.5, -2.25)

BOUNDS = {
    "quick": "relocation kernel: relocated points symbolic reals (1 point per call; 2 points for four of the borders), border = the 11 listed concrete point sets "
             "(1-8 points: convex, non-convex, asymmetric, duplicate point, degenerate 1/2-point borders; centroid off the origin; each at scale 1 and 1/16 so that "
             "minimum radii below and above 1 occur). Sub-border indices: all masks (>=1 unmasked pixel) of every shape with <= 9 pixels, uniform sub-size 1..3 "
             "(int, ndarray and Array2D forms), 3x4 with sub-size 2, every sub-size map over {1,2,3} for shapes with <= 4 pixels and over {1,2} for 2x3/3x2; pixel scales (>0) "
             "and origin of the sub-border grid symbolic reals. BorderRelocator / Rectangular / Delaunay entry points: all masks of shapes with <= 4 pixels plus a 5x5 annulus "
             "and a 3x4 L-shape, sub-size 1 and 2; one symbolic data-grid point or one symbolic mesh vertex per run, the other data-grid points concrete; the source-plane "
             "border (the data grid at the sub-border indices) is a concrete exact-radius point set of the right size; call histories on ONE relocator "
             "(grid(A) then mesh(B); grid(A) then Delaunay mapper grids on B with preloads.relocated_grid; mesh(A), grid(B), grid(A), grid(B), mesh(B)) with two "
             "source planes of different borders, every call checked against the border of the grid passed to it: all masks of shapes <= 3 pixels, 2x2, the L-shape",
    "thorough": "kernel: scales 1, 1/16, 1/4, 4; 2 symbolic points for six borders, 3 for two; sub-border indices: uniform sub-size 1..4 for shapes with <= 9 pixels, "
                "sub-size 2..3 for 3x4, 4x3; all sub-size maps over {1,2,3} for shapes with <= 6 pixels and over {1,2} for 2x4; classes: all masks of shapes "
                "with <= 6 pixels except 1x6/6x1 (sub-size 1..3 up to 4 pixels, 2 above), three named larger masks; call histories: shapes <= 4 pixels, 2x3, 3x2, L-shape, annulus",
}
OUTSIDE = [
    "symbolic border points (nested sqrt / symbolic mean / argmin: the solver does not return) - borders are the listed concrete sets and the real borders of the small masks",
    "for border sets with irrational radii (irr_* sets, mask borders): points whose squared radius is within a relative 1e-9 of the squared minimum border radius "
    "(the 'unchanged' / 'relocated' clauses are not claimed inside that band; the ray / inward / max-radius clauses are claimed everywhere)",
    "masks larger than the stated shapes; sub-sizes above 4; more than 3 relocated points per call (points are processed independently by the kernel loop)",
    "preloads.relocated_grid as the data grid itself (a stored grid is returned as is; only the mesh relocation against its border is checked)",
    "histories on one relocator longer than the listed two-to-five call sequences",
    "which pixels are border pixels (property C10): the border pixel list is taken from mask_2d_util.border_slim_indexes_from",
]
STUBS = ["scipy.spatial.Delaunay is never reached (Mesh2DDelaunay is constructed lazily; only the relocated grids of MapperGrids are read)"]
ASSUMPTIONS = [
    "equalities of obligations over border sets with irrational radii carry a relative tolerance of 1e-9 (concrete float sqrt); obligations over the exact-radius sets are exact",
    "ties between nearest border points: any nearest border point is accepted; ties between farthest sub-pixels: any farthest sub-pixel is accepted",
    "mask bits / sub-size maps explored by forking; relocated coordinates, mesh vertices, pixel scales and origin are solver variables",
]
EXPLORER_OPTS = {"timeout_ms": 15000, "max_paths": 200000}
BUDGET_S = {"quick": 600, "thorough": 2300}

TOL = 1e-9


def POST_INSTALL():
    """np.unique for the facade (numpy refuses axis= on object arrays): all-concrete object arrays are normalised to float64
    and handed to numpy; rows holding proxies are ordered lexicographically by forking comparisons."""
    import functools

    def unique(self, ar, return_index=False, return_inverse=False, return_counts=False, axis=None, **kw):
        a = shim.normalise(hx.unwrap(ar))
        if not (isinstance(a, np.ndarray) and a.dtype == object):
            return np.unique(a, return_index=return_index, return_inverse=return_inverse, return_counts=return_counts, axis=axis, **kw)
        if axis not in (None, 0) or return_counts or (axis is None and a.ndim != 1):
            raise V.Unsupported("np.unique on proxies: only 1-D or axis=0")
        rows = [tuple(np.atleast_1d(a[i]).tolist()) for i in range(a.shape[0])]

        def cmp(i, j):
            for x, y in zip(rows[i], rows[j]):
                if bool(x < y):
                    return -1
                if bool(y < x):
                    return 1
            return i - j

        order = sorted(range(len(rows)), key=functools.cmp_to_key(cmp))
        firsts, inverse = [], [0] * len(rows)
        for i in order:
            if firsts and all(not bool(x < y) and not bool(y < x) for x, y in zip(rows[firsts[-1]], rows[i])):
                inverse[i] = len(firsts) - 1
                continue
            firsts.append(i)
            inverse[i] = len(firsts) - 1
        out = [a[firsts]]
        if return_index:
            out.append(np.array(firsts, dtype=int))
        if return_inverse:
            out.append(np.array(inverse, dtype=int))
        return out[0] if len(out) == 1 else tuple(out)

    setattr(shim.NPFacade, "unique", unique)


# ---------------------------------------------------------------------------- three-valued logic helpers (proxies or python bools)

def _py(x):
    if isinstance(x, np.generic):
        return x.item()
    return x


def AND(*xs):
    r = True
    for x in xs:
        x = _py(x)
        if isinstance(x, bool):
            if not x:
                return False
            continue
        r = x if r is True else (r & x)
    return r


def OR(*xs):
    r = False
    for x in xs:
        x = _py(x)
        if isinstance(x, bool):
            if x:
                return True
            continue
        r = x if r is False else (r | x)
    return r


def NOT(x):
    x = _py(x)
    return (not x) if isinstance(x, bool) else ~x


def IMPL(a, b):
    return OR(NOT(a), b)


def EQ(a, b, tol):
    if tol == 0:
        return a == b
    d = a - b
    bound = tol * (1 + abs(b))
    return AND(d <= bound, -d <= bound)


def ITE(c, a, b):
    c = _py(c)
    if isinstance(c, bool):
        return a if c else b
    return shim._ite(c, a, b)


def border_array(name, scale):
    offs, exact = BORDERS[name]
    B = np.array(offs, dtype=float) * float(scale) + np.array(CENTRE, dtype=float)
    return B, exact


def relocation_obligations(A, E, tag, P, O, B, exact, sym):
    """the C18 clauses for every point: P inputs (N,2), O outputs of the real code, B concrete border points (K,2).
    Written with plain arithmetic on squared radii (no sqrt), independent of the implementation."""
    P = np.asarray(hx.unwrap(P))
    N = P.shape[0]
    if isinstance(O, hx.Raised):
        A[tag + "no_exception"], E[tag + "no_exception"] = repr(O), "ok"
        return
    O = np.asarray(hx.unwrap(O))
    A[tag + "count"], E[tag + "count"] = list(O.shape), [N, 2]
    if list(O.shape) != [N, 2]:
        return
    B = np.asarray(B, dtype=float)
    K = B.shape[0]
    cy, cx = float(np.sum(B[:, 0]) / K), float(np.sum(B[:, 1]) / K)
    r2 = [float((B[j, 0] - cy) ** 2 + (B[j, 1] - cx) ** 2) for j in range(K)]
    rmin2, rmax2 = min(r2), max(r2)
    bad_concrete = []
    for i in range(N):
        py_, px_, oy, ox = _py(P[i, 0]), _py(P[i, 1]), _py(O[i, 0]), _py(O[i, 1])
        concrete_in = not (V.is_sym(py_) or V.is_sym(px_))
        tol = 0.0 if (exact and not concrete_in) else TOL          # radius equalities / band around the minimum radius
        if concrete_in:
            py_, px_ = float(py_), float(px_)
        if not (V.is_sym(oy) or V.is_sym(ox)):
            oy, ox = float(oy), float(ox)
        elif concrete_in and sym:
            bad_concrete.append(i)      # a concrete input must not produce a symbolic output (cross-talk between points)
            continue
        dy, dx = py_ - cy, px_ - cx
        ey, ex = oy - cy, ox - cx
        R2 = dy * dy + dx * dx
        E2 = ey * ey + ex * ex
        unchanged = AND(oy == py_, ox == px_)
        key = "%sp%d." % (tag, i)
        # 1. not beyond the smallest border radius: bit-for-bit unchanged
        A[key + "interior_unchanged"] = IMPL(R2 <= rmin2 * (1 - tol), unchanged)
        # 2. on the ray from the centroid through the input, never outward
        cross = ey * dx - ex * dy
        dot = ey * dy + ex * dx
        if tol == 0.0:
            ray = AND(cross == 0, dot >= 0, E2 <= R2)
        else:
            slack = tol * (1 + R2)
            ray = AND(cross <= slack, -cross <= slack, dot >= -slack, E2 <= R2 * (1 + tol) + tol)
        A[key + "on_ray_not_outward"] = ray
        # 3. beyond the smallest border radius: radius becomes that of a nearest border point when that is smaller, else it is kept
        m = [(py_ - float(B[j, 0])) * (py_ - float(B[j, 0])) + (px_ - float(B[j, 1])) * (px_ - float(B[j, 1])) for j in range(K)]
        alts = []
        for j in range(K):
            nearest = AND(*[m[j] <= m[k] * (1 + tol) + tol for k in range(K) if k != j])
            smaller = r2[j] < R2
            alts.append(AND(nearest, IMPL(smaller, EQ(E2, r2[j], tol)), IMPL(NOT(smaller), EQ(E2, R2, tol))))
        A[key + "radius_of_nearest_border_point"] = IMPL(R2 > rmin2 * (1 + tol), OR(*alts))
        # 4. never beyond the farthest border point
        A[key + "within_max_border_radius"] = (E2 <= rmax2 * (1 + tol) + tol) if tol else (E2 <= rmax2)
        names = ("interior_unchanged", "on_ray_not_outward", "radius_of_nearest_border_point", "within_max_border_radius")
        if concrete_in and sym:
            # concrete companion points of a symbolic run (class level): plain evaluation, reported as one aggregate entry
            if not all(A.pop(key + k) is True for k in names):
                bad_concrete.append(i)
            continue
        for k in names:
            E[key + k] = True
        # validation-only output (not an obligation): the relocated coordinates, blanked where the nearest border point is ambiguous
        ambiguous = False
        vt = TOL
        for j in range(K):
            for k in range(j + 1, K):
                if r2[j] != r2[k]:
                    nj = AND(*[m[j] <= m[l] * (1 + vt) + vt for l in range(K)])
                    nk = AND(*[m[k] <= m[l] * (1 + vt) + vt for l in range(K)])
                    ambiguous = OR(ambiguous, AND(nj, nk))
        A[key + "out"] = [ITE(ambiguous, 0.0, oy), ITE(ambiguous, 0.0, ox)]
    if sym and N > sum(1 for k in E if k.startswith(tag + "p") and k.endswith(".interior_unchanged")):
        A[tag + "concrete_companion_points"], E[tag + "concrete_companion_points"] = bad_concrete, []
    elif not sym:
        A[tag + "concrete_companion_points"] = []


# ---------------------------------------------------------------------------- kernel level

def body_kernel(inp, border, scale, N):
    from autoarray.structures.grids import grid_2d_util
    B, exact = border_array(border, scale)
    grid = np.asarray(inp["grid"]).reshape(N, 2)
    sym = shim.has_sym(grid)
    if not sym:
        grid = grid.astype(float)
    A, E = {}, {}
    out = hx.attempt(grid_2d_util.relocated_grid_via_jit_from, grid=grid, border_grid=B.copy())
    relocation_obligations(A, E, "", grid, out, B, exact, sym)
    return A, E


def case_kernel(ctx, border, scale, N):
    g = V.real_array("p", (N, 2))
    ctx.set_case(border=border, scale=scale)
    hx.run_body(ctx, body_kernel, {"grid": g}, {"border": border, "scale": scale, "N": N}, validate_every=3)


# ---------------------------------------------------------------------------- sub-border indices

def ref_sub_pixels(mask, sub):
    """independent description of the sub-pixels of a mask: for every unmasked pixel k (row-major) the list of
    (sub-slim index, Y, X) with (Y, X) the sub-pixel centre in pixel units (row / column coordinates, exact fractions),
    and the centre of the bounding box of the unmasked region"""
    H, W = mask.shape
    pos = [(y, x) for y in range(H) for x in range(W) if not mask[y, x]]
    cy = F(min(p[0] for p in pos) + max(p[0] for p in pos), 2)
    cx = F(min(p[1] for p in pos) + max(p[1] for p in pos), 2)
    subs, t = [], 0
    for (y, x), s in zip(pos, sub):
        s = int(s)
        cell = []
        for y1 in range(s):
            for x1 in range(s):
                cell.append((t, F(y) - F(1, 2) + F(2 * y1 + 1, 2 * s), F(x) - F(1, 2) + F(2 * x1 + 1, 2 * s)))
                t += 1
        subs.append(cell)
    return pos, subs, (cy, cx)


def farthest_sets(mask, sub):
    pos, subs, (cy, cx) = ref_sub_pixels(mask, sub)
    out = []
    for cell in subs:
        d = [(Y - cy) ** 2 + (X - cx) ** 2 for (_, Y, X) in cell]
        mx = max(d)
        out.append({t for (t, _, _), dd in zip(cell, d) if dd == mx})
    return out


def _wrong_choices(got, border, far):
    """[(border pixel, chosen sub-pixel)] that are not a farthest sub-pixel of their border pixel"""
    return [[int(b), int(g)] for g, b in zip(got, border) if not (0 <= int(b) < len(far) and int(g) in far[int(b)])]


def body_subborder(inp, H, W, api):
    import autoarray as aa
    from autoarray.mask import mask_2d_util
    from autoarray.inversion.pixelization import border_relocator as brm
    mask = np.array(inp["mask"], dtype=bool).reshape(H, W)
    n = int((~mask).sum())
    sub = [int(v) for v in np.asarray(inp["sub"]).reshape(-1)[:n]]
    sy, sx = inp["scales"]
    oy, ox = inp["origin"]
    sym = shim.has_sym([sy, sx, oy, ox])
    A, E = {}, {}
    border = np.asarray(mask_2d_util.border_slim_indexes_from(mask_2d=mask)).astype(int)      # which pixels are border pixels: C10
    far = farthest_sets(mask, sub)
    pos, subs, _ = ref_sub_pixels(mask, sub)
    got = hx.attempt(brm.sub_border_pixel_slim_indexes_from, mask_2d=mask, sub_size=np.array(sub))
    if isinstance(got, hx.Raised):
        A["kernel.no_exception"], E["kernel.no_exception"] = repr(got), "ok"
        return A, E
    got = np.asarray(got)
    A["kernel.one_sub_pixel_per_border_pixel"], E["kernel.one_sub_pixel_per_border_pixel"] = len(got), len(border)
    A["kernel.not_a_farthest_sub_pixel"], E["kernel.not_a_farthest_sub_pixel"] = _wrong_choices(got, border, far), []
    # class level: symbolic pixel scales / origin
    m = aa.Mask2D(mask=mask, pixel_scales=(sy, sx), origin=(oy, ox))
    uniform = len(set(sub)) == 1
    arg = sub[0] if (api == "int" and uniform) else (np.array(sub) if api != "array2d" else aa.Array2D(values=np.array(sub), mask=m))
    br = hx.attempt(lambda: aa.BorderRelocator(mask=m, sub_size=arg))
    sbs = hx.attempt(lambda: np.asarray(br.sub_border_slim)) if not isinstance(br, hx.Raised) else br
    if isinstance(sbs, hx.Raised):
        A["class.no_exception"], E["class.no_exception"] = repr(sbs), "ok"
        return A, E
    A["class.sub_border_slim_is_integer_array"], E["class.sub_border_slim_is_integer_array"] = bool(sbs.dtype.kind in "iu"), True
    A["class.one_sub_pixel_per_border_pixel"], E["class.one_sub_pixel_per_border_pixel"] = len(sbs), len(border)
    wrong = _wrong_choices(sbs, border, far)
    A["class.not_a_farthest_sub_pixel"], E["class.not_a_farthest_sub_pixel"] = wrong, []
    if wrong or len(sbs) != len(border):
        return A, E
    # the sub-border grid holds the scaled coordinates of exactly those sub-pixels
    flat = {t: (Y, X) for cell in subs for (t, Y, X) in cell}

    def coord(t):
        Y, X = flat[int(t)]
        a, b = F(H - 1, 2) - Y, X - F(W - 1, 2)
        if not sym:
            a, b = float(a), float(b)
        return [oy + a * sy, ox + b * sx]

    A["class.sub_border_grid"] = hx.attempt(lambda: np.asarray(hx.unwrap(br.sub_border_grid)))
    E["class.sub_border_grid"] = np.array([coord(t) for t in sbs], dtype=object).reshape(-1, 2)
    return A, E


def _fork_mask(ctx, H, W):
    mb = V.bool_array("m", (H, W))
    ctx.assume(z3.Or(*[z3.Not(b.t) for b in mb.reshape(-1)]))
    return ctx.concrete_bools(mb)


def case_subborder(ctx, H, W, smax, maps, api, smin=1):
    mask = _fork_mask(ctx, H, W)
    n = int((~mask).sum())
    sub = np.ones(H * W, dtype=int)
    if maps == "all":
        # every sub-size map over 1..smax: solver integers, concretised by forking
        for k in range(n):
            sk = V.integer("s_%d" % k)
            ctx.assume(z3.And(sk.t >= smin, sk.t <= smax))
            sub[k] = ctx.concretize_int(sk.t)
    else:
        s0 = V.integer("s")
        ctx.assume(z3.And(s0.t >= smin, s0.t <= smax))
        sub[:] = ctx.concretize_int(s0.t)
    ctx.set_case(mask=mask.tolist(), sub=sub.tolist())
    sy, sx = V.real("sy"), V.real("sx")
    ctx.assume(z3.And(sy.t > 0, sx.t > 0))
    inputs = {"mask": mask, "sub": sub, "scales": [sy, sx], "origin": [V.real("oy"), V.real("ox")]}
    hx.run_body(ctx, body_subborder, inputs, {"H": H, "W": W, "api": api}, validate_every=50)


# ---------------------------------------------------------------------------- BorderRelocator / mesh entry points

PIXEL_SCALES = (0.5, 0.25)
ORIGIN = (0.25, -0.5)


_PYTH = [(3, 4), (10, 0), (5, 12), (0, 5), (8, 6), (1.5, 2), (12, 5), (0, 10), (4, 3), (2.5, 6), (6, 8), (5, 0)]


def exact_border(K, variant, dup=0):
    """K source-plane border points with exactly representable radii about the centroid CENTRE (pairs +-p of axis /
    Pythagorean points, plus one zero-sum triple for odd K); mixed radii, so generally non-convex.
    dup=2 / 3: two / three of the border pixels trace to exactly the same source-plane coordinate (zero-sum blocks
    (0,5),(0,5),(0,-10) / (0,5)x3,(0,-15), so centroid and radii stay exact)"""
    if dup and K == 2:
        offs = [(0.0, 0.0), (0.0, 0.0)]
    elif dup and K >= dup + 1:
        block = [(0, 5), (0, 5), (0, -10)] if dup == 2 else [(0, 5), (0, 5), (0, 5), (0, -15)]
        rest = K - len(block)
        scale = 0.125 if variant % 2 else 1.0
        head = (exact_border(rest, variant) - np.array(CENTRE, dtype=float)) / scale if rest else np.zeros((0, 2))
        offs = [tuple(r) for r in head] + block
    elif K == 1:
        offs = [(0.0, 0.0)]
    else:
        offs = [(3, 4), (-3, 4), (0, -8)] if K % 2 else []
        i = variant
        while len(offs) < K:
            a, b = _PYTH[i % len(_PYTH)]
            offs += [(a, b), (-a, -b)]
            i += 1
    scale = 0.125 if variant % 2 else 1.0
    return np.array(offs, dtype=float) * scale + np.array(CENTRE, dtype=float)


def body_class(inp, H, W, s, kind, which, named=None, dup=0):
    import autoarray as aa
    mask = _named(named) if named else np.array(inp["mask"], dtype=bool).reshape(H, W)
    H, W = mask.shape
    n = int((~mask).sum())
    q = np.asarray(inp["q"]).reshape(2)
    v = np.asarray(inp["v"]).reshape(2)
    sym = shim.has_sym(q) or shim.has_sym(v)
    A, E = {}, {}
    m = aa.Mask2D(mask=mask, pixel_scales=PIXEL_SCALES, origin=ORIGIN)
    br = aa.BorderRelocator(mask=m, sub_size=s)
    sub = [s] * n
    pos, subs, _ = ref_sub_pixels(mask, sub)
    far = farthest_sets(mask, sub)
    from autoarray.mask import mask_2d_util
    border = np.asarray(mask_2d_util.border_slim_indexes_from(mask_2d=mask)).astype(int)
    sbs = np.asarray(br.sub_border_slim)
    wrong = _wrong_choices(sbs, border, far)
    A["sub_border.not_a_farthest_sub_pixel"], E["sub_border.not_a_farthest_sub_pixel"] = wrong, []
    if wrong or len(sbs) != len(border):
        return A, E
    # image-plane sub-pixel centres from the independent description, traced to the source plane
    T = sum(len(c) for c in subs)
    img = np.zeros((T, 2))
    for cell in subs:
        for (t, Y, X) in cell:
            img[t, 0] = ORIGIN[0] + (float(F(H - 1, 2) - Y)) * PIXEL_SCALES[0]
            img[t, 1] = ORIGIN[1] + (float(X - F(W - 1, 2))) * PIXEL_SCALES[1]
    # 'ray-traced' data grid: the sub-border sub-pixels land on a border with exact radii, the others keep their place
    src = img.copy()
    B = exact_border(len(sbs), kind, dup)
    for j, t in enumerate(sbs):
        src[int(t)] = B[j]
    data = shim.as_obj(src) if sym else src.copy()
    free = [t for t in range(T) if t not in {int(u) for u in sbs}]
    if which == "grid" and free:
        slot = free[len(free) // 2]
        data[slot, 0], data[slot, 1] = q[0], q[1]
    mesh_pts = np.empty((2, 2), dtype=object if sym else float)
    mesh_pts[0, 0], mesh_pts[0, 1] = (v[0], v[1]) if which == "mesh" else (7.5, -3.25)
    mesh_pts[1, 0], mesh_pts[1, 1] = 0.125, 9.0
    if which == "mesh" and not sym:
        mesh_pts = mesh_pts.astype(float)
    if which.startswith("hist"):
        return _history(A, E, aa, m, br, sbs, img, free, q, v, kind, which, sym)
    data_grid = aa.Grid2DIrregular(values=data)
    mesh_grid = aa.Grid2DIrregular(values=mesh_pts)
    if which == "grid":
        out = hx.attempt(lambda: br.relocated_grid_from(grid=data_grid))
        relocation_obligations(A, E, "relocator.grid.", data, out, B, True, sym)
        rect = aa.mesh.Rectangular(shape=(3, 3))
        mg = hx.attempt(lambda: rect.mapper_grids_from(mask=m, source_plane_data_grid=data_grid, border_relocator=br).source_plane_data_grid)
        relocation_obligations(A, E, "rectangular.data_grid.", data, mg, B, True, sym)
        ab = hx.attempt(lambda: rect.relocated_grid_from(border_relocator=br, source_plane_data_grid=data_grid))
        relocation_obligations(A, E, "mesh.relocated_grid_from.", data, ab, B, True, sym)
        A["mesh.no_relocator_returns_input"] = hx.attempt(lambda: rect.relocated_grid_from(border_relocator=None, source_plane_data_grid=data_grid) is data_grid)
        E["mesh.no_relocator_returns_input"] = True
    else:
        out = hx.attempt(lambda: br.relocated_mesh_grid_from(grid=data_grid, mesh_grid=mesh_grid))
        relocation_obligations(A, E, "relocator.mesh.", mesh_pts, out, B, True, sym)
        dl = aa.mesh.Delaunay()
        mgs = hx.attempt(lambda: dl.mapper_grids_from(mask=m, source_plane_data_grid=data_grid, border_relocator=br, source_plane_mesh_grid=mesh_grid))
        if isinstance(mgs, hx.Raised):
            A["delaunay.no_exception"], E["delaunay.no_exception"] = repr(mgs), "ok"
        else:
            relocation_obligations(A, E, "delaunay.data_grid.", data, mgs.source_plane_data_grid, B, True, sym)
            relocation_obligations(A, E, "delaunay.mesh_grid.", mesh_pts, mgs.source_plane_mesh_grid, B, True, sym)
        ab = hx.attempt(lambda: dl.relocated_mesh_grid_from(border_relocator=br, source_plane_data_grid=data_grid, source_plane_mesh_grid=mesh_grid))
        relocation_obligations(A, E, "mesh.relocated_mesh_grid_from.", mesh_pts, ab, B, True, sym)
        A["mesh.no_relocator_returns_input"] = hx.attempt(
            lambda: dl.relocated_mesh_grid_from(border_relocator=None, source_plane_data_grid=data_grid, source_plane_mesh_grid=mesh_grid) is mesh_grid)
        E["mesh.no_relocator_returns_input"] = True
    return A, E


PLANE_B_SHIFT = (2.0, -1.0)


def _history(A, E, aa, m, br, sbs, img, free, q, v, kind, which, sym):
    """two-step histories on ONE relocator: every call must use the border of the data grid passed to THAT call.
    Plane A and plane B are two source-plane data grids whose borders (grid at the sub-border indices) are different
    exact-radius sets with different centroids."""
    from autoarray.preloads import Preloads
    K = len(sbs)
    BA = exact_border(K, kind)
    BB = exact_border(K, kind + 1) + np.array(PLANE_B_SHIFT)
    srcA, srcB = img.copy(), img.copy() * 2.0
    for j, t in enumerate(sbs):
        srcA[int(t)], srcB[int(t)] = BA[j], BB[j]
    dataA = srcA
    dataB = shim.as_obj(srcB) if (sym and which == "hist_grid") else srcB.copy()
    if which == "hist_grid" and free:
        slot = free[len(free) // 2]
        dataB[slot, 0], dataB[slot, 1] = q[0], q[1]
    mesh_pts = np.empty((2, 2), dtype=object if (sym and which == "hist_mesh") else float)
    mesh_pts[0, 0], mesh_pts[0, 1] = (v[0], v[1]) if which == "hist_mesh" else (7.5, -3.25)
    mesh_pts[1, 0], mesh_pts[1, 1] = 0.125, 9.0
    gA, gB, mesh_grid = aa.Grid2DIrregular(values=dataA), aa.Grid2DIrregular(values=dataB), aa.Grid2DIrregular(values=mesh_pts)
    if which == "hist_mesh":
        # grid(A) -> mesh(B): the mesh vertices must be relocated against the border of B
        o1 = hx.attempt(lambda: br.relocated_grid_from(grid=gA))
        relocation_obligations(A, E, "hist.grid_A.", dataA, o1, BA, True, sym)
        o2 = hx.attempt(lambda: br.relocated_mesh_grid_from(grid=gB, mesh_grid=mesh_grid))
        relocation_obligations(A, E, "hist.grid_A_then_mesh_on_B.", mesh_pts, o2, BB, True, sym)
        # relocator last used on plane A, data-grid relocation preloaded: Delaunay mapper grids on plane B
        hx.attempt(lambda: br.relocated_grid_from(grid=gA))
        dl = aa.mesh.Delaunay()
        mgs = hx.attempt(lambda: dl.mapper_grids_from(mask=m, source_plane_data_grid=gB, border_relocator=br, source_plane_mesh_grid=mesh_grid,
                                                      preloads=Preloads(relocated_grid=gB)))
        if isinstance(mgs, hx.Raised):
            A["hist.delaunay_preloaded.no_exception"], E["hist.delaunay_preloaded.no_exception"] = repr(mgs), "ok"
        else:
            relocation_obligations(A, E, "hist.grid_A_then_delaunay_preloaded_on_B.", mesh_pts, mgs.source_plane_mesh_grid, BB, True, sym)
        # mesh(B) -> mesh(A) with a concrete mesh would fork again on v; the mesh -> mesh order is covered by hist_grid's first step
    else:
        # mesh(A) -> grid(B) -> grid(A) -> grid(B) -> mesh(B)
        cm = mesh_pts.astype(float)
        o1 = hx.attempt(lambda: br.relocated_mesh_grid_from(grid=gA, mesh_grid=mesh_grid))
        relocation_obligations(A, E, "hist.mesh_on_A.", cm, o1, BA, True, sym)
        o2 = hx.attempt(lambda: br.relocated_grid_from(grid=gB))
        relocation_obligations(A, E, "hist.mesh_on_A_then_grid_B.", dataB, o2, BB, True, sym)
        o3 = hx.attempt(lambda: br.relocated_grid_from(grid=gA))
        relocation_obligations(A, E, "hist.grid_B_then_grid_A.", dataA, o3, BA, True, sym)
        o4 = hx.attempt(lambda: br.relocated_grid_from(grid=gB))
        relocation_obligations(A, E, "hist.grid_A_then_grid_B.", dataB, o4, BB, True, sym)
        hx.attempt(lambda: br.relocated_grid_from(grid=gA))
        o5 = hx.attempt(lambda: br.relocated_mesh_grid_from(grid=gB, mesh_grid=mesh_grid))
        relocation_obligations(A, E, "hist.grid_A_then_mesh_on_B.", cm, o5, BB, True, sym)
    return A, E


def case_class(ctx, H, W, s, kind, which, named=None, dup=0):
    mask = _named(named) if named else _fork_mask(ctx, H, W)
    ctx.set_case(mask=mask.tolist())
    inputs = {"mask": mask, "q": V.real_array("q", (2,)), "v": V.real_array("v", (2,))}
    hx.run_body(ctx, body_class, inputs, {"H": H, "W": W, "s": s, "kind": kind, "which": which, "named": named, "dup": dup}, validate_every=10)


BODIES = {"case_kernel": body_kernel, "case_subborder": body_subborder, "case_class": body_class}


NAMED_MASKS = {
    # 1 = masked
    "ring5": ["11111", "10001", "10101", "10001", "11111"],          # annulus: 8 border pixels, hole in the middle
    "lshape34": ["0001", "0111", "0000"],                            # lopsided region touching the array boundary
    "blob45": ["11011", "10001", "00000", "11101"],
}


def _named(name):
    return np.array([[c == "1" for c in row] for row in NAMED_MASKS[name]], dtype=bool)


def _shapes(cap):
    return [(H, W) for H in range(1, cap + 1) for W in range(1, cap + 1) if H * W <= cap]


def cases(tier):
    quick = tier == "quick"
    out = []
    scales = [1.0, 0.0625] if quick else [1.0, 0.0625, 0.25, 4.0]
    for name, (offs, exact) in BORDERS.items():
        for sc in scales:
            out.append(("case_kernel", {"border": name, "scale": sc, "N": 1}))
    for name in (("pair", "tri", "ellipse4", "irr_tri") if quick else ("pair", "tri", "ellipse4", "lopsided5", "irr_tri", "irr_quad")):
        out.append(("case_kernel", {"border": name, "scale": 0.25, "N": 2}))
    if not quick:
        for name in ("pair", "tri"):
            out.append(("case_kernel", {"border": name, "scale": 0.5, "N": 3}))
    # sub-border indices, uniform sub-size: all masks
    for (H, W) in _shapes(9):
        n = H * W
        out.append(("case_subborder", {"H": H, "W": W, "smax": 3 if quick else 4, "maps": "uniform", "api": "int" if (H + W) % 2 else "array"},
                    {"split": 0 if n < 8 else 2}))
    for (H, W) in ([(3, 4)] if quick else [(3, 4), (4, 3)]):
        out.append(("case_subborder", {"H": H, "W": W, "smin": 2, "smax": 2 if quick else 3, "maps": "uniform", "api": "array"}, {"split": 5}))
    # every sub-size map
    for (H, W) in _shapes(4 if quick else 6):
        n = H * W
        if n >= 2:
            out.append(("case_subborder", {"H": H, "W": W, "smax": 3, "maps": "all", "api": "array2d" if (H + W) % 2 else "array"},
                        {"split": 0 if n < 6 else 4}))
    for (H, W) in ([(2, 3), (3, 2)] if quick else [(2, 4)]):
        out.append(("case_subborder", {"H": H, "W": W, "smax": 2, "maps": "all", "api": "array"}, {"split": 2 if quick else 4}))
    # relocator / mesh entry points
    for (H, W) in _shapes(4 if quick else 6):
        if (H, W) in ((1, 6), (6, 1)):
            continue
        for s in ((1, 2) if quick else ((1, 2, 3) if H * W <= 4 else (2,))):
            for which in ("grid", "mesh"):
                kind = (H + W + s) % 2
                out.append(("case_class", {"H": H, "W": W, "s": s, "kind": kind, "which": which, "named": None}, {"split": 0 if H * W < 6 else 2}))
    for name in (("ring5", "lshape34") if quick else ("ring5", "lshape34", "blob45")):
        for which in ("grid", "mesh"):
            out.append(("case_class", {"H": 0, "W": 0, "s": 2, "kind": 1 if which == "grid" else 0, "which": which, "named": name}))
    # coincident border coordinates: two / three border pixels trace to the same source-plane point
    for (H, W) in (_shapes(3) + [(2, 2)] if quick else _shapes(4) + [(2, 3)]):
        for which in ("grid", "mesh"):
            out.append(("case_class", {"H": H, "W": W, "s": 2, "kind": (H + W + 1) % 2, "which": which, "named": None, "dup": 2}))
    for which in ("grid", "mesh"):
        out.append(("case_class", {"H": 2, "W": 2, "s": 2, "kind": 0, "which": which, "named": None, "dup": 3}))
        out.append(("case_class", {"H": 0, "W": 0, "s": 2, "kind": 1, "which": which, "named": "lshape34", "dup": 3 if which == "grid" else 2}))
    # two-step histories on one relocator (stale state between calls)
    for (H, W) in (_shapes(3) + [(2, 2)] if quick else _shapes(4) + [(2, 3), (3, 2)]):
        for which in ("hist_mesh", "hist_grid"):
            out.append(("case_class", {"H": H, "W": W, "s": 2, "kind": (H + W) % 2, "which": which, "named": None}))
    for name in (("lshape34",) if quick else ("lshape34", "ring5")):
        out.append(("case_class", {"H": 0, "W": 0, "s": 2, "kind": 1, "which": "hist_mesh", "named": name}))
    return out


BODY_KWARGS = {"case_kernel": ("border", "scale", "N"), "case_subborder": ("H", "W", "api"),
               "case_class": ("H", "W", "s", "kind", "which", "named", "dup")}


def replay(cand):
    cand = dict(cand)
    fn = cand["case_fn"]
    cand["case_kwargs"] = {k: v for k, v in cand["case_kwargs"].items() if k in BODY_KWARGS[fn]}
    return hx.replay_body(BODIES[fn], cand)
