"""C10 - blurring, edge and border pixel sets match their definitions for every mask."""
import numpy as np
import z3

from symx import hx, values as V

PROPERTY = "C10"
FUNCTIONS = [
    "autoarray.mask.mask_2d_util.blurring_mask_2d_from",
    "autoarray.mask.mask_2d_util.check_if_edge_pixel",
    "autoarray.mask.mask_2d_util.total_edge_pixels_from",
    "autoarray.mask.mask_2d_util.edge_1d_indexes_from",
    "autoarray.mask.mask_2d_util.check_if_border_pixel",
    "autoarray.mask.mask_2d_util.total_border_pixels_from",
    "autoarray.mask.mask_2d_util.border_slim_indexes_from",
    "autoarray.mask.derive.indexes_2d.DeriveIndexes2D.edge_native",
    "autoarray.mask.derive.indexes_2d.DeriveIndexes2D.border_native",
    "autoarray.mask.derive.mask_2d.DeriveMask2D.blurring_from",
    "autoarray.mask.derive.mask_2d.DeriveMask2D.edge",
    "autoarray.mask.derive.mask_2d.DeriveMask2D.border",
    "autoarray.mask.derive.grid_2d.DeriveGrid2D.edge",
    "autoarray.mask.derive.grid_2d.DeriveGrid2D.border",
    "autoarray.structures.grids.uniform_2d.Grid2D.blurring_grid_from",
]
BOUNDS_NOTE = "see key 'merged' for the all-masks-in-one-query cases"
BOUNDS = {
    "quick": "all masks (>=1 unmasked pixel) of every shape with H*W <= 9 plus 3x4, 4x3, 2x5, 5x2 (masks touching the array boundary, holes, "
             "several components included); kernel shapes (1,1),(1,3),(3,1),(3,3),(3,5),(5,3); origin and pixel scales of the grid views symbolic reals",
    "thorough": "all masks of every shape with H*W <= 14 plus 3x5, 5x3, 4x4; same kernels plus (5,5)",
    "merged": "additionally, with the mask bits left symbolic (merge interpreter over the kernels' source, ONE path = all 2^(H*W) masks): blurring "
              "mask incl. exception condition for shapes up to 5x5 (quick) / 6x6 (thorough), kernels (3,3),(1,3),(3,5); edge predicate + edge index "
              "list for 3x4 (quick) / up to 4x4, 3x5 (thorough); border index list for 2x4 (quick) / 3x3 (thorough); larger merged shapes did not finish inside the budget",
}
OUTSIDE = ["shapes with more than 14 pixels other than 3x5, 5x3, 4x4", "kernel axes longer than 5"]
STUBS = []
ASSUMPTIONS = ["mask bits explored by forking (one path per mask); origin / pixel scales are solver variables (scales > 0)"]
EXPLORER_OPTS = {"max_paths": 140000}
KERNELS_Q = [(1, 1), (1, 3), (3, 1), (3, 3), (3, 5), (5, 3)]


def ref_blurring(mask, ky, kx):
    H, W = mask.shape
    out = np.full((H, W), True)
    hy, hx_ = ky // 2, kx // 2
    for y in range(H):
        for x in range(W):
            if not mask[y, x]:
                for dy in range(-hy, hy + 1):
                    for dx in range(-hx_, hx_ + 1):
                        yy, xx = y + dy, x + dx
                        if not (0 <= yy < H and 0 <= xx < W):
                            return hx.Raised("MaskException")
                        if mask[yy, xx]:
                            out[yy, xx] = False
    return out


def ref_sets(mask):
    H, W = mask.shape
    pos = [(y, x) for y in range(H) for x in range(W) if not mask[y, x]]
    required, forbidden = set(), set()
    for (y, x) in pos:
        nb = [(y + dy, x + dx) for dy in (-1, 0, 1) for dx in (-1, 0, 1) if (dy, dx) != (0, 0)]
        inarr = [(a, b) for (a, b) in nb if 0 <= a < H and 0 <= b < W]
        if any(mask[a, b] for (a, b) in inarr):
            required.add((y, x))
        if len(inarr) == 8 and not any(mask[a, b] for (a, b) in inarr):
            forbidden.add((y, x))
    return pos, required, forbidden


def walk_masked(mask, y, x):
    H, W = mask.shape
    return (all(mask[yy, x] for yy in range(0, y)) or all(mask[yy, x] for yy in range(y + 1, H))
            or all(mask[y, xx] for xx in range(0, x)) or all(mask[y, xx] for xx in range(x + 1, W)))


def _idx_list(a):
    a = np.asarray(hx.unwrap(a))
    return [int(v) for v in a.reshape(-1)]


def body_sets(inp, H, W, kernels):
    import autoarray as aa
    from autoarray.mask import mask_2d_util
    mask = np.array(inp["mask"], dtype=bool).reshape(H, W)
    oy, ox = inp["origin"]
    sy, sx = inp["scales"]
    pos, required, forbidden = ref_sets(mask)
    slim_of = {p: k for k, p in enumerate(pos)}
    A, E = {}, {}
    for (ky, kx) in kernels:
        A["blurring_%d_%d" % (ky, kx)] = hx.attempt(mask_2d_util.blurring_mask_2d_from, mask_2d=mask, kernel_shape_native=(ky, kx))
        E["blurring_%d_%d" % (ky, kx)] = ref_blurring(mask, ky, kx)
    edge = hx.attempt(mask_2d_util.edge_1d_indexes_from, mask_2d=mask)
    border = hx.attempt(mask_2d_util.border_slim_indexes_from, mask_2d=mask)
    if isinstance(edge, hx.Raised) or isinstance(border, hx.Raised):
        A["edge_border_no_exception"] = "edge=%r border=%r" % (edge, border)
        E["edge_border_no_exception"] = "ok"
        return A, E
    el, bl = _idx_list(edge), _idx_list(border)
    valid = all(0 <= k < len(pos) for k in el + bl)
    A["indices_valid_slim_and_increasing"] = bool(valid and all(a < b for a, b in zip(el, el[1:])) and all(a < b for a, b in zip(bl, bl[1:])))
    E["indices_valid_slim_and_increasing"] = True
    if not valid:
        return A, E
    eset = {pos[k] for k in el}
    A["edge_contains_every_pixel_with_masked_neighbour"] = sorted(required - eset)
    E["edge_contains_every_pixel_with_masked_neighbour"] = []
    A["edge_excludes_fully_surrounded_pixels"] = sorted(eset & forbidden)
    E["edge_excludes_fully_surrounded_pixels"] = []
    A["border_slim"] = bl
    E["border_slim"] = [k for k in el if walk_masked(mask, *pos[k])]
    # views
    m = aa.Mask2D(mask=mask, pixel_scales=(sy, sx), origin=(oy, ox))
    di = m.derive_indexes
    A["view_edge_slim"] = hx.attempt(lambda: _idx_list(di.edge_slim))
    E["view_edge_slim"] = el
    A["view_border_slim"] = hx.attempt(lambda: _idx_list(di.border_slim))
    E["view_border_slim"] = bl
    A["view_edge_native"] = hx.attempt(lambda: np.asarray(di.edge_native, dtype=float).reshape(-1, 2))
    E["view_edge_native"] = np.array([pos[k] for k in el], dtype=float).reshape(-1, 2)
    A["view_border_native"] = hx.attempt(lambda: np.asarray(di.border_native, dtype=float).reshape(-1, 2))
    E["view_border_native"] = np.array([pos[k] for k in bl], dtype=float).reshape(-1, 2)
    em = np.full((H, W), True)
    for k in el:
        em[pos[k]] = False
    bm = np.full((H, W), True)
    for k in bl:
        bm[pos[k]] = False
    A["view_edge_mask"] = hx.attempt(lambda: np.array(m.derive_mask.edge.array, dtype=bool))
    E["view_edge_mask"] = em
    A["view_border_mask"] = hx.attempt(lambda: np.array(m.derive_mask.border.array, dtype=bool))
    E["view_border_mask"] = bm

    def centre(p):
        return [oy + ((H - 1) / 2.0 - p[0]) * sy, ox + (p[1] - (W - 1) / 2.0) * sx]

    if el:
        A["view_edge_grid"] = hx.attempt(lambda: m.derive_grid.edge.slim.array)
        E["view_edge_grid"] = np.array([centre(pos[k]) for k in el], dtype=object).reshape(-1, 2)
    if bl:
        A["view_border_grid"] = hx.attempt(lambda: m.derive_grid.border.slim.array)
        E["view_border_grid"] = np.array([centre(pos[k]) for k in bl], dtype=object).reshape(-1, 2)
    for (ky, kx) in kernels[:4]:
        rb = ref_blurring(mask, ky, kx)
        key = "view_blurring_mask_%d_%d" % (ky, kx)
        A[key] = hx.attempt(lambda: np.array(m.derive_mask.blurring_from(kernel_shape_native=(ky, kx)).array, dtype=bool))
        E[key] = rb
        if isinstance(rb, hx.Raised):
            # the coordinate-grid view must refuse exactly when the mask view refuses (seed C10-f)
            key = "view_blurring_grid_%d_%d" % (ky, kx)
            A[key] = hx.attempt(lambda: aa.Grid2D.blurring_grid_from(mask=m, kernel_shape_native=(ky, kx)).slim.array)
            E[key] = rb
        if not isinstance(rb, hx.Raised) and not rb.all():
            key = "view_blurring_grid_%d_%d" % (ky, kx)
            A[key] = hx.attempt(lambda: aa.Grid2D.blurring_grid_from(mask=m, kernel_shape_native=(ky, kx)).slim.array)
            E[key] = np.array([centre((y, x)) for y in range(H) for x in range(W) if not rb[y, x]], dtype=object).reshape(-1, 2)
    # history (seed C10-h): query the index sets, change the mask IN PLACE (and through a copy), query again -
    # every view must describe the mask's current contents
    if H * W <= 9:
        for label, (fy, fx) in (("flip_centre", (H // 2, W // 2)), ("flip_corner", (0, 0))):
            for via_copy in (False, True):
                m2 = aa.Mask2D(mask=mask.copy(), pixel_scales=(sy, sx), origin=(oy, ox))
                _ = hx.attempt(lambda: (m2.derive_indexes.edge_slim, m2.derive_indexes.border_slim, m2.derive_mask.edge))
                tgt = m2.copy() if via_copy else m2
                new_mask = mask.copy()
                new_mask[fy, fx] = not new_mask[fy, fx]
                if new_mask.all():
                    continue
                r = hx.attempt(lambda: tgt.__setitem__((fy, fx), bool(new_mask[fy, fx])))
                pos2, req2, forb2 = ref_sets(new_mask)
                tag = "history.%s%s" % (label, ".copy" if via_copy else "")
                e2 = hx.attempt(lambda: _idx_list(tgt.derive_indexes.edge_slim)) if not isinstance(r, hx.Raised) else r
                b2 = hx.attempt(lambda: _idx_list(tgt.derive_indexes.border_slim)) if not isinstance(r, hx.Raised) else r
                if isinstance(e2, hx.Raised) or isinstance(b2, hx.Raised):
                    A[tag + ".no_exception"] = "%r %r" % (e2, b2)
                    E[tag + ".no_exception"] = "ok"
                    continue
                ok_idx = all(0 <= k < len(pos2) for k in e2 + b2)
                A[tag + ".indices_valid"] = ok_idx
                E[tag + ".indices_valid"] = True
                if not ok_idx:
                    continue
                es2 = {pos2[k] for k in e2}
                A[tag + ".edge_contains_required"] = sorted(req2 - es2)
                E[tag + ".edge_contains_required"] = []
                A[tag + ".edge_excludes_forbidden"] = sorted(es2 & forb2)
                E[tag + ".edge_excludes_forbidden"] = []
                A[tag + ".border_slim"] = b2
                E[tag + ".border_slim"] = [k for k in e2 if walk_masked(new_mask, *pos2[k])]
                A[tag + ".edge_native"] = hx.attempt(lambda: np.asarray(tgt.derive_indexes.edge_native, dtype=float).reshape(-1, 2))
                E[tag + ".edge_native"] = np.array([pos2[k] for k in e2], dtype=float).reshape(-1, 2)
                em2 = np.full((H, W), True)
                for k in e2:
                    em2[pos2[k]] = False
                A[tag + ".edge_mask"] = hx.attempt(lambda: np.array(tgt.derive_mask.edge.array, dtype=bool))
                E[tag + ".edge_mask"] = em2
    return A, E


def case_sets(ctx, H, W, kernels):
    m = V.bool_array("m", (H, W))
    ctx.assume(z3.Or(*[z3.Not(b.t) for b in m.reshape(-1)]))
    mask = ctx.concrete_bools(m)
    ctx.set_case(mask=mask.tolist())
    sy, sx = V.real("sy"), V.real("sx")
    ctx.assume(z3.And(sy.t > 0, sx.t > 0))
    inputs = {"mask": mask, "origin": [V.real("oy"), V.real("ox")], "scales": [sy, sx]}
    known = None
    hx.run_body(ctx, body_sets, inputs, {"H": H, "W": W, "kernels": kernels}, validate_every=64, known=known)


BODIES = {"case_sets": body_sets}


def _cases(tier):
    cap = 12 if tier == "quick" else 16
    ks = KERNELS_Q if tier == "quick" else KERNELS_Q + [(5, 5)]
    out = []
    for H in range(1, cap + 1):
        for W in range(1, cap + 1):
            if H * W <= cap:
                if tier == "quick" and H * W > 9 and (H, W) not in ((3, 4), (4, 3), (2, 5), (5, 2)):
                    continue
                if tier != "quick" and H * W > 14 and (H, W) not in ((3, 5), (5, 3), (4, 4)):
                    continue
                n = H * W
                out.append(("case_sets", {"H": H, "W": W, "kernels": ks}, {"split": 0 if n < 10 else (3 if n <= 12 else 6)}))
    out.sort(key=lambda c: -(c[1]["H"] * c[1]["W"]))
    mk = [(3, 3), (1, 3), (3, 5)]
    for (H, W) in ([(4, 4), (3, 5), (5, 5)] if tier == "quick" else [(4, 4), (3, 5), (5, 5), (6, 5), (6, 6), (4, 7)]):
        out.append(("case_merged", {"H": H, "W": W, "kernels": mk, "parts": ["blurring"]}, {"timeout_ms": 60000}))
    for (H, W) in ([(3, 4)] if tier == "quick" else [(3, 4), (4, 4), (3, 5)]):
        out.append(("case_merged", {"H": H, "W": W, "kernels": mk, "parts": ["edge"]}, {"timeout_ms": 60000 if tier == "quick" else 180000}))
    for (H, W) in ([(2, 4)] if tier == "quick" else [(3, 3), (2, 4)]):
        out.append(("case_merged", {"H": H, "W": W, "kernels": mk, "parts": ["border"]}, {"timeout_ms": 60000 if tier == "quick" else 300000}))
    return out


def replay(cand):
    cand = dict(cand)
    cand["case_kwargs"] = dict(cand["case_kwargs"])
    cand["case_kwargs"]["kernels"] = [tuple(k) for k in cand["case_kwargs"]["kernels"]]
    return hx.replay_body(BODIES[cand["case_fn"]], cand)


# ---------------------------------------------------------------------------- merged kernels: all masks of a shape in one path
# (mask bits stay symbolic; the kernels' source is executed by the if-converting interpreter symx.merge)

def POST_INSTALL():
    from symx import merge
    merge.install_dispatchers()


def _b2i(b):
    return b._as_int() if isinstance(b, V.SymBool) else int(bool(b))


def _ite(c, a, b):
    from symx import shim
    if isinstance(c, V.SymBool):
        return shim._ite(c, a, b)
    return a if c else b


def _and(*bs):
    r = True
    for b in bs:
        if isinstance(b, V.SymBool) or isinstance(r, V.SymBool):
            r = (r & b) if not isinstance(r, bool) else (b if r else False)
        else:
            r = bool(r) and bool(b)
    return r


def _or(*bs):
    r = False
    for b in bs:
        if isinstance(b, V.SymBool) or isinstance(r, V.SymBool):
            r = (r | b) if not isinstance(r, bool) else (True if r else b)
        else:
            r = bool(r) or bool(b)
    return r


def _neg(b):
    return ~b if isinstance(b, V.SymBool) else (not bool(b))


def _sel(arr, idx, n_valid):
    """arr[idx] for a possibly symbolic idx (ite chain over the capacity); -2 when idx is outside the logical length"""
    arr = np.asarray(hx.unwrap(arr), dtype=object).reshape(-1)
    if not isinstance(idx, V.SymInt):
        i = int(idx)
        return arr[i] if 0 <= i < arr.shape[0] else -2
    res = -2
    for c in range(arr.shape[0] - 1, -1, -1):
        res = _ite(idx == c, arr[c], res)
    return res


def _length(a):
    from symx import merge
    s = merge.sym_shape(a)[0] if isinstance(a, merge.CapArray) else np.asarray(hx.unwrap(a)).shape[0]
    return s


def body_merged(inp, H, W, kernels, parts=("blurring", "edge", "border")):
    from autoarray.mask import mask_2d_util as mu
    from symx import merge
    raw = np.asarray(inp["mask"], dtype=object).reshape(H, W)
    symbolic = any(isinstance(b, V.SymBool) for b in raw.reshape(-1))
    mask = raw if symbolic else np.array(raw, dtype=bool)
    m = [[mask[y, x] if symbolic else bool(mask[y, x]) for x in range(W)] for y in range(H)]
    A, E = {}, {}
    inside = lambda a, b: 0 <= a < H and 0 <= b < W
    # ---- blurring mask, per pixel, and the exception condition
    for (ky, kx) in (kernels if "blurring" in parts else []):
        hy, hx_ = ky // 2, kx // 2
        del merge.LAST_EVENTS[:]
        r = hx.attempt(mu.blurring_mask_2d_from, mask_2d=mask, kernel_shape_native=(ky, kx))
        leaves = _or(*[_neg(m[y][x]) for y in range(H) for x in range(W)
                       if not (inside(y - hy, x - hx_) and inside(y + hy, x + hx_))]) if H * W else False
        if symbolic:
            raised = V.SymBool(z3.simplify(z3.Or(*[g for (g, n, _) in merge.LAST_EVENTS if n == "MaskException"]))) \
                if any(n == "MaskException" for (_, n, _) in merge.LAST_EVENTS) else False
            other = [g for (g, n, _) in merge.LAST_EVENTS if n != "MaskException"]
            A["blurring_%d_%d_no_other_exception" % (ky, kx)] = V.SymBool(z3.Not(z3.Or(*other))) if other else True
            E["blurring_%d_%d_no_other_exception" % (ky, kx)] = True
        else:
            raised = isinstance(r, hx.Raised) and r.name == "MaskException"
            A["blurring_%d_%d_no_other_exception" % (ky, kx)] = not (isinstance(r, hx.Raised) and r.name != "MaskException")
            E["blurring_%d_%d_no_other_exception" % (ky, kx)] = True
        A["blurring_%d_%d_raises_iff_footprint_leaves_array" % (ky, kx)] = raised
        E["blurring_%d_%d_raises_iff_footprint_leaves_array" % (ky, kx)] = leaves
        if isinstance(r, hx.Raised):
            for y in range(H):
                for x in range(W):
                    A["blurring_%d_%d_pixel_%d_%d" % (ky, kx, y, x)] = True      # vacuous: the call raised
                    E["blurring_%d_%d_pixel_%d_%d" % (ky, kx, y, x)] = True
            continue
        rb = np.asarray(r, dtype=object)
        for y in range(H):
            for x in range(W):
                near = _or(*[_neg(m[y + dy][x + dx]) for dy in range(-hy, hy + 1) for dx in range(-hx_, hx_ + 1) if inside(y + dy, x + dx)])
                spec_unmasked = _and(m[y][x], near)
                key = "blurring_%d_%d_pixel_%d_%d" % (ky, kx, y, x)
                # only meaningful when no exception is raised
                A[key] = _or(leaves, _neg(rb[y, x]) if symbolic or True else None)
                E[key] = _or(leaves, spec_unmasked)
    if "edge" not in parts and "border" not in parts:
        return A, E
    # ---- edge predicate of the kernel vs the definition
    e = [[None] * W for _ in range(H)]
    for y in range(H):
        for x in range(W):
            ev = hx.attempt(mu.check_if_edge_pixel, mask_2d=mask, y=y, x=x)
            e[y][x] = ev
            nb = [(y + dy, x + dx) for dy in (-1, 0, 1) for dx in (-1, 0, 1) if (dy, dx) != (0, 0)]
            inarr = [(a, b) for (a, b) in nb if inside(a, b)]
            required = _or(*[m[a][b] for (a, b) in inarr])
            forbidden = _and(*[_neg(m[a][b]) for (a, b) in inarr]) if len(inarr) == 8 else False
            A["edge_predicate_%d_%d" % (y, x)] = _or(m[y][x], _and(_or(_neg(required), ev), _or(_neg(ev), _neg(forbidden)))) \
                if not isinstance(ev, hx.Raised) else ev
            E["edge_predicate_%d_%d" % (y, x)] = True
    if any(isinstance(e[y][x], hx.Raised) for y in range(H) for x in range(W)):
        return A, E
    # ---- edge / border lists: lengths and the entry of every member at its rank
    del merge.LAST_EVENTS[:]
    edge = hx.attempt(mu.edge_1d_indexes_from, mask_2d=mask)
    border = hx.attempt(mu.border_slim_indexes_from, mask_2d=mask) if "border" in parts else np.zeros(0)
    if symbolic:
        other = [g for (g, n, _) in merge.LAST_EVENTS]
        A["edge_border_no_exception"] = V.SymBool(z3.Not(z3.Or(*other))) if other else True
    else:
        A["edge_border_no_exception"] = not (isinstance(edge, hx.Raised) or isinstance(border, hx.Raised))
    E["edge_border_no_exception"] = True
    if isinstance(edge, hx.Raised) or isinstance(border, hx.Raised):
        return A, E
    slim_rank, edge_rank, border_rank = 0, 0, 0
    for y in range(H):
        for x in range(W):
            un = _neg(m[y][x])
            is_edge = _and(un, e[y][x])
            walk = _or(_and(*[m[yy][x] for yy in range(0, y)]), _and(*[m[yy][x] for yy in range(y + 1, H)]),
                       _and(*[m[y][xx] for xx in range(0, x)]), _and(*[m[y][xx] for xx in range(x + 1, W)]))
            is_border = _and(is_edge, walk)
            if "edge" in parts:
                A["edge_entry_%d_%d" % (y, x)] = _ite(is_edge, _sel(edge, edge_rank, None), -1)
                E["edge_entry_%d_%d" % (y, x)] = _ite(is_edge, slim_rank, -1)
            if "border" in parts:
                A["border_entry_%d_%d" % (y, x)] = _ite(is_border, _sel(border, border_rank, None), -1)
                E["border_entry_%d_%d" % (y, x)] = _ite(is_border, slim_rank, -1)
            slim_rank = slim_rank + _b2i(un)
            edge_rank = edge_rank + _b2i(is_edge)
            border_rank = border_rank + _b2i(is_border)
    if "edge" in parts:
        A["edge_length"] = _length(edge)
        E["edge_length"] = edge_rank
    if "border" in parts:
        A["border_length"] = _length(border)
        E["border_length"] = border_rank
    return A, E


def case_merged(ctx, H, W, kernels, parts=("blurring", "edge", "border")):
    from symx import merge
    m = V.bool_array("m", (H, W))
    ctx.assume(z3.Or(*[z3.Not(b.t) for b in m.reshape(-1)]))
    ctx.set_case(shape=[H, W], mode="merged: all masks of the shape in one path")
    with merge.merging():
        hx.run_body(ctx, body_merged, {"mask": m}, {"H": H, "W": W, "kernels": kernels, "parts": list(parts)}, validate_every=1)


BODIES["case_merged"] = body_merged


def cases(tier):
    cs = _cases(tier)
    return [c for c in cs if c[0] == "case_merged"] + [c for c in cs if c[0] != "case_merged"]     # long single-path cases first
