"""C04 - data vector and curvature matrix equal the normal equations in both formalisms (mapping matrix / w-tilde)."""
import os

import numpy as np
import z3

from symx import hx, values as V

PROPERTY = "C04"
FUNCTIONS = [
    "autoarray.inversion.inversion.imaging.inversion_imaging_util.w_tilde_data_imaging_from",
    "autoarray.inversion.inversion.imaging.inversion_imaging_util.w_tilde_curvature_imaging_from",
    "autoarray.inversion.inversion.imaging.inversion_imaging_util.w_tilde_curvature_preload_imaging_from",
    "autoarray.inversion.inversion.imaging.inversion_imaging_util.w_tilde_curvature_value_from",
    "autoarray.inversion.inversion.imaging.inversion_imaging_util.data_vector_via_w_tilde_data_imaging_from",
    "autoarray.inversion.inversion.imaging.inversion_imaging_util.data_vector_via_blurred_mapping_matrix_from",
    "autoarray.inversion.inversion.imaging.inversion_imaging_util.curvature_matrix_via_w_tilde_curvature_preload_imaging_from",
    "autoarray.inversion.inversion.imaging.inversion_imaging_util.curvature_matrix_off_diags_via_w_tilde_curvature_preload_imaging_from",
    "autoarray.inversion.inversion.imaging.inversion_imaging_util.data_linear_func_matrix_from",
    "autoarray.inversion.inversion.imaging.inversion_imaging_util.curvature_matrix_off_diags_via_data_linear_func_matrix_from",
    "autoarray.inversion.inversion.imaging.inversion_imaging_util.curvature_matrix_off_diags_via_mapper_and_linear_func_curvature_vector_from",
    "autoarray.inversion.inversion.inversion_util.curvature_matrix_via_mapping_matrix_from",
    "autoarray.inversion.inversion.inversion_util.curvature_matrix_with_added_to_diag_from",
    "autoarray.inversion.inversion.inversion_util.curvature_matrix_mirrored_from",
    "autoarray.inversion.inversion.inversion_util.mapped_reconstructed_data_via_image_to_pix_unique_from",
    "autoarray.inversion.inversion.inversion_util.mapped_reconstructed_data_via_mapping_matrix_from",
    "autoarray.inversion.inversion.inversion_util.reconstruction_positive_negative_from",
    "autoarray.inversion.inversion.factory.inversion_imaging_from",
    "autoarray.inversion.inversion.abstract.AbstractInversion.operated_mapping_matrix",
    "autoarray.inversion.inversion.abstract.AbstractInversion.no_regularization_index_list",
    "autoarray.inversion.inversion.abstract.AbstractInversion.param_range_list_from",
    "autoarray.inversion.inversion.abstract.AbstractInversion.reconstruction",
    "autoarray.inversion.inversion.abstract.AbstractInversion.mapped_reconstructed_data",
    "autoarray.inversion.inversion.imaging.abstract.AbstractInversionImaging.operated_mapping_matrix_list",
    "autoarray.inversion.inversion.imaging.abstract.AbstractInversionImaging.linear_func_operated_mapping_matrix_dict",
    "autoarray.inversion.inversion.imaging.mapping.InversionImagingMapping.data_vector",
    "autoarray.inversion.inversion.imaging.mapping.InversionImagingMapping.curvature_matrix",
    "autoarray.inversion.inversion.imaging.mapping.InversionImagingMapping.mapped_reconstructed_data_dict",
    "autoarray.inversion.inversion.imaging.w_tilde.InversionImagingWTilde.w_tilde_data",
    "autoarray.inversion.inversion.imaging.w_tilde.InversionImagingWTilde.data_vector",
    "autoarray.inversion.inversion.imaging.w_tilde.InversionImagingWTilde._data_vector_mapper",
    "autoarray.inversion.inversion.imaging.w_tilde.InversionImagingWTilde._data_vector_func_list_and_mapper",
    "autoarray.inversion.inversion.imaging.w_tilde.InversionImagingWTilde.curvature_matrix",
    "autoarray.inversion.inversion.imaging.w_tilde.InversionImagingWTilde._curvature_matrix_mapper_diag",
    "autoarray.inversion.inversion.imaging.w_tilde.InversionImagingWTilde._curvature_matrix_off_diag_from",
    "autoarray.inversion.inversion.imaging.w_tilde.InversionImagingWTilde._curvature_matrix_multi_mapper",
    "autoarray.inversion.inversion.imaging.w_tilde.InversionImagingWTilde._curvature_matrix_func_list_and_mapper",
    "autoarray.inversion.inversion.imaging.w_tilde.InversionImagingWTilde.mapped_reconstructed_data_dict",
    "autoarray.dataset.imaging.dataset.Imaging.w_tilde",
    "autoarray.dataset.imaging.dataset.Imaging.convolver",
]
BOUNDS = {
    "quick": "One input family is a solver variable at a time, everything else concrete dyadic (noise powers of two) so float64 = exact arithmetic. "
             "L0 mapping-formalism kernels: blurred matrix (4x3, 6x4), data, reconstruction fully symbolic; or all noise values symbolic > 0; "
             "curvature_matrix_mirrored_from (merge interpreter): every m x m matrix (m = 4, 5) whose mirror entries are equal or one of them zero. "
             "L1 w_tilde_data / w_tilde_curvature / preload tables against the W-tilde specification: kernels 1x1, 3x3, 5x5, 1x3, 3x1, 3x5, 5x3; masks = all "
             "63 masks of a 2x3 window, all 15 of a 2x2 window (forked) and 12 named patterns with 1..9 unmasked pixels, minimal frame with the kernel "
             "footprint inside (some with a spare ring); symbolic: data | all noise values | data and noise | kernel entries (whole 3x3 kernel for "
             "2 unmasked pixels, 2-4 entries otherwise). L2 consumers of the tables (curvature from preload, off-diagonal blocks, data vector from "
             "w_tilde_data, mapped data, function-list blocks): table values / w_tilde_data / function columns / reconstruction symbolic with the real "
             "unique mappings of 1-2 rectangular mappers, or the unique-mapping weights symbolic. L3 aa.Inversion with use_w_tilde off and on: 1-3 "
             "linear objects (rectangular meshes 3x3..4x4, sub-size 1/2/4, three concrete source-plane distortions, with and without regularization; "
             "Delaunay with 6 vertices; function lists with 1-2 positive columns) in 17 ordered lists, masks with 2..9 unmasked pixels (all masks of a "
             "2x2 window once); symbolic: data (reconstruction through the exact linear solve) | all noise values | data and noise | 3 kernel entries; "
             "mapped_reconstructed_data for a fully symbolic reconstruction vector. Every L3 case reads two inversion objects per formalism in "
             "opposite orders (matrices -> curvature_reg_matrix / reconstruction / log-det terms -> matrices again; and history first), then "
             "inverts a second dataset (DatasetInterface sharing noise map, convolver, grids and w-tilde tables, OTHER data - symbolic in the "
             "data modes) and the first dataset once more. Lists include two different function lists of equal size (2 and 3 columns). The dataset is also built through the public "
             "variants apply_mask (from the un-masked frame) and apply_over_sampling; a dataset with another concrete noise map that is handed the "
             "first dataset's w-tilde tables must be rejected (InversionException) or still give B^T N^-1 B for its own noise map.",
    "thorough": "quick plus, under the same obligations: "
                "L0 blurred matrices up to 9x6 and 8 symbolic noise values, mirrored matrices up to 9x9. "
                "L1 data symbolic: ALL 65535 masks of a 4x4 window and all 4095 of a 3x4 window (3x3 kernel), all 4095 masks of a 3x4 window for the "
                "1x1, 1x3, 3x1 kernels, all 511 masks of a 3x3 window for every kernel shape (1x1, 3x3, 5x5, 1x3, 3x1, 3x5, 5x3); data and noise "
                "symbolic: all masks of a 3x3 window (3x3 kernel) and of a 2x3 window (every kernel shape); 7 larger patterns (up to 12 pixels: 3x4 "
                "block, 10-pixel pattern with holes, staircase, four far-apart pixels) with a spare ring, noise in units of 2^15 and kernels with "
                "exact zeros; all noise values symbolic with signed kernels of every shape on patterns up to 12 pixels; 8 subsets of 3 symbolic "
                "kernel entries on 12 patterns (3x3), 2-3 symbolic entries of the 5x5 / non-square / 1x1 kernels on 6 patterns. "
                "L2 consumers on masks up to 12 pixels with meshes up to 5x5, sub-size 4, three mappers, 3 function columns. "
                "L3 aa.Inversion (both formalisms, both read orders, second-dataset history): every order of 12 three-object lists (incl. two "
                "different equal-size function lists, unregularized mappers, sub-size 4, meshes up to 4x4/3x5) on masks up to 12 pixels and kernels "
                "1x1..5x5 with the exact solve; all masks of a 2x3 window for every kernel shape and of a 3x3 window (3x3 kernel), all masks of a 2x2 "
                "window with a three-object list for every kernel shape; large noise units (2^15, 2^16) ; Delaunay lists on 9-10 pixel masks; noise / "
                "data+noise / 3-kernel-entry families over 6 object mixes x 4 patterns x rotating kernel shapes.",
}
OUTSIDE = [
    "masks / frames other than the enumerated ones, kernels larger than 5x5, more than 3 linear objects, Voronoi and other mesh types",
    "mapper weights are symbolic only at level 2; at level 3 the mappers are real objects on enumerated (concrete) source-plane grids",
    "function lists with negative mapping-matrix entries (convolve_matrix_jit drops non-positive entries: property C03)",
    "PSF normalisation (datasets are built with use_normalized_psf=False: the normalised PSF is just another kernel value)",
    "positive-only solver (C05), preloads (C15), the check_reconstruction guard (switched off through conf)",
    "kernel / noise values at which the overlap W[i,j] of two different pixels with overlapping footprints is exactly zero (generic-overlap "
    "assumption of the kernel- and noise-symbolic cases; exact zeros are exercised with concrete kernels only)",
    "more than 4 kernel entries symbolic at once for masks with 3 or more unmasked pixels (nlsat does not terminate reliably)",
    "float64 rounding: concrete constants are dyadic so both arithmetics agree; Delaunay cases (non-dyadic weights) carry a 1e-9 tolerance with "
    "|data|, |reconstruction| <= 1000",
    "while the finding 'nonsquare-shift' is recorded as known: signed values in non-square kernels (they are enabled automatically once it is fixed)",
]
STUBS = [
    "np.linalg.solve as seen by inversion_util (concrete matrix, symbolic right-hand side): exact rational solve by fraction-free Gauss-Jordan "
    "elimination - contract: LAPACK's solve is the exact linear solve",
    "symbolic noise values are proxies over a variable pair (s, u) with s > 0, s*u = 1 so that x / sigma^k is encoded as x * u^k (no division terms); "
    "exact, every model satisfies u = 1/s",
    "curvature_matrix_mirrored_from is executed by the merge interpreter (if-conversion of its source) whenever its argument is symbolic",
    "function lists: the repository's own MockLinearObjFuncList with a concrete positive mapping matrix",
    "conf general.inversion.check_reconstruction = False during the runs",
    "np.linalg.cholesky and scipy csc_matrix (log-det terms, evaluated only for their effect on cached matrices) receive the float64 form of "
    "all-concrete object arrays",
]
ASSUMPTIONS = [
    "noise values strictly positive; kernel footprint of every unmasked pixel inside the frame; odd kernel shapes",
    "masks are enumerated / forked, values (data, noise, kernel entries, table values, weights, reconstruction) are solver variables",
    "reference B = C M with C[p,i] = K[c+p-i] built by the harness (own direct convolution), D = B^T N^-1 d, F = B^T N^-1 B + eps on unregularized diagonals",
]
EXPLORER_OPTS = {"timeout_ms": 10000, "max_paths": 20000, "max_candidates": 3}   # generous solver timeout: the host is shared and heavily loaded
BUDGET_S = {"quick": 480, "thorough": 3000}
MAX_REPLAY = 24



def POST_INSTALL():
    from symx import merge
    merge.install_dispatchers()
    _install_linalg_stub()
    _install_mirror_merge()
    _install_csc_boundary()
    if os.environ.get("C04_DEBUG"):
        import faulthandler, signal
        faulthandler.register(signal.SIGUSR1, all_threads=True)


EPS_DIAG = 2.0 ** -10          # configured "no regularization" diagonal term (dyadic so that float and exact arithmetic coincide)

# ----------------------------------------------------------------------------- masks

PATTERNS = {
    "one": [(0, 0)],
    "pair": [(0, 0), (0, 1)],
    "L3": [(0, 0), (1, 0), (1, 1)],
    "row3": [(0, 0), (0, 1), (0, 2)],
    "col3": [(0, 0), (1, 0), (2, 0)],
    "diag3": [(0, 0), (1, 1), (2, 2)],
    "gap3": [(0, 0), (0, 2), (1, 3)],
    "block4": [(0, 0), (0, 1), (1, 0), (1, 1)],
    "zig4": [(0, 1), (1, 0), (1, 1), (2, 0)],
    "cross5": [(0, 1), (1, 0), (1, 1), (1, 2), (2, 1)],
    "T6": [(0, 0), (0, 1), (0, 2), (1, 1), (2, 1), (3, 1)],
    "ring8": [(0, 0), (0, 1), (0, 2), (1, 0), (1, 2), (2, 0), (2, 1), (2, 2)],
    "block9": [(y, x) for y in range(3) for x in range(3)],
    # thorough tier only
    "block12": [(y, x) for y in range(3) for x in range(4)],
    "holes10": [(0, 0), (0, 1), (0, 2), (0, 3), (1, 0), (1, 2), (2, 0), (2, 1), (2, 3), (3, 3)],
    "stair7": [(0, 0), (1, 0), (1, 1), (2, 1), (2, 2), (3, 2), (3, 3)],
    "far4": [(0, 0), (0, 4), (4, 0), (4, 4)],
}


def make_mask(pattern, ky, kx, extra=0):
    """smallest frame (plus `extra` rings) in which the kernel footprint of every unmasked pixel lies inside the frame"""
    pts = PATTERNS[pattern]
    h = max(p[0] for p in pts) + 1
    w = max(p[1] for p in pts) + 1
    my, mx = ky // 2 + extra, kx // 2 + extra
    mask = np.full((h + 2 * my, w + 2 * mx), True)
    for (y, x) in pts:
        mask[y + my, x + mx] = False
    return mask


def positions(mask):
    return [(y, x) for y in range(mask.shape[0]) for x in range(mask.shape[1]) if not mask[y, x]]


# ----------------------------------------------------------------------------- reference (independent of the repository)

def _is0(v):
    return not V.is_sym(v) and float(v) == 0.0


def mm(A, B):
    """matrix product on (object) arrays, skipping concrete zeros"""
    A, B = np.asarray(A), np.asarray(B)
    out = np.zeros((A.shape[0], B.shape[1]), dtype=object)
    for i in range(A.shape[0]):
        for k in range(A.shape[1]):
            a = A[i, k]
            if _is0(a):
                continue
            for j in range(B.shape[1]):
                b = B[k, j]
                if _is0(b):
                    continue
                out[i, j] = out[i, j] + a * b
    return out


def conv_matrix(mask, K):
    """C[p, i] = K[c + p - i]: contribution of the value at unmasked pixel i to the blurred value at unmasked pixel p
    (2D convolution with the kernel centred on its middle pixel; masked pixels carry no flux)"""
    pos = positions(mask)
    idx = {p: k for k, p in enumerate(pos)}
    ky, kx = K.shape
    cy, cx = ky // 2, kx // 2
    C = np.zeros((len(pos), len(pos)), dtype=object)
    for p, (y, x) in enumerate(pos):
        for a in range(ky):
            for b in range(kx):
                q = (y - (a - cy), x - (b - cx))
                if q in idx:
                    C[p, idx[q]] = K[a, b]
    return C


def normal_equations(B, d, s, noreg=(), eps=0.0):
    """D = B^T N^-1 d ; F = B^T N^-1 B (+ eps on the listed diagonal entries)"""
    n, m = B.shape
    w = [1.0 / (s[i] * s[i]) for i in range(n)]
    D = np.zeros(m, dtype=object)
    F = np.zeros((m, m), dtype=object)
    for j in range(m):
        for i in range(n):
            if _is0(B[i, j]):
                continue
            D[j] = D[j] + B[i, j] * (d[i] * w[i])
            for k in range(m):
                if _is0(B[i, k]):
                    continue
                F[j, k] = F[j, k] + (B[i, j] * B[i, k]) * w[i]
    for j in noreg:
        F[j, j] = F[j, j] + eps
    return D, F


def wtilde_reference(mask, K, s):
    """W[i, j] = sum_p K[c+p-i] K[c+p-j] / s_p^2  (p over unmasked pixels)"""
    C = conv_matrix(mask, K)
    n = C.shape[0]
    Cw = np.zeros((n, n), dtype=object)
    for p in range(n):
        w = 1.0 / (s[p] * s[p])
        for i in range(n):
            if not _is0(C[p, i]):
                Cw[p, i] = C[p, i] * w
    return mm(C.T, Cw)


def decode_preload(vals, idxs, lens, n):
    """dense symmetric matrix represented by the sparse upper-triangular preload (diagonal entries are stored halved)"""
    W = np.zeros((n, n), dtype=object)
    k = 0
    for i in range(n):
        for _ in range(int(lens[i])):
            j = int(idxs[k])
            v = vals[k]
            if j == i:
                W[i, i] = W[i, i] + 2.0 * v
            else:
                W[i, j] = W[i, j] + v
                W[j, i] = W[j, i] + v
            k += 1
    return W


def native_from_slim(mask, slim):
    out = np.empty(mask.shape, dtype=object)
    out.fill(np.float64(0.0))
    for k, p in enumerate(positions(mask)):
        out[p] = slim[k] if V.is_sym(slim[k]) else np.float64(slim[k])
    if not any(V.is_sym(e) for e in out.reshape(-1)):
        return out.astype(float)
    return out


def put(A, E, key, actual, expected, split=False):
    """register an obligation; split=True gives one obligation per entry (smaller non-linear queries)"""
    a = hx.unwrap(actual)
    if split and isinstance(a, np.ndarray) and isinstance(expected, np.ndarray) and a.shape == expected.shape and a.size > 1:
        for idx in np.ndindex(*a.shape):
            k = "%s[%s]" % (key, ",".join(str(i) for i in idx))
            A[k], E[k] = a[idx], expected[idx]
    else:
        A[key], E[key] = actual, expected


def base_key(k):
    return k.split("[")[0]


def stop_if_enough(ctx):
    """a case that already holds max_candidates unexplained counterexamples stops exploring further paths
    (a seeded value-dependent branch otherwise multiplies the paths without adding information)"""
    from symx.explore import PathAbort
    if sum(1 for c in ctx.stats.candidates if c.known is None) >= ctx.max_candidates:
        for e in ctx.stack:
            e[1] = False
        raise PathAbort()


def known_ids():
    """ids of recorded findings with status 'known' (set by the driver); C04_ASSUME_FIXED=id1,id2|all drops ids (used to try a proposed fix
    against the unconditional obligations before the known_findings entry is flipped to 'fixed')"""
    ids = [k for k in os.environ.get("VERIF_KNOWN", "").split(",") if k]
    drop = os.environ.get("C04_ASSUME_FIXED", "")
    if drop == "all":
        return []
    return [k for k in ids if k not in drop.split(",")]


def _obj(a, shape=None):
    a = np.asarray(a)
    if shape is not None:
        a = a.reshape(shape)
    return a


# ----------------------------------------------------------------------------- level 1: the w-tilde kernels against the W-tilde specification

def body_wtilde(inp, ky, kx):
    from autoarray.inversion.inversion.imaging import inversion_imaging_util as iu
    mask = np.array(inp["mask"], dtype=bool)
    pos = positions(mask)
    n = len(pos)
    d = _obj(inp["data"]).reshape(-1)[:n]
    s = _obj(inp["noise"]).reshape(-1)[:n]
    K = _obj(inp["kernel"], (ky, kx))
    nfs = np.array(pos, dtype=int).reshape(n, 2)
    d_nat, s_nat = native_from_slim(mask, d), native_from_slim(mask, s)
    A, E = {}, {}
    C = conv_matrix(mask, K)
    A["w_tilde_data"] = hx.attempt(iu.w_tilde_data_imaging_from, image_native=d_nat, noise_map_native=s_nat, kernel_native=K,
                                   native_index_for_slim_index=nfs)
    E["w_tilde_data"] = mm(C.T, np.array([[d[i] * (1.0 / (s[i] * s[i]))] for i in range(n)], dtype=object)).reshape(n)
    Wref = wtilde_reference(mask, K, s)
    A["w_tilde_curvature"] = hx.attempt(iu.w_tilde_curvature_imaging_from, noise_map_native=s_nat, kernel_native=K,
                                        native_index_for_slim_index=nfs)
    E["w_tilde_curvature"] = Wref
    pre = hx.attempt(iu.w_tilde_curvature_preload_imaging_from, noise_map_native=s_nat, kernel_native=K, native_index_for_slim_index=nfs)
    if isinstance(pre, hx.Raised):
        A["preload_decoded"] = pre
    else:
        vals, idxs, lens = pre
        lens_i = [int(v) for v in np.asarray(lens).reshape(-1)]
        idxs_i = [int(v) for v in np.asarray(idxs).reshape(-1)]
        wellformed = len(lens_i) == n and sum(lens_i) == len(idxs_i) == len(np.asarray(vals).reshape(-1))
        k = 0
        for i in range(n):
            row = idxs_i[k:k + lens_i[i]] if wellformed else []
            wellformed = wellformed and all(i <= j < n for j in row) and all(a < b for a, b in zip(row, row[1:]))
            k += lens_i[i] if wellformed else 0
        A["preload_wellformed"] = bool(wellformed)
        E["preload_wellformed"] = True
        A["preload_decoded"] = decode_preload(np.asarray(vals).reshape(-1), idxs_i, lens_i, n) if wellformed else "malformed"
    E["preload_decoded"] = Wref
    return A, E


def _regions(ky, kx, neg_pairs_term):
    """known-finding regions per finding id (only ids with status 'known' are honoured).  While 'nonsquare-shift' is known, every
    non-square kernel lies in its region and failures there are attributed to it alone; 'signed-psf-overlap' then covers square kernels
    (and non-square ones as soon as the shift defect is marked fixed)."""
    ids = known_ids()
    if "nonsquare-shift" in ids and ky != kx:
        return {"nonsquare-shift": z3.BoolVal(True)}
    if "signed-psf-overlap" in ids and neg_pairs_term is not None:
        return {"signed-psf-overlap": neg_pairs_term}
    return {}


def nonsquare_known(ky, kx):
    return ky != kx and "nonsquare-shift" in known_ids()


def _neg_overlap_term(mask, K, s, ctx=None):
    """z3 term: some noise-weighted PSF overlap W[i,j] (i != j) is negative (None if it cannot be).
    With ctx: additionally assume that no symbolic overlap between two different pixels vanishes exactly (generic-overlap assumption:
    the value-dependent branch `noise_value > 0` / `!= 0` then never takes its measure-zero equality arm, on which nlsat is very slow)"""
    W = wtilde_reference(mask, K, s)
    ts = []
    n = W.shape[0]
    conc_neg = False
    for i in range(n):
        for j in range(i + 1, n):
            w = W[i, j]
            if V.is_sym(w):
                t = z3.simplify(V.to_real_term(w))
                if z3.is_rational_value(t):
                    conc_neg = conc_neg or t.numerator_as_long() < 0
                    continue
                ts.append(t < 0)
                if ctx is not None:
                    ctx.assume(t != 0)
            elif float(w) < 0:
                conc_neg = True
    if conc_neg:
        return z3.BoolVal(True)
    return z3.Or(*ts) if ts else None


# symbolic noise values that know their reciprocal ------------------------------

_MONO = {}


def mono_class():
    """Noise proxy sigma^k (k a non-zero integer) over a pair of solver variables (s, u) tied by s*u == 1, s > 0: powers, products and
    reciprocals of the same noise value stay monomials and `x / sigma^k` becomes the product x * u^k, so every quantity the code computes
    from the noise map is a *polynomial* in the u's (z3's nlsat is unreliable on the division terms otherwise; no semantics is changed:
    the term of sigma^-k is u^k and u = 1/s holds in every model)."""
    if "cls" in _MONO:
        return _MONO["cls"]

    class Mono(V.SymReal):
        __slots__ = ("s", "u", "k")

        def __init__(self, s, u, k):
            self.s, self.u, self.k = s, u, k
            base, n = (s, k) if k > 0 else (u, -k)
            t = base
            for _ in range(n - 1):
                t = t * base
            V.SymReal.__init__(self, t)

        def _same(self, o):
            return isinstance(o, Mono) and o.s.eq(self.s)

        def _mk(self, k):
            return Mono(self.s, self.u, k) if k != 0 else np.float64(1.0)

        def __mul__(self, o):
            if self._same(o):
                return self._mk(self.k + o.k)
            return V.SymReal.__mul__(self, o)

        __rmul__ = __mul__

        def __truediv__(self, o):
            if self._same(o):
                return self._mk(self.k - o.k)
            if isinstance(o, Mono):
                return V.SymReal.__mul__(self, o._mk(-o.k))
            return V.SymReal.__truediv__(self, o)

        def __rtruediv__(self, o):
            if isinstance(o, np.ndarray):
                return NotImplemented
            inv = self._mk(-self.k)
            if V._is_num(o):
                if o == 0:
                    return np.float64(0.0)
                if o == 1:
                    return inv
            if V.is_sym(o) or V._is_num(o):
                return inv * o
            return NotImplemented

        def __pow__(self, o):
            if V._is_num(o) and float(o) == int(o) and int(o) != 0:
                return self._mk(self.k * int(o))
            return V.SymReal.__pow__(self, o)

    _MONO["cls"] = Mono
    return Mono


def symbolic_noise(ctx, name, n):
    """n positive symbolic noise values (Mono proxies); registers s > 0 and s*u == 1"""
    Mono = mono_class()
    out = np.empty(n, dtype=object)
    for i in range(n):
        s_, u_ = z3.Real("%s__%d" % (name, i)), z3.Real("%s_inv__%d" % (name, i))
        ctx.assume(z3.And(s_ > 0, u_ > 0, s_ * u_ == 1))
        out[i] = Mono(s_, u_, 1)
    return out


# concrete dyadic material ---------------------------------------------------

def dyadic_kernel(ky, kx, signed=True):
    vals = [0.5, -0.25, 1.0, 0.75, -0.5, 0.25, 1.5, -1.0, 0.125, 2.0, -0.75, 0.375, 1.25, -0.125, 0.625]
    K = np.zeros((ky, kx))
    for a in range(ky):
        for b in range(kx):
            v = vals[(a * 5 + b * 3 + a * b) % len(vals)]
            K[a, b] = v if signed else abs(v)
    if signed == "zeros":              # signed kernel with exact zeros in the corners and one zero edge entry: some overlaps vanish exactly
        for (a, b) in ((0, 0), (0, kx - 1), (ky - 1, 0), (ky - 1, kx - 1), (0, kx // 2)):
            K[a, b] = 0.0
    return K


def pow2_noise(n):
    return np.array([(0.5, 1.0, 2.0, 4.0, 1.0, 0.5, 2.0)[(3 * i + i // 2) % 7] for i in range(n)])


def dyadic_data(n):
    return np.array([(1.0, -0.5, 2.5, 0.75, -3.0, 0.125, 1.5)[(2 * i + i // 3) % 7] for i in range(n)])


def _inputs_for(ctx, mode, mask, ky, kx, signed=True, nsym=None, ksym=None, noise_exp=0):
    n = len(positions(mask))
    if nonsquare_known(ky, kx):
        # while the non-square w-tilde path is a recorded defect for every input, signed kernels add nothing there (and would blur the
        # attribution between the two recorded findings): non-square cases use non-negative kernels until that finding is marked fixed
        signed = False
    data, noise, kernel = dyadic_data(n), pow2_noise(n) * 2.0 ** noise_exp, dyadic_kernel(ky, kx, signed).reshape(-1)   # noise_exp: noise units (2^14.. = raw counts)
    if mode == "data":
        data = V.real_array("d", (n,))
    elif mode == "kernel":
        sym = V.real_array("k", (ky * kx,))
        if ksym is None:
            kernel = sym
        else:                                   # only the listed entries are solver variables, the others stay concrete dyadic
            kernel = np.array(kernel, dtype=object)
            for i in ksym:
                kernel[i % (ky * kx)] = sym[i % (ky * kx)]
    elif mode == "noise":
        sym = symbolic_noise(ctx, "s", n)
        noise = np.array(noise, dtype=object)
        for i in range(n if nsym is None else min(n, nsym)):
            k = (2 * i + 1) % n if nsym is not None and 2 * nsym <= n else i
            noise[k] = sym[k]
    elif mode == "data+noise":
        data = V.real_array("d", (n,))
        noise = symbolic_noise(ctx, "s", n)
    else:
        raise ValueError(mode)
    data2 = V.real_array("e", (n,)) if mode in ("data", "data+noise") else np.array([(-2.0, 0.5, 1.25, -0.75, 3.0, 0.25, -1.5)[(3 * i + 1) % 7] for i in range(n)])
    return {"mask": mask, "data": data, "noise": noise, "kernel": kernel, "data2": data2}


def _mask_for(ctx, pattern, ky, kx, extra):
    if pattern.startswith("all:"):
        h, w = (int(v) for v in pattern[4:].split("x"))
        my, mx = ky // 2 + extra, kx // 2 + extra
        bits = V.bool_array("m", (h, w))
        ctx.assume(z3.Or(*[z3.Not(b.t) for b in bits.reshape(-1)]))
        inner = ctx.concrete_bools(bits)
        mask = np.full((h + 2 * my, w + 2 * mx), True)
        mask[my:my + h, mx:mx + w] = inner
        return mask
    return make_mask(pattern, ky, kx, extra)


def case_wtilde(ctx, pattern, ky, kx, mode, extra=0, signed=True, nsym=None, ksym=None, noise_exp=0):
    stop_if_enough(ctx)
    mask = _mask_for(ctx, pattern, ky, kx, extra)
    ctx.set_case(mask_rows=["".join("#" if m else "." for m in row) for row in mask])
    inputs = _inputs_for(ctx, mode, mask, ky, kx, signed, nsym, ksym, noise_exp)
    n = len(positions(mask))
    neg = _neg_overlap_term(mask, _obj(inputs["kernel"], (ky, kx)), _obj(inputs["noise"]).reshape(-1)[:n], ctx)
    if nonsquare_known(ky, kx) and neg is not None:
        ctx.assume(z3.Not(neg))
    reg_f = _regions(ky, kx, neg)
    reg_d = _regions(ky, kx, None)
    known = {}
    if reg_d:
        known["w_tilde_data"] = reg_d
        known["w_tilde_curvature"] = reg_d
    if reg_f:
        known["preload_decoded"] = reg_f
    hx.run_body(ctx, body_wtilde, inputs, {"ky": ky, "kx": kx}, validate_every=8, known=known or None)



# ----------------------------------------------------------------------------- level 0: the mapping-formalism kernels

def body_mapping_kernels(inp, n, m, noreg, split=False):
    import autoarray as aa
    from autoarray.inversion.inversion.imaging import inversion_imaging_util as iu
    from autoarray.inversion.inversion import inversion_util as u
    B = _obj(inp["B"], (n, m))
    d = _obj(inp["data"]).reshape(n)
    s = _obj(inp["noise"]).reshape(n)
    r = _obj(inp["recon"]).reshape(m)
    noreg = [int(i) for i in noreg]
    A, E = {}, {}
    Dref, Fref = normal_equations(B, d, s)
    _, Fref_eps = normal_equations(B, d, s, noreg, EPS_DIAG)
    A["data_vector"] = hx.attempt(iu.data_vector_via_blurred_mapping_matrix_from, blurred_mapping_matrix=B, image=d, noise_map=s)
    E["data_vector"] = Dref
    st = aa.SettingsInversion(no_regularization_add_to_curvature_diag_value=EPS_DIAG)
    put(A, E, "curvature_matrix_plain", hx.attempt(u.curvature_matrix_via_mapping_matrix_from, mapping_matrix=B, noise_map=s), Fref, split)
    put(A, E, "curvature_matrix_diag_term", hx.attempt(u.curvature_matrix_via_mapping_matrix_from, mapping_matrix=B, noise_map=s, add_to_curvature_diag=True,
                                                       no_regularization_index_list=noreg, settings=st), Fref_eps, split)
    A["mapped_reconstructed_data"] = hx.attempt(u.mapped_reconstructed_data_via_mapping_matrix_from, mapping_matrix=B, reconstruction=r)
    E["mapped_reconstructed_data"] = mm(B, r.reshape(m, 1)).reshape(n)
    return A, E


def case_mapping_kernels(ctx, n, m, noreg, mode, nsym=1):
    stop_if_enough(ctx)
    B = V.real_array("B", (n, m))
    d = V.real_array("d", (n,))
    r = V.real_array("r", (m,))
    s = pow2_noise(n)
    if mode == "noise":
        # symbolic positive noise; the blurred matrix keeps one symbolic column, the rest concrete dyadic (keeps the terms quadratic)
        s = np.array(s, dtype=object)
        ss = symbolic_noise(ctx, "s", n)
        for i in range(nsym):
            s[(2 * i + 1) % n] = ss[(2 * i + 1) % n]
        Bc = np.array([[(0.5, -1.0, 0.25, 2.0, -0.75, 1.5)[(3 * i + 2 * j + i * j) % 6] for j in range(m)] for i in range(n)], dtype=object)
        Bc[:, 0] = B[:, 0]
        B = Bc
        d = dyadic_data(n)
    hx.run_body(ctx, body_mapping_kernels, {"B": B, "data": d, "noise": s, "recon": r}, {"n": n, "m": m, "noreg": noreg, "split": mode == "noise"}, validate_every=1)


def body_mirrored(inp, m):
    from autoarray.inversion.inversion import inversion_util as u
    from symx import merge
    Cm = _obj(inp["C"], (m, m))
    with merge.merging():
        out = hx.attempt(u.curvature_matrix_mirrored_from, curvature_matrix=Cm)
    A, E = {"mirrored": out}, {}
    exp = np.zeros((m, m), dtype=object)
    for i in range(m):
        for j in range(m):
            a, b = Cm[i, j], Cm[j, i]
            if V.is_sym(a) or V.is_sym(b):
                from symx import shim
                exp[i, j] = shim._ite(a != 0, a, b)
            else:
                exp[i, j] = a if a != 0 else b
    E["mirrored"] = exp
    return A, E


def case_mirrored(ctx, m, kind):
    stop_if_enough(ctx)
    Cm = V.real_array("c", (m, m))
    if kind == "upper":
        for i in range(m):
            for j in range(i):
                Cm[i, j] = np.float64(0.0)
    elif kind == "blocks":            # block-wise fill as in the w-tilde formalism: [0:h, h:m] filled, [h:m, 0:h] left zero, diagonal blocks symmetric
        h = m // 2
        for i in range(m):
            for j in range(i):
                Cm[i, j] = Cm[j, i] if (i < h) == (j < h) else np.float64(0.0)
    else:                             # any matrix whose mirror entries are equal or one of them is zero
        for i in range(m):
            for j in range(i):
                a, b = Cm[i, j].t, Cm[j, i].t
                ctx.assume(z3.Or(a == b, a == 0, b == 0))
    hx.run_body(ctx, body_mirrored, {"C": Cm}, {"m": m}, validate_every=1)


# ----------------------------------------------------------------------------- linear objects (real classes, concrete)

def rect_mapper(mask, mesh_shape, sub_size, distort, reg_coeff):
    import autoarray as aa
    over_sampler = aa.OverSamplerUniform(mask=mask, sub_size=sub_size)
    grid = np.array(over_sampler.over_sampled_grid, dtype=float)
    g2 = grid.copy()
    if distort:
        g2[:, 0] = grid[:, 0] + distort * 0.25 * grid[:, 1] * grid[:, 1] - distort * 0.125 * grid[:, 1]
        g2[:, 1] = grid[:, 1] - distort * 0.5 * grid[:, 0] + distort * 0.0625 * grid[:, 0] * grid[:, 1]
    mesh = aa.mesh.Rectangular(shape=tuple(mesh_shape))
    mapper_grids = mesh.mapper_grids_from(mask=mask, border_relocator=None, source_plane_data_grid=aa.Grid2DIrregular(values=g2))
    reg = aa.reg.Constant(coefficient=reg_coeff) if reg_coeff else None
    return aa.Mapper(mapper_grids=mapper_grids, over_sampler=over_sampler, regularization=reg)


def delaunay_mapper(mask, sub_size, reg_coeff):
    import autoarray as aa
    over_sampler = aa.OverSamplerUniform(mask=mask, sub_size=sub_size)
    grid = np.array(over_sampler.over_sampled_grid, dtype=float)
    lo, hi = grid.min(axis=0) - 0.75, grid.max(axis=0) + 0.75
    cy, cx = (lo + hi) / 2.0
    verts = np.array([[lo[0], lo[1]], [lo[0], hi[1]], [hi[0], lo[1]], [hi[0], hi[1]], [cy + 0.125, cx - 0.25], [cy - 0.4, hi[1] - 0.6]])
    mesh = aa.mesh.Delaunay()
    mapper_grids = mesh.mapper_grids_from(mask=mask, border_relocator=None, source_plane_data_grid=aa.Grid2DIrregular(values=grid),
                                          source_plane_mesh_grid=aa.Grid2DIrregular(values=verts))
    return aa.Mapper(mapper_grids=mapper_grids, over_sampler=over_sampler, regularization=aa.reg.Constant(coefficient=reg_coeff))


def func_list(mask, params, variant=0):
    import autoarray as aa
    pos = positions(np.array(mask))
    M = np.zeros((len(pos), params))
    for i, (y, x) in enumerate(pos):
        for j in range(params):
            M[i, j] = 0.25 * (1 + (2 * y + 3 * x + 5 * j + variant + y * x * (j + 1)) % 7)       # strictly positive, dyadic
    return aa.m.MockLinearObjFuncList(parameters=params, grid=aa.Grid2D.from_mask(mask=mask), mapping_matrix=M)


def linear_obj_from(spec, mask):
    """'R33s1' rectangular 3x3 mesh sub-size 1; suffix d = distorted source plane, n = no regularization; 'D2' Delaunay sub-size 2; 'F2' function list with 2 functions"""
    if spec[0] == "R":
        my, mx, sub = int(spec[1]), int(spec[2]), int(spec[4])
        flags = spec[5:]
        coeff = 0.0 if "n" in flags else (1.0, 2.0, 0.5)[(my + mx + sub) % 3]
        return rect_mapper(mask, (my, mx), sub, (1.0 if "d" in flags else 0.0) + (0.5 if "e" in flags else 0.0), coeff)
    if spec[0] == "D":
        return delaunay_mapper(mask, int(spec[1]), 1.0)
    if spec[0] == "F":
        return func_list(mask, int(spec[1]), variant=len(spec))
    raise ValueError(spec)


def unique_tables(mapper):
    from symx import shim
    um = mapper.unique_mappings
    return (np.asarray(shim.normalise(um.data_to_pix_unique)).astype(int), np.asarray(shim.normalise(um.data_weights), dtype=float),
            np.asarray(shim.normalise(um.pix_lengths)).astype(int), int(mapper.params))


def dense_from_unique(dtpu, w, pl, params):
    """mapping matrix represented by the unique-mapping tables: M[data, pix] = sum of the weights listed for that pair"""
    n = dtpu.shape[0]
    M = np.zeros((n, params), dtype=object)
    for i in range(n):
        for k in range(int(pl[i])):
            M[i, int(dtpu[i, k])] = M[i, int(dtpu[i, k])] + w[i, k]
    return M


# ----------------------------------------------------------------------------- level 2: consumers of the tables (tables / weights symbolic under their representation invariant)

def _tables_setup(pattern, ky, kx, specs, extra=0):
    """concrete sparsity pattern of the preload (from the real preload on an all-positive kernel) and real unique mappings"""
    import autoarray as aa
    from symx import shim
    from autoarray.inversion.inversion.imaging import inversion_imaging_util as iu
    mask2d = make_mask(pattern, ky, kx, extra)
    pos = positions(mask2d)
    n = len(pos)
    with shim.native():
        Kp = np.abs(dyadic_kernel(ky, kx)) + 0.0
        s_nat = native_from_slim(mask2d, np.ones(n))
        nfs = np.array(pos, dtype=int).reshape(n, 2)
        # structural sparsity: pairs whose kernel footprints overlap (independent of the repository)
        lens, idxs = [], []
        for i in range(n):
            row = [j for j in range(i, n) if abs(pos[i][0] - pos[j][0]) <= 2 * (ky // 2) and abs(pos[i][1] - pos[j][1]) <= 2 * (kx // 2)]
            lens.append(len(row))
            idxs.extend(row)
        mask = aa.Mask2D(mask=mask2d, pixel_scales=1.0)
        mappers = [linear_obj_from(sp, mask) for sp in specs]
        tabs = [unique_tables(mp) for mp in mappers]
        conv = aa.Convolver(mask=mask, kernel=aa.Kernel2D.no_mask(values=dyadic_kernel(ky, kx), pixel_scales=1.0))
        frames = (np.asarray(conv.image_frame_1d_lengths).astype(int), np.asarray(conv.image_frame_1d_indexes).astype(int),
                  np.asarray(shim.normalise(conv.image_frame_1d_kernels), dtype=float))
    return mask2d, n, np.array(lens, dtype=int), np.array(idxs, dtype=int), tabs, frames


def body_consumers(inp, pattern, ky, kx, specs, q=2, extra=0):
    from autoarray.inversion.inversion.imaging import inversion_imaging_util as iu
    from autoarray.inversion.inversion import inversion_util as u
    mask2d, n, lens, idxs, tabs, frames = _tables_setup(pattern, ky, kx, specs, extra)
    vals = _obj(inp["vals"]).reshape(-1)[:len(idxs)]
    wtd = _obj(inp["wtd"]).reshape(n)
    cw = _obj(inp["cw"], (n, q))
    A, E = {}, {}
    W = decode_preload(vals, idxs, lens, n)
    U = np.zeros((n, n), dtype=object)          # raw stored upper-triangular entries
    k = 0
    for i in range(n):
        for _ in range(int(lens[i])):
            U[i, int(idxs[k])] = vals[k]
            k += 1
    Ms, ws = [], []
    for t, (dtpu, w, pl, P) in enumerate(tabs):
        wsym = _obj(inp["w%d" % t], w.shape)
        ws.append(wsym)
        Ms.append(dense_from_unique(dtpu, wsym, pl, P))
    Kc = dyadic_kernel(ky, kx)
    C = conv_matrix(mask2d, Kc)
    for t, (dtpu, w, pl, P) in enumerate(tabs):
        M, wsym = Ms[t], ws[t]
        r = _obj(inp["r%d" % t]).reshape(P)
        A["curvature_from_preload_%d" % t] = hx.attempt(
            iu.curvature_matrix_via_w_tilde_curvature_preload_imaging_from, curvature_preload=vals, curvature_indexes=idxs, curvature_lengths=lens,
            data_to_pix_unique=dtpu, data_weights=wsym, pix_lengths=pl, pix_pixels=P)
        E["curvature_from_preload_%d" % t] = mm(M.T, mm(W, M))
        A["data_vector_from_w_tilde_data_%d" % t] = hx.attempt(iu.data_vector_via_w_tilde_data_imaging_from, w_tilde_data=wtd, data_to_pix_unique=dtpu,
                                                                data_weights=wsym, pix_lengths=pl, pix_pixels=P)
        E["data_vector_from_w_tilde_data_%d" % t] = mm(M.T, wtd.reshape(n, 1)).reshape(P)
        A["mapped_data_from_unique_%d" % t] = hx.attempt(u.mapped_reconstructed_data_via_image_to_pix_unique_from, data_to_pix_unique=dtpu,
                                                          data_weights=wsym, pix_lengths=pl, reconstruction=r)
        E["mapped_data_from_unique_%d" % t] = mm(M, r.reshape(P, 1)).reshape(n)
        A["off_diag_data_linear_func_%d" % t] = hx.attempt(iu.curvature_matrix_off_diags_via_data_linear_func_matrix_from, data_linear_func_matrix=cw,
                                                            data_to_pix_unique=dtpu, data_weights=wsym, pix_lengths=pl, pix_pixels=P)
        E["off_diag_data_linear_func_%d" % t] = mm(M.T, cw)
        A["off_diag_mapper_linear_func_%d" % t] = hx.attempt(
            iu.curvature_matrix_off_diags_via_mapper_and_linear_func_curvature_vector_from, data_to_pix_unique=dtpu, data_weights=wsym, pix_lengths=pl,
            pix_pixels=P, curvature_weights=cw, image_frame_1d_lengths=frames[0], image_frame_1d_indexes=frames[1], image_frame_1d_kernels=frames[2])
        E["off_diag_mapper_linear_func_%d" % t] = mm(M.T, mm(C.T, cw))
        for t2, (dtpu2, w2, pl2, P2) in enumerate(tabs):
            if t2 == t:
                continue
            A["off_diag_%d_%d" % (t, t2)] = hx.attempt(
                iu.curvature_matrix_off_diags_via_w_tilde_curvature_preload_imaging_from, curvature_preload=vals, curvature_indexes=idxs,
                curvature_lengths=lens, data_to_pix_unique_0=dtpu, data_weights_0=wsym, pix_lengths_0=pl, pix_pixels_0=P,
                data_to_pix_unique_1=dtpu2, data_weights_1=ws[t2], pix_lengths_1=pl2, pix_pixels_1=P2)
            E["off_diag_%d_%d" % (t, t2)] = mm(M.T, mm(U, Ms[t2]))
    A["data_linear_func_matrix"] = hx.attempt(iu.data_linear_func_matrix_from, curvature_weights_matrix=cw, image_frame_1d_lengths=frames[0],
                                              image_frame_1d_indexes=frames[1], image_frame_1d_kernels=frames[2])
    E["data_linear_func_matrix"] = mm(C.T, cw)
    return A, E


def case_consumers(ctx, pattern, ky, kx, specs, mode, q=2, extra=0):
    stop_if_enough(ctx)
    mask2d, n, lens, idxs, tabs, frames = _tables_setup(pattern, ky, kx, specs, extra)
    inputs = {}
    if mode == "tables":         # table values / w_tilde_data / function columns / reconstruction symbolic, weights concrete
        inputs["vals"] = V.real_array("v", (len(idxs),))
        inputs["wtd"] = V.real_array("t", (n,))
        inputs["cw"] = V.real_array("c", (n, q))
        for t, (dtpu, w, pl, P) in enumerate(tabs):
            inputs["w%d" % t] = w
            inputs["r%d" % t] = V.real_array("r%d" % t, (P,))
    else:                        # unique-mapping weights symbolic, everything else concrete dyadic
        inputs["vals"] = np.array([(0.5, -0.25, 1.0, 2.0, -1.5, 0.75)[(2 * k + k // 4) % 6] for k in range(len(idxs))])
        inputs["wtd"] = dyadic_data(n)
        inputs["cw"] = np.array([[(1.0, -0.5, 0.25, 2.0)[(i + 2 * j) % 4] for j in range(q)] for i in range(n)])
        for t, (dtpu, w, pl, P) in enumerate(tabs):
            ws = np.array(w, dtype=object)
            sym = V.real_array("w%d_" % t, w.shape)
            for i in range(w.shape[0]):
                for k in range(int(pl[i])):
                    ws[i, k] = sym[i, k]
            inputs["w%d" % t] = ws
            inputs["r%d" % t] = np.array([(1.0, -2.0, 0.5, 3.0, -0.25)[(3 * k) % 5] for k in range(P)])
    ctx.set_case(pattern=pattern)
    hx.run_body(ctx, body_consumers, inputs, {"pattern": pattern, "ky": ky, "kx": kx, "specs": specs, "q": q, "extra": extra}, validate_every=1)



# ----------------------------------------------------------------------------- level 3: aa.Inversion in both formalisms against the normal equations

_INV_CACHE = {}


def exact_inverse(Amat):
    """(N, den): integer matrix and integer with A^-1 = N / den exactly (floats are dyadic rationals); fraction-free Gauss-Jordan"""
    Amat = np.ascontiguousarray(np.asarray(Amat, dtype=float))
    key = (Amat.shape, Amat.tobytes())
    hit = _INV_CACHE.get(key)
    if hit is not None:
        return hit
    n = Amat.shape[0]
    ratios = [[float(Amat[i, j]).as_integer_ratio() for j in range(n)] for i in range(n)]
    L = max(d for row in ratios for (_, d) in row)
    M = [[num * (L // den) for (num, den) in ratios[i]] + [L if i == j else 0 for j in range(n)] for i in range(n)]
    prev = 1
    for k in range(n):
        if M[k][k] == 0:
            sw = next((r for r in range(k + 1, n) if M[r][k] != 0), None)
            if sw is None:
                raise np.linalg.LinAlgError("singular matrix")
            M[k], M[sw] = M[sw], M[k]
        pk = M[k][k]
        rk = M[k]
        for i in range(n):
            if i == k:
                continue
            f = M[i][k]
            ri = M[i]
            M[i] = [(pk * ri[j] - f * rk[j]) // prev for j in range(2 * n)]
        prev = pk
    res = ([row[n:] for row in M], prev)
    if len(_INV_CACHE) < 64:
        _INV_CACHE[key] = res
    return res


def exact_solve(Amat, b):
    """exact rational solution of A x = b for a concrete matrix A (floats taken as exact rationals) and a symbolic / concrete right-hand side"""
    from fractions import Fraction
    N, den = exact_inverse(Amat)
    n = len(N)
    out = np.zeros(n, dtype=object)
    dent = z3.RealVal(den)
    for i in range(n):
        terms, conc = [], Fraction(0)
        for j in range(n):
            if N[i][j] == 0:
                continue
            bj = b[j]
            if V.is_sym(bj):
                terms.append(V.to_real_term(bj) * z3.RealVal(N[i][j]))
            else:
                conc += N[i][j] * Fraction(float(bj))
        if terms:
            if conc != 0:
                terms.append(z3.RealVal(str(conc)))
            out[i] = V.SymReal(z3.Sum(terms) / dent if len(terms) > 1 else terms[0] / dent)
        else:
            out[i] = np.float64(float(conc / den))
    return out


class _LinalgStub:
    """np.linalg as seen by autoarray.inversion.inversion.inversion_util: solve() with a concrete matrix and a symbolic right-hand side
    returns the exact solution (contract: LAPACK's solve is the exact linear solve, i.e. float rounding is outside the model)"""

    def __init__(self, real):
        self._real = real

    def __getattr__(self, name):
        return getattr(self._real, name)

    def cholesky(self, a, *args, **kw):
        from symx import shim
        return self._real.cholesky(np.asarray(shim.normalise(a), dtype=float), *args, **kw)

    def solve(self, a, b):
        from symx import shim
        a = shim.normalise(a)
        if shim.has_sym(b) and not shim.has_sym(a):
            return exact_solve(np.asarray(a, dtype=float), np.asarray(b, dtype=object).reshape(-1))
        return self._real.solve(a, shim.normalise(b))


def _install_linalg_stub():
    from symx import shim
    import numpy as _np
    if not isinstance(getattr(shim.NPFacade, "linalg", None), property):
        stub = _LinalgStub(_np.linalg)
        shim.NPFacade.linalg = property(lambda self: stub)


def _install_csc_boundary():
    """library boundary: scipy's csc_matrix (imported by name in inversion/abstract.py) refuses object arrays - hand it the float64 form of the
    (all-concrete) matrix"""
    from autoarray.inversion.inversion import abstract as ab
    from symx import shim
    real = ab.csc_matrix
    if getattr(real, "_c04_wrapped", False):
        return

    def csc(a, *args, **kw):
        return real(shim.normalise(a), *args, **kw)

    csc._c04_wrapped = True
    ab.csc_matrix = csc


def _install_mirror_merge():
    """curvature_matrix_mirrored_from branches on `entry != 0` for every entry: run that kernel through the merge interpreter
    (if-conversion) whenever it is called with symbolic entries, instead of forking 2^(entries) paths"""
    from autoarray.inversion.inversion import inversion_util as u
    from symx import merge, shim
    disp = u.curvature_matrix_mirrored_from
    if getattr(disp, "_c04_wrapped", False):
        return

    def mirrored(curvature_matrix):
        if shim.has_sym(curvature_matrix) and merge.MODE[0] != "merge":
            old = merge.MODE[0]
            merge.MODE[0] = "merge"
            try:
                return disp(curvature_matrix)
            finally:
                merge.MODE[0] = old
        return disp(curvature_matrix)

    mirrored._c04_wrapped = True
    mirrored.__wrapped_kernel__ = getattr(disp, "__wrapped_kernel__", disp)
    u.curvature_matrix_mirrored_from = mirrored


def build_dataset(mask2d, d, s, K, via="direct"):
    """the imaging dataset with the un-normalised PSF K; `via` selects a public construction variant that must give the same dataset:
    direct | apply_mask (un-masked Imaging, then apply_mask) | over_sampling (direct, then apply_over_sampling) | noise_scaling"""
    import autoarray as aa
    mask = aa.Mask2D(mask=mask2d, pixel_scales=1.0)
    psf = aa.Kernel2D.no_mask(values=K, pixel_scales=1.0)
    if via == "apply_mask":
        s_full = native_from_slim(mask2d, s)
        s_full = np.array(s_full, dtype=object)
        s_full[mask2d] = np.float64(1.0)                  # the un-masked frame needs positive noise everywhere
        from symx import shim
        full = aa.Imaging(data=aa.Array2D.no_mask(values=native_from_slim(mask2d, d), pixel_scales=1.0),
                          noise_map=aa.Array2D.no_mask(values=shim.normalise(s_full), pixel_scales=1.0), psf=psf, use_normalized_psf=False)
        return mask, full.apply_mask(mask=mask)
    data = aa.Array2D(values=native_from_slim(mask2d, d), mask=mask)
    noise = aa.Array2D(values=native_from_slim(mask2d, s), mask=mask)
    ds = aa.Imaging(data=data, noise_map=noise, psf=psf, use_normalized_psf=False)
    if via == "over_sampling":
        ds = ds.apply_over_sampling(over_sampling=aa.OverSamplingDataset(uniform=aa.OverSamplingUniform(sub_size=2)))
    return mask, ds


def _total_params(mask2d, specs):
    import autoarray as aa
    from symx import shim
    with shim.native():
        mask = aa.Mask2D(mask=np.array(mask2d, dtype=bool), pixel_scales=1.0)
        return int(sum(linear_obj_from(sp, mask).params for sp in specs))


def body_inversion(inp, ky, kx, specs, solve=False, split=False, via="direct"):
    import autoarray as aa
    from autoconf import conf
    mask2d = np.array(inp["mask"], dtype=bool)
    pos = positions(mask2d)
    n = len(pos)
    d = _obj(inp["data"]).reshape(-1)[:n]
    s = _obj(inp["noise"]).reshape(-1)[:n]
    K = _obj(inp["kernel"], (ky, kx))
    A, E = {}, {}
    built = hx.attempt(build_dataset, mask2d, d, s, K, via)
    if isinstance(built, hx.Raised):
        return {"dataset": built}, {"dataset": "constructed"}
    mask, dataset = built
    objs = [linear_obj_from(sp, mask) for sp in specs]
    from symx import shim
    Ms = [np.asarray(shim.normalise(np.asarray(o.mapping_matrix)), dtype=float) for o in objs]
    M = np.hstack(Ms)
    m = M.shape[1]
    rec = _obj(inp["recon"]).reshape(-1)[:m]
    noreg, off = [], 0
    for o, Mo in zip(objs, Ms):
        if o.regularization is None:
            noreg += list(range(off, off + Mo.shape[1]))
        off += Mo.shape[1]
    C = conv_matrix(mask2d, K)
    B = mm(C, M)
    Dref, Fref = normal_equations(B, d, s, noreg, EPS_DIAG)
    all_funcs = all(sp[0] == "F" for sp in specs)
    old_check = conf.instance["general"]["inversion"]["check_reconstruction"]
    conf.instance["general"]["inversion"]["check_reconstruction"] = False      # the degenerate-solution guard is not part of the property
    try:
        for tag, wt in (("map", False), ("wt", True)):
            st = aa.SettingsInversion(use_w_tilde=wt, use_positive_only_solver=False, no_regularization_add_to_curvature_diag_value=EPS_DIAG)
            # two inversion objects per formalism, read in opposite orders (the quantities are cached properties that share arrays):
            #   "" : matrices first, then the history (curvature_reg_matrix, reconstruction, log-det terms), then the matrices AGAIN ("_after")
            #   "_hfirst" : the history first, the matrices afterwards
            for sfx in ("", "_hfirst"):
                inv = hx.attempt(lambda: aa.Inversion(dataset=dataset, linear_obj_list=objs, settings=st))
                if isinstance(inv, hx.Raised):
                    A[tag + ".inversion" + sfx], E[tag + ".inversion" + sfx] = inv, "constructed"
                    continue

                def read_matrices(sf, full=True):
                    if full:
                        put(A, E, tag + ".operated_mapping_matrix" + sf, hx.attempt(lambda: np.array(inv.operated_mapping_matrix)), B, split)
                    put(A, E, tag + ".data_vector" + sf, hx.attempt(lambda: np.array(inv.data_vector)), Dref, split)
                    F = hx.attempt(lambda: np.array(inv.curvature_matrix))       # copy, so that later in-place updates cannot alias the reading
                    put(A, E, tag + ".curvature_matrix" + sf, F, Fref, split)
                    if full and not isinstance(F, hx.Raised) and getattr(F, "shape", None) == (m, m):
                        A[tag + ".curvature_symmetric" + sf] = F - F.T
                        E[tag + ".curvature_symmetric" + sf] = np.zeros((m, m))

                def read_history(sf):
                    H = np.asarray(shim.normalise(np.asarray(inv.regularization_matrix)), dtype=float)
                    Href = np.zeros((m, m), dtype=object)
                    for i in range(m):
                        for j in range(m):
                            Href[i, j] = Fref[i, j] + H[i, j]
                    put(A, E, tag + ".curvature_reg_matrix" + sf, hx.attempt(lambda: np.array(inv.curvature_reg_matrix)),
                        shim.normalise(Href) if not shim.has_sym(Href) else Href, split)
                    if solve:
                        Fc = shim.normalise(Fref)
                        A[tag + ".reconstruction" + sf] = hx.attempt(lambda: np.array(inv.reconstruction))
                        E[tag + ".reconstruction" + sf] = exact_solve(np.asarray(Fc, dtype=float) + H, Dref) if not shim.has_sym(Fc) else "concrete curvature expected"
                        if any(o.regularization is not None for o in objs):
                            # log-determinant terms: evaluated for their effect on the cached matrices (their values belong to C08)
                            hist = [hx.attempt(lambda: float(inv.log_det_curvature_reg_matrix_term)), hx.attempt(lambda: float(inv.log_det_regularization_matrix_term))]
                            bad = [h_ for h_ in hist if isinstance(h_, hx.Raised)]
                            A[tag + ".log_det_terms_evaluated" + sf] = repr(bad[0]) if bad else "ok"
                            E[tag + ".log_det_terms_evaluated" + sf] = "ok"
                        inv.__dict__.pop("reconstruction", None)

                if sfx == "":
                    A[tag + ".formalism"] = type(inv).__name__
                    E[tag + ".formalism"] = "InversionImagingWTilde" if (wt and not all_funcs) else "InversionImagingMapping"
                    read_matrices("")
                    read_history("")
                    read_matrices("_after", full=False)
                else:
                    read_history(sfx)
                    read_matrices(sfx)
                # mapped reconstructed data for an arbitrary reconstruction vector (injected in place of the solver's output)
                inv.__dict__["reconstruction"] = rec
                put(A, E, tag + ".mapped_reconstructed_data" + sfx, hx.attempt(lambda: np.array(hx.unwrap(inv.mapped_reconstructed_data))),
                    mm(B, rec.reshape(m, 1)).reshape(n), split)
                if sfx == "":
                    put(A, E, tag + ".curvature_matrix_last", hx.attempt(lambda: np.array(inv.curvature_matrix)), Fref, split)
        # ---- dataset history: a second dataset that shares the noise map, convolver, grids and w-tilde tables of the first one but carries
        # OTHER data (the documented use of DatasetInterface), inverted after the first one; then the first dataset once more
        if "data2" in inp:
            d2 = _obj(inp["data2"]).reshape(-1)[:n]
            D2ref, _ = normal_equations(B, d2, s, noreg, EPS_DIAG)
            data2 = aa.Array2D(values=native_from_slim(mask2d, d2), mask=mask)
            for tag, wt in (("map", False), ("wt", True)):
                st = aa.SettingsInversion(use_w_tilde=wt, use_positive_only_solver=False, no_regularization_add_to_curvature_diag_value=EPS_DIAG)

                def ds2():
                    return aa.DatasetInterface(data=data2, noise_map=dataset.noise_map, convolver=dataset.convolver,
                                               w_tilde=dataset.w_tilde if (wt and not all_funcs) else None, grids=dataset.grids)

                inv2 = hx.attempt(lambda: aa.Inversion(dataset=ds2(), linear_obj_list=objs, settings=st))
                if isinstance(inv2, hx.Raised):
                    A[tag + ".inversion_ds2"], E[tag + ".inversion_ds2"] = inv2, "constructed"
                    continue
                put(A, E, tag + ".data_vector_ds2", hx.attempt(lambda: np.array(inv2.data_vector)), D2ref, split)
                put(A, E, tag + ".curvature_matrix_ds2", hx.attempt(lambda: np.array(inv2.curvature_matrix)), Fref, split)
                if solve:
                    H = np.asarray(shim.normalise(np.asarray(inv2.regularization_matrix)), dtype=float)
                    Fc = shim.normalise(Fref)
                    A[tag + ".reconstruction_ds2"] = hx.attempt(lambda: np.array(inv2.reconstruction))
                    E[tag + ".reconstruction_ds2"] = exact_solve(np.asarray(Fc, dtype=float) + H, D2ref) if not shim.has_sym(Fc) else "concrete curvature expected"
                if wt and not all_funcs and not shim.has_sym(s):
                    # a dataset with ANOTHER (concrete) noise map that is handed the first dataset's w-tilde tables: the inversion must either
                    # reject the stale tables (InversionException) or still return B^T N^-1 B for the noise map it was given
                    s3 = np.array([float(v) for v in s]) * 2.0
                    s3[0] = float(s[0]) * (1.0 + 2.0 ** -16)
                    _, F3ref = normal_equations(B, d, s3, noreg, EPS_DIAG)
                    ds3 = aa.DatasetInterface(data=dataset.data, noise_map=aa.Array2D(values=native_from_slim(mask2d, s3), mask=mask),
                                              convolver=dataset.convolver, w_tilde=dataset.w_tilde, grids=dataset.grids)
                    F3 = hx.attempt(lambda: np.array(aa.Inversion(dataset=ds3, linear_obj_list=objs, settings=st).curvature_matrix))
                    if isinstance(F3, hx.Raised) and F3.name == "InversionException":
                        A[tag + ".stale_tables"], E[tag + ".stale_tables"] = "rejected", "rejected"
                    else:
                        put(A, E, tag + ".curvature_matrix_stale_tables", F3, F3ref, split)
                inv3 = hx.attempt(lambda: aa.Inversion(dataset=dataset, linear_obj_list=objs, settings=st))
                put(A, E, tag + ".data_vector_ds1_again", inv3 if isinstance(inv3, hx.Raised) else hx.attempt(lambda: np.array(inv3.data_vector)), Dref, split)
    finally:
        conf.instance["general"]["inversion"]["check_reconstruction"] = old_check
    return A, E


def case_inversion(ctx, pattern, ky, kx, specs, mode, extra=0, signed=True, solve=False, nsym=None, ksym=None, noise_exp=0, via="direct"):
    stop_if_enough(ctx)
    mask = _mask_for(ctx, pattern, ky, kx, extra)
    ctx.set_case(mask_rows=["".join("#" if m else "." for m in row) for row in mask])
    inputs = _inputs_for(ctx, mode, mask, ky, kx, signed, nsym, ksym, noise_exp)
    n = len(positions(mask))
    inputs["recon"] = V.real_array("r", (_total_params(mask, specs),))
    neg = _neg_overlap_term(mask, _obj(inputs["kernel"], (ky, kx)), _obj(inputs["noise"]).reshape(-1)[:n], ctx)
    if nonsquare_known(ky, kx) and neg is not None:
        ctx.assume(z3.Not(neg))
    reg_f = _regions(ky, kx, neg)
    reg_d = _regions(ky, kx, None)

    def known_for(key):
        b = base_key(key)
        for sf in ("_after", "_hfirst", "_last", "_ds2", "_ds1_again"):
            if b.endswith(sf):
                b = b[:-len(sf)]
        if b in ("wt.curvature_matrix", "wt.reconstruction", "wt.curvature_reg_matrix"):
            return reg_f
        if b in ("wt.data_vector", "wt.curvature_symmetric", "wt.inversion", "wt.mapped_reconstructed_data", "wt.formalism", "wt.operated_mapping_matrix"):
            return reg_d
        return None

    class _K(dict):
        def __contains__(self, k):
            return bool(known_for(k))

        def get(self, k, default=None):
            return known_for(k) or default

    known = _K() if (reg_f or reg_d) and not all(sp[0] == "F" for sp in specs) else None
    if known is not None:
        known["_"] = 1
    tol = None
    if any(sp[0] == "D" for sp in specs):
        # barycentric weights are not dyadic: float64 and exact arithmetic differ by rounding, so these cases carry a 1e-9 tolerance
        # and bounded data / reconstruction values (a relative tolerance is meaningless for unbounded values)
        tol = 1e-9
        for arr in (inputs["data"], inputs["data2"], inputs["recon"]):
            for e in np.asarray(arr, dtype=object).reshape(-1):
                if V.is_sym(e):
                    ctx.assume(z3.And(e.t >= -1000, e.t <= 1000))
    hx.run_body(ctx, body_inversion, inputs, {"ky": ky, "kx": kx, "specs": specs, "solve": solve, "via": via, "split": mode in ("kernel", "noise", "data+noise") or tol is not None},
                validate_every=4, known=known, tol=tol)


BODIES = {"case_inversion": body_inversion, "case_wtilde": body_wtilde, "case_mapping_kernels": body_mapping_kernels, "case_mirrored": body_mirrored, "case_consumers": body_consumers}



KSYM_33 = [[0, 4, 7], [1, 3, 8], [2, 5, 6], [4, 6, 8]]


def cases(tier):
    q = tier == "quick"
    out = []
    W, I, Cn = "case_wtilde", "case_inversion", "case_consumers"
    # ---- level 0: mapping-formalism kernels, mirroring
    out.append(("case_mapping_kernels", {"n": 4, "m": 3, "noreg": [0, 2], "mode": "all"}))
    out.append(("case_mapping_kernels", {"n": 6, "m": 4, "noreg": [1], "mode": "all"}))
    out.append(("case_mapping_kernels", {"n": 5, "m": 3, "noreg": [0, 1, 2], "mode": "noise", "nsym": 5}))
    out.append(("case_mapping_kernels", {"n": 4, "m": 4, "noreg": [], "mode": "noise", "nsym": 4}))
    for m in ((4, 5) if q else (4, 5, 7)):
        for kind in ("upper", "blocks", "any"):
            out.append(("case_mirrored", {"m": m, "kind": kind}))
    # ---- level 1: w-tilde tables against the W-tilde specification
    nonsq = [(1, 3), (3, 1), (3, 5), (5, 3)]
    out.append((W, {"pattern": "all:2x3" if q else "all:3x3", "ky": 3, "kx": 3, "mode": "data"}, {} if q else {"split": 4}))
    out.append((W, {"pattern": "all:2x2", "ky": 3, "kx": 3, "mode": "data", "extra": 1}))
    for pat in ("cross5", "ring8", "block9") + (() if q else ("T6",)):
        out.append((W, {"pattern": pat, "ky": 3, "kx": 3, "mode": "data"}))
    out.append((W, {"pattern": "cross5", "ky": 5, "kx": 5, "mode": "data"}))
    out.append((W, {"pattern": "diag3", "ky": 3, "kx": 3, "mode": "data", "signed": "zeros"}))
    out.append((W, {"pattern": "zig4", "ky": 3, "kx": 3, "mode": "noise", "signed": "zeros"}))
    for (ky, kx) in nonsq:
        out.append((W, {"pattern": "all:2x2", "ky": ky, "kx": kx, "mode": "data"}))
        out.append((W, {"pattern": "cross5", "ky": ky, "kx": kx, "mode": "data", "extra": 1}))
        out.append((W, {"pattern": "L3", "ky": ky, "kx": kx, "mode": "kernel", "ksym": [0, ky * kx // 2, ky * kx - 1]}))
        out.append((W, {"pattern": "block4", "ky": ky, "kx": kx, "mode": "noise"}))
    out.append((W, {"pattern": "pair", "ky": 3, "kx": 3, "mode": "kernel"}))                 # the whole kernel symbolic
    for pat, ks in (("L3", [0, 2, 4, 7]), ("L3", [1, 3, 5, 8]), ("diag3", [0, 4, 8, 2]), ("diag3", [0, 6, 8, 5])):
        out.append((W, {"pattern": pat, "ky": 3, "kx": 3, "mode": "kernel", "ksym": ks}))
    for i, pat in enumerate(("block4", "gap3", "zig4", "cross5") + (() if q else ("ring8", "T6"))):
        for ks in (KSYM_33[i % 4:i % 4 + 1] if q else KSYM_33):
            out.append((W, {"pattern": pat, "ky": 3, "kx": 3, "mode": "kernel", "ksym": ks}))
    out.append((W, {"pattern": "block4", "ky": 3, "kx": 3, "mode": "kernel", "ksym": [0, 8], "extra": 1}))
    out.append((W, {"pattern": "L3", "ky": 5, "kx": 5, "mode": "kernel", "ksym": [0, 12, 18]}))
    out.append((W, {"pattern": "L3", "ky": 3, "kx": 3, "mode": "noise"}))
    out.append((W, {"pattern": "block4", "ky": 3, "kx": 3, "mode": "data+noise"}))
    out.append((W, {"pattern": "cross5", "ky": 3, "kx": 3, "mode": "noise"}))
    out.append((W, {"pattern": "ring8", "ky": 3, "kx": 3, "mode": "noise", "signed": False}))
    out.append((W, {"pattern": "all:2x2", "ky": 3, "kx": 3, "mode": "data+noise", "signed": False}))
    # ---- level 2: consumers of the tables
    for (pat, ky, kx, specs) in [("cross5", 3, 3, ["R33s1", "R34s2d"]), ("ring8", 3, 3, ["R33s2d", "R43s1"]), ("block9", 3, 3, ["R33s2e", "R44s2d"]),
                                 ("cross5", 3, 5, ["R33s2d", "R33s1"]), ("T6", 5, 3, ["R34s2e"])] + \
            ([] if q else [("block9", 5, 5, ["R44s2d", "R33s1", "R35s2e"]), ("ring8", 1, 3, ["R33s2d", "R34s1"])]):
        for mode in ("tables", "weights"):
            out.append((Cn, {"pattern": pat, "ky": ky, "kx": kx, "specs": specs, "mode": mode}))
    # ---- level 3: aa.Inversion, both formalisms
    lists = [["R33s1"], ["R33s2d"], ["R33s1", "R34s2d"], ["R34s2d", "R33s1"], ["R33s1", "F2"], ["F2", "R33s1"], ["F1", "F2"],
             ["R33s1", "F1", "R34s2d"], ["R33s1", "R34s2d", "R43s2e"], ["R43s2e", "R33s1", "R34s2d"], ["R33s1n"], ["F1", "R33s1n"], ["R33s2d", "R33s1n"],
             ["F2", "R33s2d", "F1"], ["R33s4d", "F1"], ["F2", "R33s1", "F2b"], ["R33s2d", "F3b", "F3"]]
    for specs in lists:        # data symbolic, non-negative PSF: D, reconstruction, mapped data decided for every data vector in both formalisms
        out.append((I, {"pattern": "cross5", "ky": 3, "kx": 3, "specs": specs, "mode": "data", "signed": False, "solve": True}))
    for specs in (["R33s1", "R34s2d"], ["F2", "R33s2d"]):
        out.append((I, {"pattern": "zig4", "ky": 3, "kx": 3, "specs": specs, "mode": "data", "signed": True, "solve": True}))
    out.append((I, {"pattern": "all:2x2", "ky": 3, "kx": 3, "specs": ["R33s2d", "F1"], "mode": "data", "signed": False}))
    out.append((I, {"pattern": "block4", "ky": 5, "kx": 5, "specs": ["R33s2d", "F1"], "mode": "data", "signed": False, "solve": True}))
    out.append((I, {"pattern": "ring8", "ky": 3, "kx": 3, "specs": ["R34s2d", "F1", "R33s1"], "mode": "data", "signed": False, "solve": True}))
    out.append((I, {"pattern": "block9", "ky": 3, "kx": 3, "specs": ["R33s2e", "R44s2d"], "mode": "data", "signed": False, "solve": True, "extra": 1}))
    out.append((I, {"pattern": "ring8", "ky": 3, "kx": 3, "specs": ["D1", "R33s1"], "mode": "data", "signed": False}))
    out.append((I, {"pattern": "cross5", "ky": 3, "kx": 3, "specs": ["D2"], "mode": "data", "signed": False}))
    for (ky, kx) in nonsq:
        # signed values in non-square kernels (automatically reduced to non-negative ones only while 'nonsquare-shift' is recorded as known)
        out.append((I, {"pattern": "cross5", "ky": ky, "kx": kx, "specs": ["R33s2d", "F1"], "mode": "data", "signed": True, "solve": True}))
        out.append((I, {"pattern": "zig4", "ky": ky, "kx": kx, "specs": ["R33s1", "R34s2d"], "mode": "noise", "signed": True}))
    out.append((I, {"pattern": "cross5", "ky": 1, "kx": 3, "specs": ["R33s2d", "F1"], "mode": "data", "signed": False, "solve": True}))
    out.append((I, {"pattern": "cross5", "ky": 5, "kx": 3, "specs": ["R33s2d", "R33s1n"], "mode": "data", "signed": False, "solve": True}))
    out.append((I, {"pattern": "L3", "ky": 3, "kx": 3, "specs": ["R33s1"], "mode": "kernel", "ksym": [0, 4, 7]}))
    out.append((I, {"pattern": "pair", "ky": 3, "kx": 3, "specs": ["F1", "R33s2d"], "mode": "kernel"}))
    out.append((I, {"pattern": "block4", "ky": 3, "kx": 3, "specs": ["R33s1", "F1"], "mode": "kernel", "ksym": [0, 4, 7]}))
    out.append((I, {"pattern": "L3", "ky": 3, "kx": 3, "specs": ["R33s2d", "R33s1n"], "mode": "kernel", "ksym": [1, 3, 8]}))
    out.append((I, {"pattern": "zig4", "ky": 3, "kx": 3, "specs": ["F2b", "F2", "R33s1"], "mode": "noise"}))
    out.append((I, {"pattern": "L3", "ky": 5, "kx": 5, "specs": ["R33s1", "F1"], "mode": "kernel", "ksym": [0, 12, 18]}))
    # public construction variants of the same dataset (derived objects must keep the un-normalised PSF, data and noise)
    out.append((I, {"pattern": "cross5", "ky": 3, "kx": 3, "specs": ["R33s2d", "F1"], "mode": "data", "solve": True, "via": "over_sampling"}))
    out.append((I, {"pattern": "zig4", "ky": 3, "kx": 3, "specs": ["R33s1", "R34s2d"], "mode": "data", "solve": True, "via": "apply_mask"}))
    out.append((I, {"pattern": "block4", "ky": 3, "kx": 3, "specs": ["R33s1"], "mode": "kernel", "ksym": [0, 4, 7], "via": "over_sampling"}))
    out.append((I, {"pattern": "L3", "ky": 3, "kx": 1, "specs": ["F1", "R33s2d"], "mode": "kernel", "via": "apply_mask"}))
    # smallest legal PSF: a single pixel of value k (not 1: datasets are built un-normalised) scales B by k
    out.append((W, {"pattern": "cross5", "ky": 1, "kx": 1, "mode": "kernel"}))
    out.append((W, {"pattern": "all:2x2", "ky": 1, "kx": 1, "mode": "data+noise"}))
    out.append((I, {"pattern": "cross5", "ky": 1, "kx": 1, "specs": ["R33s2d", "F2", "R34s1"], "mode": "data", "solve": True}))
    out.append((I, {"pattern": "zig4", "ky": 1, "kx": 1, "specs": ["R33s1", "R34s2d"], "mode": "kernel"}))
    out.append((I, {"pattern": "block4", "ky": 1, "kx": 1, "specs": ["F1", "R33s2d"], "mode": "noise"}))
    out.append((I, {"pattern": "one", "ky": 1, "kx": 1, "specs": ["R33s1"], "mode": "kernel"}))
    out.append((I, {"pattern": "one", "ky": 3, "kx": 3, "specs": ["R33s2d", "F1"], "mode": "data", "solve": True}))
    out.append((I, {"pattern": "L3", "ky": 1, "kx": 3, "specs": ["R33s1", "F1"], "mode": "kernel"}))
    out.append((I, {"pattern": "L3", "ky": 3, "kx": 1, "specs": ["F1", "R33s1"], "mode": "kernel"}))
    # noise in large units (raw counts): every w-tilde overlap is ~1e-9..1e-11, the formalisms must still agree exactly
    out.append((I, {"pattern": "cross5", "ky": 3, "kx": 3, "specs": ["R33s1", "R34s2d"], "mode": "data", "signed": True, "solve": True, "noise_exp": 16}))
    out.append((I, {"pattern": "zig4", "ky": 3, "kx": 3, "specs": ["F1", "R33s2d"], "mode": "data", "signed": False, "solve": True, "noise_exp": 14}))
    out.append((I, {"pattern": "block4", "ky": 3, "kx": 3, "specs": ["R33s1"], "mode": "kernel", "ksym": [0, 4, 7], "noise_exp": 17}))
    out.append((W, {"pattern": "cross5", "ky": 3, "kx": 3, "mode": "data", "noise_exp": 16}))
    out.append((I, {"pattern": "L3", "ky": 3, "kx": 3, "specs": ["R33s1"], "mode": "noise"}))
    out.append((I, {"pattern": "block4", "ky": 3, "kx": 3, "specs": ["R33s1", "F1"], "mode": "noise"}))
    out.append((I, {"pattern": "cross5", "ky": 3, "kx": 3, "specs": ["F1", "R33s2d", "R33s1n"], "mode": "noise", "signed": False}))
    out.append((I, {"pattern": "zig4", "ky": 3, "kx": 3, "specs": ["R33s2d", "R34s1"], "mode": "data+noise", "signed": False}))
    if not q:
        import itertools
        for perm in itertools.permutations(["R33s2d", "F2", "R34s2e"]):
            out.append((I, {"pattern": "ring8", "ky": 3, "kx": 3, "specs": list(perm), "mode": "data", "signed": False, "solve": True}))
        for perm in itertools.permutations(["R33s1", "R34s2d", "R43s2e"]):
            out.append((I, {"pattern": "block9", "ky": 3, "kx": 3, "specs": list(perm), "mode": "data", "signed": False, "solve": True}))
        out.append((I, {"pattern": "all:2x3", "ky": 3, "kx": 3, "specs": ["R33s2d", "F1"], "mode": "data", "signed": False}, {"split": 3}))
        out.append((I, {"pattern": "cross5", "ky": 3, "kx": 3, "specs": ["R33s1", "R34s2d"], "mode": "kernel", "ksym": [0, 4, 7]}))
        out.append((I, {"pattern": "cross5", "ky": 3, "kx": 3, "specs": ["R33s1", "R34s2d"], "mode": "noise"}))
        out.append((I, {"pattern": "ring8", "ky": 3, "kx": 3, "specs": ["R33s2d", "F2", "R34s2e"], "mode": "noise", "signed": False}))
        out.append((I, {"pattern": "T6", "ky": 3, "kx": 5, "specs": ["R33s2d", "F1", "R34s1"], "mode": "data", "signed": False, "solve": True}))
        out.append((I, {"pattern": "ring8", "ky": 3, "kx": 3, "specs": ["D2", "F1", "R33s2d"], "mode": "data", "signed": False}))
        out.extend(_deep_cases())
    return out


def _deep_cases():
    """thorough tier only: the next sizes up under the same obligations"""
    import itertools
    W, I, Cn = "case_wtilde", "case_inversion", "case_consumers"
    out = []
    allk = [(1, 1), (3, 3), (5, 5), (1, 3), (3, 1), (3, 5), (5, 3)]
    big = ("block12", "holes10", "stair7", "far4", "block9", "ring8", "T6")
    # L0
    out.append(("case_mapping_kernels", {"n": 9, "m": 6, "noreg": [0, 3, 5], "mode": "all"}))
    out.append(("case_mapping_kernels", {"n": 8, "m": 5, "noreg": [2], "mode": "noise", "nsym": 8}))
    for kind in ("upper", "blocks", "any"):
        out.append(("case_mirrored", {"m": 9, "kind": kind}))
    # L1: every mask of a 3x4 window (3x3 kernel), of a 3x3 window for every other kernel shape, data symbolic; 2x3 windows with data+noise
    out.append((W, {"pattern": "all:3x4", "ky": 3, "kx": 3, "mode": "data"}, {"split": 6}))
    for (ky, kx) in allk:
        if (ky, kx) != (3, 3):
            out.append((W, {"pattern": "all:3x3", "ky": ky, "kx": kx, "mode": "data"}, {"split": 4}))
        out.append((W, {"pattern": "all:2x3", "ky": ky, "kx": kx, "mode": "data+noise"}, {"split": 2}))
        for pat in big:
            out.append((W, {"pattern": pat, "ky": ky, "kx": kx, "mode": "data", "extra": 1, "noise_exp": 15}))
            out.append((W, {"pattern": pat, "ky": ky, "kx": kx, "mode": "data", "signed": "zeros"}))
    # L1: all noise values symbolic on the larger patterns (signed kernels on the smaller ones, non-negative beyond)
    for pat in ("ring8", "block9", "stair7", "T6", "far4"):
        out.append((W, {"pattern": pat, "ky": 3, "kx": 3, "mode": "noise", "signed": pat in ("stair7", "far4")}))
    for (ky, kx) in [(1, 3), (3, 1), (3, 5), (5, 3), (5, 5), (1, 1)]:
        out.append((W, {"pattern": "cross5", "ky": ky, "kx": kx, "mode": "noise", "signed": False}))
        out.append((W, {"pattern": "zig4", "ky": ky, "kx": kx, "mode": "noise"}))
    # L1: more symbolic kernel-entry subsets, larger kernels / patterns
    subsets33 = KSYM_33 + [[0, 1, 2], [3, 4, 5], [0, 3, 6], [2, 4, 6]]
    for pat in ("block4", "zig4", "cross5", "gap3", "stair7", "far4"):
        for ks in subsets33[4:]:
            out.append((W, {"pattern": pat, "ky": 3, "kx": 3, "mode": "kernel", "ksym": ks}))
    for pat in ("block4", "zig4", "cross5"):
        for (ky, kx) in [(5, 5), (3, 5), (5, 3), (1, 3), (3, 1)]:
            nk = ky * kx
            for ks in ([0, nk // 2, nk - 1], [1, nk // 2 - 1, nk - 2]):
                out.append((W, {"pattern": pat, "ky": ky, "kx": kx, "mode": "kernel", "ksym": ks}))
    for pat in ("block9", "block12"):
        out.append((W, {"pattern": pat, "ky": 3, "kx": 3, "mode": "kernel", "ksym": [4, 5]}))
    # L2: consumers on the larger masks / meshes
    for (pat, ky, kx, specs) in [("block12", 3, 3, ["R44s2d", "R35s2e"]), ("holes10", 3, 3, ["R33s4d", "R55s2d"]), ("stair7", 5, 5, ["R34s2e", "R43s1"]),
                                 ("block12", 3, 5, ["R55s2e", "R33s1", "R44s4d"]), ("far4", 3, 3, ["R33s2d", "R34s2e"]), ("holes10", 5, 3, ["R45s2d"])]:
        for mode in ("tables", "weights"):
            out.append((Cn, {"pattern": pat, "ky": ky, "kx": kx, "specs": specs, "mode": mode, "q": 3}))
    # L3: every order of further three-object lists (data symbolic, exact solve), larger masks / meshes, all kernel shapes
    for specs, pat, k in [(["R33s2d", "F2", "F2b"], "holes10", (3, 3)), (["R44s2d", "R33s1n", "F1"], "block12", (3, 3)), (["R33s4d", "R35s2e", "R43s1"], "stair7", (3, 3)),
                          (["F3", "R33s2e", "F3b"], "T6", (3, 5)), (["R34s2d", "F1", "R33s1n"], "block9", (5, 5))]:
        for perm in itertools.permutations(specs):
            out.append((I, {"pattern": pat, "ky": k[0], "kx": k[1], "specs": list(perm), "mode": "data", "signed": True, "solve": True}))
    for (ky, kx) in allk:
        out.append((I, {"pattern": "all:2x2", "ky": ky, "kx": kx, "specs": ["R33s2d", "F2", "R34s1"], "mode": "data", "signed": True, "solve": True}))
        out.append((I, {"pattern": "holes10", "ky": ky, "kx": kx, "specs": ["R44s2d", "F1"], "mode": "data", "signed": True, "solve": True, "noise_exp": 16}))
        out.append((I, {"pattern": "zig4", "ky": ky, "kx": kx, "specs": ["R33s2d", "F2", "R33s1n"], "mode": "noise", "signed": True}))
        out.append((I, {"pattern": "block4", "ky": ky, "kx": kx, "specs": ["R33s2d", "R34s1"], "mode": "data+noise", "signed": True}))
        nk = ky * kx
        out.append((I, {"pattern": "block4", "ky": ky, "kx": kx, "specs": ["F1", "R33s2d"], "mode": "kernel", "ksym": sorted({0, nk // 2, nk - 1})}))
    out.append((I, {"pattern": "all:2x3", "ky": 3, "kx": 3, "specs": ["R33s2d", "F2", "R34s1"], "mode": "data", "signed": True, "solve": True}, {"split": 4}))
    out.append((I, {"pattern": "all:3x3", "ky": 3, "kx": 3, "specs": ["R33s2d", "F1"], "mode": "data", "signed": True}, {"split": 5}))
    for pat in ("ring8", "block9", "stair7"):
        out.append((I, {"pattern": pat, "ky": 3, "kx": 3, "specs": ["R33s2d", "R34s1"], "mode": "noise", "signed": False}))
        out.append((I, {"pattern": pat, "ky": 3, "kx": 3, "specs": ["R33s1", "F2"], "mode": "data+noise", "signed": True}))
    for pat, ks in (("cross5", [1, 3, 8]), ("zig4", [2, 5, 6]), ("gap3", [4, 6, 8]), ("block4", [0, 1, 2])):
        out.append((I, {"pattern": pat, "ky": 3, "kx": 3, "specs": ["R33s2d", "F1", "R33s1n"], "mode": "kernel", "ksym": ks}))
    for specs in (["D2", "R33s2d"], ["R34s1", "D1", "F2"], ["D2", "F1"]):
        for pat in ("block9", "holes10"):
            out.append((I, {"pattern": pat, "ky": 3, "kx": 3, "specs": specs, "mode": "data", "signed": True}))
    # ---- second layer
    # L1: every mask of a 4x4 window (65535 masks), 3x3 kernel, data symbolic; every mask of a 3x4 window for the 1-pixel-wide kernels
    out.append((W, {"pattern": "all:4x4", "ky": 3, "kx": 3, "mode": "data"}, {"split": 7}))
    for (ky, kx) in [(1, 1), (1, 3), (3, 1)]:
        out.append((W, {"pattern": "all:3x4", "ky": ky, "kx": kx, "mode": "data"}, {"split": 5}))
    out.append((W, {"pattern": "all:3x3", "ky": 3, "kx": 3, "mode": "data+noise", "signed": True}, {"split": 5}))
    # L1: all noise values symbolic, signed kernels of every shape on the larger patterns; further symbolic kernel-entry subsets
    for (ky, kx) in allk:
        for pat in ("ring8", "block9", "stair7", "holes10", "block12"):
            out.append((W, {"pattern": pat, "ky": ky, "kx": kx, "mode": "noise", "signed": True}))
    for pat in ("ring8", "T6", "block9", "holes10", "block12", "stair7"):
        for ks in subsets33:
            out.append((W, {"pattern": pat, "ky": 3, "kx": 3, "mode": "kernel", "ksym": ks}))
    for pat in ("ring8", "stair7", "holes10"):
        for (ky, kx) in [(5, 5), (3, 5), (5, 3), (1, 3), (3, 1), (1, 1)]:
            nk = ky * kx
            out.append((W, {"pattern": pat, "ky": ky, "kx": kx, "mode": "kernel", "ksym": sorted({0, nk // 2, nk - 1})}))
    # L3: all masks of a 2x3 window for every kernel shape (mapper + two-column function list, exact solve)
    for (ky, kx) in allk:
        out.append((I, {"pattern": "all:2x3", "ky": ky, "kx": kx, "specs": ["R33s2d", "F2"], "mode": "data", "signed": True, "solve": True}, {"split": 3}))
    # L3: every order of five more three-object lists
    for specs, pat, k in [(["R33s1", "R33s2d", "R33s4d"], "cross5", (1, 1)), (["F1", "F2", "R34s2e"], "stair7", (1, 3)), (["R35s2d", "F2", "R33s1n"], "ring8", (3, 1)),
                          (["R44s4d", "R33s2e", "F1"], "far4", (5, 3)), (["R33s2d", "F2b", "R34s1"], "block12", (3, 3))]:
        for perm in itertools.permutations(specs):
            out.append((I, {"pattern": pat, "ky": k[0], "kx": k[1], "specs": list(perm), "mode": "data", "signed": True, "solve": True, "extra": 1 if pat == "cross5" else 0}))
    # L3: noise / data+noise / kernel-entry families over more object mixes, patterns and kernel shapes
    mixes = [["R33s1"], ["R33s2d", "F1"], ["F2", "R34s1"], ["R33s2d", "R34s1", "F1"], ["R33s1n", "R33s2e"], ["F1", "F2", "R33s2d"]]
    for i, specs in enumerate(mixes):
        for j, pat in enumerate(("cross5", "ring8", "stair7", "far4")):
            ky, kx = allk[(i + 2 * j) % len(allk)]
            out.append((I, {"pattern": pat, "ky": ky, "kx": kx, "specs": specs, "mode": "noise", "signed": True, "noise_exp": 0 if (i + j) % 2 else 15}))
            out.append((I, {"pattern": pat, "ky": ky, "kx": kx, "specs": specs, "mode": "data+noise", "signed": (i + j) % 2 == 0}))
            nk = ky * kx
            if pat != "ring8":
                out.append((I, {"pattern": pat, "ky": ky, "kx": kx, "specs": specs, "mode": "kernel", "ksym": sorted({(i + j) % nk, nk // 2, nk - 1})}))
    return out


def _scale_equal(a, e, rel=1e-7):
    """replay comparison that is covariant under a rescaling of the noise units: arrays are compared relative to the largest
    magnitude of the expected array (hx.concrete_equal's 1e-7*(1+|e|) band would hide every discrepancy in quantities that are
    themselves of order 1/noise^2 << 1e-7)"""
    from symx import shim
    if isinstance(a, (hx.Raised, str)) or isinstance(e, (hx.Raised, str)) or a is None or e is None:
        return hx.concrete_equal(a, e)
    try:
        aa_ = np.asarray(shim.normalise(hx.unwrap(a)), dtype=float)
        ee_ = np.asarray(shim.normalise(hx.unwrap(e)), dtype=float)
    except (TypeError, ValueError):
        return hx.concrete_equal(a, e)
    if aa_.shape != ee_.shape:
        return False
    if aa_.size == 0:
        return True
    if not (np.isfinite(aa_).all() and np.isfinite(ee_).all()):
        return hx.concrete_equal(a, e)
    scale = float(np.abs(ee_).max())
    if scale == 0.0:
        return bool(np.abs(aa_).max() == 0.0) or hx.concrete_equal(a, e, 1e-12)
    return bool(np.abs(aa_ - ee_).max() <= rel * scale)


def replay(cand):
    """run the case's body natively on the float64 counterexample (only the arguments the body takes are forwarded); outputs are compared
    relative to the scale of the expected array (see _scale_equal)"""
    import inspect
    body = BODIES[cand["case_fn"]]
    kw = dict(cand["case_kwargs"])
    accepted = set(inspect.signature(body).parameters) - {"inp"}
    inp = hx.to_float_struct(cand["case"])
    actual, expected = body(inp, **{k: v for k, v in kw.items() if k in accepted})
    bad = [k for k in expected if k not in actual or not _scale_equal(actual[k], expected[k])]
    if bad:
        ob = str(cand.get("obligation", ""))
        k = ob if ob in bad else (base_key(ob) if base_key(ob) in bad else bad[0])
        return True, "outputs differ from the reference on the real code: %s; e.g. %s: actual=%s expected=%s" % (
            bad, k, hx._short(actual.get(k)), hx._short(expected[k]))
    return False, "real code agrees with the reference on this input (%d outputs)" % len(expected)
