"""C06 - mapping matrices conserve flux and encode the claimed interpolation (rectangular / Delaunay mappers,
dense matrix and sparse unique mappings)."""
from fractions import Fraction

import numpy as np
import z3

from symx import hx, values as V
from symx.explore import PathAbort

PROPERTY = "C06"
FUNCTIONS = [
    "autoarray.inversion.pixelization.mappers.mapper_util.mapping_matrix_from",
    "autoarray.inversion.pixelization.mappers.mapper_util.data_slim_to_pixelization_unique_from",
    "autoarray.inversion.pixelization.mappers.mapper_util.pix_indexes_for_sub_slim_index_delaunay_from",
    "autoarray.inversion.pixelization.mappers.mapper_util.pixel_weights_delaunay_from",
    "autoarray.inversion.pixelization.mesh.mesh_util.delaunay_triangle_area_from",
    "autoarray.inversion.pixelization.mesh.mesh_util.rectangular_neighbors_from",
    "autoarray.geometry.geometry_util.grid_pixel_centres_2d_slim_from",
    "autoarray.geometry.geometry_util.grid_pixel_indexes_2d_slim_from",
    "autoarray.geometry.geometry_util.central_scaled_coordinate_2d_from",
    "autoarray.structures.mesh.rectangular_2d.Mesh2DRectangular.overlay_grid",
    "autoarray.structures.mesh.rectangular_2d.Mesh2DRectangular.neighbors",
    "autoarray.structures.mesh.delaunay_2d.Mesh2DDelaunay.neighbors",
    "autoarray.inversion.pixelization.mesh.rectangular.Rectangular.mapper_grids_from",
    "autoarray.inversion.pixelization.mappers.rectangular.MapperRectangular.pix_sub_weights",
    "autoarray.inversion.pixelization.mappers.delaunay.MapperDelaunay.pix_sub_weights",
    "autoarray.inversion.pixelization.mappers.abstract.AbstractMapper.mapping_matrix",
    "autoarray.inversion.pixelization.mappers.abstract.AbstractMapper.unique_mappings",
    "autoarray.inversion.pixelization.mappers.abstract.AbstractMapper.neighbors",
    "autoarray.inversion.pixelization.mappers.abstract.AbstractMapper.pixel_signals_from",
    "autoarray.inversion.pixelization.mappers.mapper_util.adaptive_pixel_signals_from",
    "autoarray.inversion.linear_obj.unique_mappings.UniqueMappings.__init__",
    "autoarray.operators.over_sampling.uniform.OverSamplerUniform.sub_fraction",
    "autoarray.operators.over_sampling.uniform.OverSamplerUniform.slim_for_sub_slim",
]
BOUNDS = {
    "quick": "SYMBOLIC (solver variables): the source-plane (y,x) position of every sub-pixel; interpolation weights and index tables of the "
             "kernel-level checks. ENUMERATED: data masks (all 15 masks of 2x2 by forking, fixed 1x1/1x2/1x3 otherwise), per-pixel sub-size maps "
             "from a list (sizes 1..3, adaptive), rectangular mesh shapes 3x3,3x4,4x3 (mapper) and 3x3..3x7 (overlay geometry), bounding boxes of the "
             "anchored rectangular cases from a list of 4 (which sub-pixels attain the box: listed), overlay geometry with every coordinate symbolic and "
             "every assignment of the 4 extremes to 2 points / listed assignments for 3 and 6 points, one mapper case with symbolic box; some sub-pixels are "
             "confined to listed blocks of cells / listed triangles (their coordinates stay symbolic) to bound the number of paths, at least one "
             "sub-pixel per case ranges over the whole mesh / whole plane; Delaunay vertex sets v4,v5,v6,v7 (dyadic, general position), positions within "
             "+-4 of the centroid; index tables: all tables with <=7 mappings over <=3 source pixels by forking (symbolic weights), symbolic tables "
             "(merge interpreter) for <=3 mappings per data pixel; neighbour lists: every history of 2 rectangular meshes with shapes in 3..6 x 3..6, every "
             "history of 3 meshes with equal pixel count and shapes in 3..8, single meshes 3..8, every ordered pair of 6 Delaunay vertex sets - through "
             "overlay_grid / the constructor / mapper.neighbors / source_plane_mesh_grid.neighbors; fan vertex sets fan7 / fan14 (degree-6 vertex) with the "
             "sub-pixels of one data pixel spread over triangles touching 7 (sub 2) / 13 (sub 3) distinct vertices; histories on one mapper object: "
             "pixel_signals_from(signal_scale in {1,2}) before / between pix_sub_weights, mapping_matrix, unique_mappings in 3 listed orders, adapt data "
             "symbolic (rectangular, and Delaunay with one data pixel) or from a concrete list (Delaunay with several data pixels); Delaunay source planes "
             "(vertices and symbolic positions) also scaled by the dyadic factors 2^-12 and 2^-20 (thorough: 2^-8 as well); Delaunay vertices supplied as ndarray or as python list (listed cases); one Delaunay and one rectangular case with "
             "sub-size 4",
    "thorough": "same scheme with sub sizes 1..4, meshes up to 7x8, masks of 2x3 by forking, vertex set v9, two free points per Delaunay case, symbolic-box "
                "mapper case with a free third point, every assignment of the extremes for 3 points, index tables with up to 10 mappings; neighbour histories: "
                "pairs 3..8, equal-pixel triples 3..10, singles 3..12, triples of Delaunay sets",
}
OUTSIDE = [
    "Voronoi natural-neighbour mapper (excluded by the property: external C library absent)",
    "the Delaunay triangulation itself and scipy's find_simplex (compiled qhull): the triangulation of each listed vertex set is computed natively and trusted; "
    "points within qhull's tolerance of a facet may be assigned differently than by exact containment",
    "neighbour lists have no real-valued input: they are decided per HISTORY of meshes (shapes / vertex-set indices are solver integers concretised "
    "by forking, each history evaluated in a forked pristine process image); Delaunay adjacency is compared with the edges of the natively computed "
    "scipy triangulation of the listed vertex sets only; histories longer than 3 meshes and shapes beyond the stated ranges are outside",
    "rectangular cells: points closer than 1e-9 pixel to a cell line are excluded from the end-to-end matrix equality (float64 rounding of the overlay "
    "scales makes the line itself uncertain by ~1e-16); the containment obligation covers them with bounds widened by the same 1e-9 pixel",
    "float64 rounding in general (exact real arithmetic; 1e-9 relative tolerance where the code accumulates concrete floats such as 9 x fl(1/9))",
    "vertex sets / meshes / sub-size maps beyond the listed ones; more than 2 unconfined sub-pixels per case",
    "mapper-object histories other than the 3 listed call orders; the VALUE returned by pixel_signals_from (not part of C06; only its effect on the mapper's "
    "other products is checked); symbolic signal_scale (the code raises to that power) and symbolic adapt data for Delaunay mappers with more than one data "
    "pixel (bilinear comparisons in np.max: the solver does not terminate)",
]
STUBS = [
    "scipy.spatial.Delaunay.find_simplex on symbolic points: replaced by the harness-chosen simplex index t per sub-pixel (forked over every simplex and -1, or "
    "pinned by the case) under the contract 't >= 0: all three barycentric coordinates of the point in simplex t are >= 0' / 't = -1: in every simplex some "
    "barycentric coordinate is < 0'; all other attributes (simplices, points, vertex_neighbor_vertices) come from the real natively computed object; "
    "concrete replays/validation runs use the real find_simplex",
    "np.min / np.max of arrays holding proxies (harness patch of the facade): an entry entailed by the path condition to be the extreme is returned "
    "directly, otherwise the comparison forks (no semantic change, avoids if-then-else chains inside divisors)",
    "np.abs of a proxy (harness patch): returns x or -x when the path condition entails the sign (two entailment queries), else the usual if-then-else",
    "branch conditions are rewritten to sum-of-monomials form (z3.simplify som=True) before feasibility checks (pure rewriting)",
    "neighbour histories run in an os.fork() child of the worker (and every task runs in a fresh worker, MAXTASKS=1) so that process-wide state of the "
    "repository cannot leak between paths; the child returns plain lists",
]
ASSUMPTIONS = [
    "Delaunay cases: the sub-pixel lies in the closed simplex reported for it (find_simplex contract)",
    "divisions executed by the code add 'divisor != 0' to the path condition (engine rule); for points in a non-degenerate triangle the divisor is the triangle area",
    "anchored rectangular cases: the listed anchor sub-pixels attain the bounding box (concrete dyadic values), all other coordinates lie inside it",
]
EXPLORER_OPTS = {"timeout_ms": 60000, "max_paths": 20000}
BUDGET_S = {"quick": 600, "thorough": 2300}
MAXTASKS = 1          # a fresh worker process per task: no process-wide state of the repo survives from one case to the next
TOL = 1e-9
# tolerance only where concrete float accumulation is involved (e.g. nine times fl(1/9)); everything else is exact
TOLS = {k: TOL for k in ("e2e_mapping_matrix", "e2e_unique_decoded", "rows_sum_to_one", "unique_equals_dense", "mesh_centres", "sub_fraction")}
BAND = 1e-9          # decision margin (in units of one mesh pixel) around rectangular cell boundaries

# which sub-size each unmasked pixel gets (first D entries are used)
SUB_PATTERNS = {"a": [2, 1, 1, 2, 1, 2], "b": [1, 2, 1, 1, 2, 1], "c": [1, 1, 1, 1, 1, 1], "d": [3, 1, 2, 1, 1, 1],
                "e": [2, 2, 2, 2, 2, 2], "f": [4, 1, 1, 1, 1, 1], "g": [1, 3, 1, 2, 1, 1]}
# bounding boxes (y_min, y_max, x_min, x_max) of the source-plane grid for the anchored rectangular cases (dyadic)
BOXES = {"A": (-1.0, 1.0, -1.0, 1.0), "B": (0.5, 2.0, -3.0, -1.0), "C": (-2.5, -0.25, 1.0, 1.75), "D": (-0.5, 3.5, -0.125, 0.875)}
# Delaunay vertex sets, (y, x), dyadic coordinates, general position (no 4 cocircular, no 3 collinear)
VERTS = {
    "v5": [[0.0, 0.0], [2.0, 0.5], [0.5, 2.0], [2.0, 2.5], [-1.0, 1.0]],
    "v6": [[0.125, 0.125], [1.125, 0.625], [2.125, 0.125], [0.375, 1.125], [1.125, 3.125], [2.125, 1.125]],
    "v7": [[-1.0, -1.5], [1.5, -1.0], [0.25, 0.125], [-1.25, 1.0], [1.0, 1.5], [2.5, 0.25], [-0.25, 2.5]],
    "v4": [[1.0, 0.0], [0.0, 0.25], [0.0, 2.0], [1.75, 1.5]],
    "v5b": [[1.5, 0.0], [0.0, 0.5], [-0.5, 2.0], [1.0, 1.0], [2.5, 2.25]],
    "v6b": [[0.0, 0.0], [0.25, 2.0], [1.0, 0.75], [2.0, -0.5], [2.25, 1.5], [3.0, 0.5]],
    # fans: vertex 0 has degree 6 (data-pixel sub-grids falling into several fan triangles touch many distinct vertices)
    "fan7": [[0.015625, -0.03125], [0.09375, 0.609375], [0.59375, 0.265625], [0.515625, -0.453125], [-0.09375, -0.703125], [-0.6875, -0.265625],
             [-0.640625, 0.4375]],
    "fan14": [[0.015625, -0.03125], [0.09375, 0.609375], [0.59375, 0.265625], [0.515625, -0.453125], [-0.09375, -0.703125], [-0.6875, -0.265625],
              [-0.640625, 0.4375], [0.46875, 1.265625], [1.34375, 0.359375], [1.265625, -0.671875], [0.5, -1.375], [-0.875, -1.234375],
              [-1.53125, -0.21875], [-1.0625, 1.1875]],
    "v9": [[0.0, 0.0], [0.0, 1.0], [0.125, 2.0], [1.0, 0.125], [1.125, 1.125], [1.0, 2.25], [2.0, 0.0], [2.25, 1.0], [2.0, 2.125]],
}


# --------------------------------------------------------------------------------------------- engine work-arounds

_MINMAX_MODE = ["fork"]
_ABS_MODE = ["path"]


def POST_INSTALL():
    from symx import merge, shim
    merge.install_dispatchers()
    orig_min, orig_max = shim.NPFacade.min, shim.NPFacade.max

    def _pa_fold(x, want_min):
        """path-aware min / max of an array with proxies: comparisons implied by the path condition do not fork
        (ctx.decide drops the infeasible side); undecided ones fork over 'which entry is the extreme'."""
        flat = list(np.asarray(shim.unwrap(x), dtype=object).reshape(-1))
        conc = [e for e in flat if not V.is_sym(e)]
        r = None
        if conc:
            r = np.float64(min(conc) if want_min else max(conc))
        # an entry that the path condition already forces to be the extreme is returned as it is (one entailment query each)
        ctx = V._CTX[0]
        cands = ([r] if r is not None else []) + [e for e in flat if V.is_sym(e)]
        for c in cands[:6]:
            ct = V.to_real_term(c)
            viol = [(ct > V.to_real_term(o)) if want_min else (ct < V.to_real_term(o)) for o in cands if o is not c]
            if not viol or ctx._check(z3.Or(*viol))[0] == "unsat":
                return c
        for e in flat:
            if not V.is_sym(e):
                continue
            if r is None:
                r = e
                continue
            keep = (r <= e) if want_min else (r >= e)
            r = r if bool(keep) else e
        return r

    def pmin(self, x, axis=None, **kw):
        if axis is None and _MINMAX_MODE[0] == "fork" and shim.has_sym(x) and V._CTX[0] is not None:
            return _pa_fold(x, True)
        return orig_min(self, x, axis=axis, **kw)

    def pmax(self, x, axis=None, **kw):
        if axis is None and _MINMAX_MODE[0] == "fork" and shim.has_sym(x) and V._CTX[0] is not None:
            return _pa_fold(x, False)
        return orig_max(self, x, axis=axis, **kw)

    for nm, f in (("min", pmin), ("amin", pmin), ("max", pmax), ("amax", pmax)):
        setattr(shim.NPFacade, nm, f)

    orig_abs = shim.NPFacade.abs

    def _pa_abs(e):
        """|e| without an if-then-else when the path condition already fixes the sign (two entailment queries); the result is
        then a linear term, which keeps the area-ratio weights of a point inside a known triangle linear for the solver"""
        ctx = V._CTX[0]
        if ctx is None or not isinstance(e, V.SymReal) or _ABS_MODE[0] != "path":
            return abs(e)
        t = z3.simplify(e.t)
        if z3.is_rational_value(t):
            return abs(e)
        if ctx._check(t < 0)[0] == "unsat":
            return e
        if ctx._check(t > 0)[0] == "unsat":
            return -e
        return abs(e)

    def pabs(self, x, **kw):
        if shim.has_sym(x) and V._CTX[0] is not None:
            return shim._map(_pa_abs, np.abs, x)
        return orig_abs(self, x, **kw)

    for nm in ("abs", "absolute", "fabs"):
        setattr(shim.NPFacade, nm, pabs)

    # branch conditions are put into sum-of-monomials form before they reach the solver: the nearest-vertex search compares
    # squared distances (v - p)^2 whose quadratic parts cancel, so the path condition stays linear (pure rewriting, same meaning)
    from symx import explore
    if not getattr(explore.Explorer.decide, "_c06_som", False):
        orig_decide = explore.Explorer.decide

        def decide(self, c, payload_fn=None):
            if not isinstance(c, (bool, np.bool_)):
                c = z3.simplify(c, som=True)
            return orig_decide(self, c, payload_fn)

        decide._c06_som = True
        explore.Explorer.decide = decide


def _sym(x):
    return V.is_sym(x)


def _ind(c):
    """indicator of a condition as a number (proxy or float)"""
    if isinstance(c, V.SymBool):
        return V.SymReal(z3.If(c.t, z3.RealVal(1), z3.RealVal(0)))
    return 1.0 if bool(c) else 0.0


def _and(*cs):
    r = True
    for c in cs:
        if isinstance(c, (bool, np.bool_)):
            if not c:
                return False
            continue
        r = c if r is True else (r & c)
    return r


def _or(*cs):
    r = False
    for c in cs:
        if isinstance(c, (bool, np.bool_)):
            if c:
                return True
            continue
        r = c if r is False else (r | c)
    return r


def _adapt(inp, D):
    """adapt data (one value per unmasked pixel) handed to MapperGrids; only mapper.pixel_signals_from reads it"""
    a = inp.get("adapt") if hasattr(inp, "get") else None
    if a is None:
        return None
    a = np.asarray(a, dtype=object).reshape(-1)[:D]
    return a if any(_sym(e) for e in a) else a.astype(float)


def _adapt_input(ctx, adapt, Dmax):
    """adapt: None (no adapt data), "sym" (symbolic reals in [1/16, 16]) or a list of concrete values"""
    if adapt is None:
        return None
    if adapt == "sym":
        a = V.real_array("adapt", (Dmax,))
        for e in a:
            ctx.assume(z3.And(e.t >= V.rval(0.0625), e.t <= 16))
        return a
    return np.array([float(adapt[k % len(adapt)]) for k in range(Dmax)])


def _setup(mask, sub):
    """mask / over-sampler of the data plane; returns (mask2d, over_sampler, sub_list, slim_for_sub (reference), fractions (reference))"""
    import autoarray as aa
    mask = np.array(mask, dtype=bool)
    m = aa.Mask2D(mask=mask, pixel_scales=1.0)
    D = int((~mask).sum())
    sub_list = list(SUB_PATTERNS[sub][:D])
    os_ = aa.OverSamplerUniform(mask=m, sub_size=aa.Array2D(values=np.array(sub_list), mask=m))
    ref_slim = [i for i, s in enumerate(sub_list) for _ in range(s * s)]
    ref_frac = [1.0 / (s * s) for s in sub_list]
    return m, os_, sub_list, ref_slim, ref_frac


def _decode_unique(um, D, P):
    """dense matrix encoded by the sparse unique mappings: entry (i,p) = sum of data_weights[i,j] over j < pix_lengths[i]
    with data_to_pix_unique[i,j] == p; second result: the first pix_lengths[i] indices are distinct and lie in [0,P)"""
    idx, w, ln = np.asarray(hx.unwrap(um.data_to_pix_unique)), np.asarray(hx.unwrap(um.data_weights)), np.asarray(hx.unwrap(um.pix_lengths))
    M = np.zeros((D, P), dtype=object)
    M.fill(np.float64(0.0))
    ok = True
    for i in range(D):
        n = int(ln[i])
        row = [int(idx[i, j]) for j in range(n)]
        ok = ok and len(set(row)) == n and all(0 <= p < P for p in row)
        for j in range(n):
            if 0 <= row[j] < P:
                M[i, row[j]] = M[i, row[j]] + w[i, j]
    return M, ok


def _matrix_checks(A, E, mapper, Eref, D, P, ref_slim, ref_frac, psw_ok=True):
    """common obligations on the dense and the sparse encodings against the independent reference matrix Eref"""
    mm = hx.attempt(lambda: mapper.mapping_matrix)
    if isinstance(mm, hx.Raised):
        A["e2e_mapping_matrix"], E["e2e_mapping_matrix"] = mm, "no exception"
    else:
        mm = np.asarray(hx.unwrap(mm))
        A["matrix_shape"], E["matrix_shape"] = list(mm.shape), [D, P]
        if list(mm.shape) == [D, P]:
            A["e2e_mapping_matrix"], E["e2e_mapping_matrix"] = mm, Eref
            A["rows_nonnegative"] = [[_ge0(mm[i, p]) for p in range(P)] for i in range(D)]
            E["rows_nonnegative"] = [[True] * P for _ in range(D)]
            A["rows_sum_to_one"] = [_sum(mm[i, :]) for i in range(D)]
            E["rows_sum_to_one"] = [1.0] * D
    um = hx.attempt(lambda: mapper.unique_mappings)
    if isinstance(um, hx.Raised):
        A["e2e_unique_decoded"], E["e2e_unique_decoded"] = um, "no exception"
    else:
        ln_, wd_ = np.asarray(hx.unwrap(um.pix_lengths)), np.asarray(hx.unwrap(um.data_to_pix_unique)).shape
        A["unique_pix_lengths_within_stored_width"] = bool(len(wd_) == 2 and wd_[0] == D and np.asarray(hx.unwrap(um.data_weights)).shape == wd_
                                                           and all(0 <= int(v) <= wd_[1] for v in ln_))
        E["unique_pix_lengths_within_stored_width"] = True
        dec = hx.attempt(_decode_unique, um, D, P)
        if isinstance(dec, hx.Raised):
            A["e2e_unique_decoded"], E["e2e_unique_decoded"] = dec, "decodable"
        else:
            A["e2e_unique_decoded"], E["e2e_unique_decoded"] = dec[0], Eref
            A["unique_indices_distinct_in_range"], E["unique_indices_distinct_in_range"] = dec[1], True
            if not isinstance(mm, hx.Raised) and list(mm.shape) == [D, P]:
                A["unique_equals_dense"], E["unique_equals_dense"] = dec[0], mm
    A["slim_for_sub_slim"] = hx.attempt(lambda: [int(v) for v in np.asarray(mapper.slim_index_for_sub_slim_index)])
    E["slim_for_sub_slim"] = ref_slim
    A["sub_fraction"] = hx.attempt(lambda: np.array(mapper.over_sampler.sub_fraction, dtype=float))
    E["sub_fraction"] = np.array(ref_frac, dtype=float)


def _ge0(x):
    return x >= 0


def _run_order(A, E, mapper, order, scale):
    """history on ONE mapper object: evaluate its (cached) products in the given order; "signals" = mapper.pixel_signals_from(...).
    The obligations afterwards read the cached products, so they see whatever an earlier call did to shared state."""
    for n, op in enumerate(order or []):
        if op == "signals":
            r = hx.attempt(lambda: mapper.pixel_signals_from(signal_scale=scale))
        elif op == "matrix":
            r = hx.attempt(lambda: mapper.mapping_matrix)
        elif op == "unique":
            r = hx.attempt(lambda: mapper.unique_mappings)
        else:
            r = hx.attempt(lambda: mapper.pix_sub_weights)
        A["history_%d_%s_no_exception" % (n, op)] = r if isinstance(r, hx.Raised) else "ok"
        E["history_%d_%s_no_exception" % (n, op)] = "ok"


def _sum(xs):
    acc = 0.0
    for x in xs:
        acc = acc + x
    return acc


# --------------------------------------------------------------------------------------------- rectangular meshes

def _rect_lines(box, H, W, buffer=1e-8, exact=False):
    """reference geometry of the overlaid mesh: row lines Y[0..H] (top to bottom), column lines X[0..W] (left to right)"""
    y0, y1, x0, x1 = box
    if any(_sym(v) for v in box):
        b = Fraction(buffer)
        top, left = y1 + b, x0 - b
        sy, sx = (y1 - y0 + 2 * b) / H, (x1 - x0 + 2 * b) / W
    elif exact:
        F = Fraction
        b = F(buffer)
        top, left = F(y1) + b, F(x0) - b
        sy, sx = (F(y1) - F(y0) + 2 * b) / H, (F(x1) - F(x0) + 2 * b) / W
    else:
        b = buffer
        top, left = y1 + b, x0 - b
        sy, sx = (y1 - y0 + 2 * b) / H, (x1 - x0 + 2 * b) / W
    Y = [top - r * sy for r in range(H + 1)]
    X = [left + c * sx for c in range(W + 1)]
    return Y, X, sy, sx


def _num(v):
    """Fraction -> z3 numeral wrapped as proxy-compatible value when running symbolically"""
    if isinstance(v, Fraction):
        return V.SymReal(z3.RealVal(v.numerator) / z3.RealVal(v.denominator))
    return v


def body_rect(inp, mask, sub, H, W, box, ext=None, order=None, scale=1.0, **_):
    """class level: mesh.Rectangular -> MapperGrids -> Mapper on a source-plane grid whose bounding box is concrete
    (attained by the anchor sub-pixels) and whose remaining coordinates are free"""
    import autoarray as aa
    m, os_, sub_list, ref_slim, ref_frac = _setup(mask, sub)
    D, N, P = len(sub_list), len(ref_slim), H * W
    pos = np.asarray(inp["pos"], dtype=object).reshape(-1, 2)[:N]
    symbolic = any(_sym(e) for e in pos.reshape(-1))
    if not symbolic:
        pos = pos.astype(float)
    A, E = {}, {}
    if box is not None:
        bx = BOXES[box]
    elif symbolic:
        bx = (pos[ext[1], 0], pos[ext[0], 0], pos[ext[3], 1], pos[ext[2], 1])     # designated extremes (assumed by the case)
    else:
        bx = (min(pos[:, 0]), max(pos[:, 0]), min(pos[:, 1]), max(pos[:, 1]))
    Y, X, sy, sx = _rect_lines(bx, H, W, exact=symbolic)
    Y, X, sy, sx = [_num(v) for v in Y], [_num(v) for v in X], _num(sy), _num(sx)
    dy, dx = sy * BAND, sx * BAND

    def build():
        grid = aa.Grid2DIrregular(values=pos)
        mesh = aa.mesh.Rectangular(shape=(H, W))
        mg = mesh.mapper_grids_from(mask=m, source_plane_data_grid=grid, border_relocator=None, adapt_data=_adapt(inp, D))
        return aa.Mapper(mapper_grids=mg, over_sampler=os_, regularization=None)

    mapper = hx.attempt(build)
    if isinstance(mapper, hx.Raised):
        return {"mapper_constructed": mapper}, {"mapper_constructed": "no exception"}
    A["mapper_type"], E["mapper_type"] = type(mapper).__name__, "MapperRectangular"
    _run_order(A, E, mapper, order, scale)
    psw = hx.attempt(lambda: mapper.pix_sub_weights)
    if isinstance(psw, hx.Raised):
        return {"pix_sub_weights": psw}, {"pix_sub_weights": "no exception"}
    mp, sz, wt = np.asarray(psw.mappings), np.asarray(psw.sizes), np.asarray(psw.weights)
    A["psw_shapes"], E["psw_shapes"] = [list(mp.shape), list(sz.shape), list(wt.shape)], [[N, 1], [N], [N, 1]]
    if A["psw_shapes"] != E["psw_shapes"]:
        return A, E
    A["psw_sizes_weights_one"] = [[int(sz[s]), float(wt[s, 0])] for s in range(N)]
    E["psw_sizes_weights_one"] = [[1, 1.0]] * N
    idx = [int(mp[s, 0]) for s in range(N)]
    A["cell_index_in_range"], E["cell_index_in_range"] = [0 <= k < P for k in idx], [True] * N
    if all(0 <= k < P for k in idx):
        # the chosen cell's (closed, band-widened) bounds contain the point
        A["cell_contains_point"] = [_and(Y[k // W + 1] - dy <= pos[s, 0], pos[s, 0] <= Y[k // W] + dy,
                                         X[k % W] - dx <= pos[s, 1], pos[s, 1] <= X[k % W + 1] + dx) for s, k in enumerate(idx)]
        E["cell_contains_point"] = [True] * N
    # mesh geometry the mapper works with (centres of the H x W cells laid over the bounding box + buffer)
    cen = np.array([[(Y[r] + Y[r + 1]) / 2.0, (X[c] + X[c + 1]) / 2.0] for r in range(H) for c in range(W)], dtype=object)
    if box is not None or not symbolic:      # (symbolic boxes: decided separately in case_overlay)
        A["mesh_centres"] = hx.attempt(lambda: np.asarray(mapper.source_plane_mesh_grid.array))
        E["mesh_centres"] = cen
    # independent reference matrix: indicator of the open cell that contains the point (points on cell lines are excluded
    # from these 'e2e_' obligations by a group assumption)
    Eref = np.zeros((D, P), dtype=object)
    Eref.fill(np.float64(0.0))
    for s in range(N):
        i = ref_slim[s]
        for r in range(H):
            inr = _and(Y[r + 1] < pos[s, 0], pos[s, 0] < Y[r])
            if inr is False:
                continue
            for c in range(W):
                inc = _and(inr, X[c] < pos[s, 1], pos[s, 1] < X[c + 1])
                if inc is False:
                    continue
                Eref[i, r * W + c] = Eref[i, r * W + c] + ref_frac[i] * _ind(inc)
    _matrix_checks(A, E, mapper, Eref, D, P, ref_slim, ref_frac)
    # by-product, executed concretely (not part of the solver claim): 4-connectivity of the mesh
    nb = hx.attempt(lambda: (np.asarray(mapper.neighbors), np.asarray(mapper.neighbors.sizes)))
    if isinstance(nb, hx.Raised):
        A["neighbors_concrete"], E["neighbors_concrete"] = nb, "no exception"
    else:
        got = [sorted(int(v) for v in nb[0][k][: int(nb[1][k])]) for k in range(P)]
        want = [sorted(rr * W + cc for (rr, cc) in ((k // W - 1, k % W), (k // W + 1, k % W), (k // W, k % W - 1), (k // W, k % W + 1))
                       if 0 <= rr < H and 0 <= cc < W) for k in range(P)]
        A["neighbors_concrete"], E["neighbors_concrete"] = [got, [int(v) for v in np.asarray(nb[0])[np.asarray(nb[0]) >= 0].shape]], \
            [want, [sum(len(w) for w in want)]]
    return A, E


def _fold_ref(xs, want_min):
    r = xs[0]
    for e in xs[1:]:
        if _sym(r) or _sym(e):
            c = (r <= e) if want_min else (r >= e)
            r = V.SymReal(z3.If(V.to_bool_term(c), V.to_real_term(r), V.to_real_term(e)))
        else:
            r = min(r, e) if want_min else max(r, e)
    return r


def body_overlay(inp, H, W, N, via="mesh", buffer=None, ext=None, **_):
    """overlay geometry for a completely symbolic source-plane grid: scales, origin, cell centres, containment of every point"""
    import autoarray as aa
    pos = np.asarray(inp["pos"], dtype=object).reshape(N, 2)
    if not any(_sym(e) for e in pos.reshape(-1)):
        pos = pos.astype(float)
    b = 1e-8 if buffer is None else buffer
    ys, xs = [pos[s, 0] for s in range(N)], [pos[s, 1] for s in range(N)]
    if ext is not None and any(_sym(e) for e in pos.reshape(-1)):
        y1, y0, x1, x0 = ys[ext[0]], ys[ext[1]], xs[ext[2]], xs[ext[3]]        # designated extremes (assumed by the case)
    else:
        y0, y1, x0, x1 = _fold_ref(ys, True), _fold_ref(ys, False), _fold_ref(xs, True), _fold_ref(xs, False)
    sy, sx = (y1 - y0 + 2 * b) / H, (x1 - x0 + 2 * b) / W
    top, left = y1 + b, x0 - b
    A, E = {}, {}
    if via == "mesh":
        mg = hx.attempt(lambda: aa.mesh.Rectangular(shape=(H, W)).mapper_grids_from(
            mask=None, source_plane_data_grid=aa.Grid2DIrregular(values=pos), border_relocator=None).source_plane_mesh_grid)
    else:
        mg = hx.attempt(lambda: aa.Mesh2DRectangular.overlay_grid(shape_native=(H, W), grid=pos, **({} if buffer is None else {"buffer": buffer})))
    if isinstance(mg, hx.Raised):
        return {"overlay": mg}, {"overlay": "no exception"}
    A["shape_native"], E["shape_native"] = [int(v) for v in mg.shape_native], [H, W]
    A["pixel_scales"], E["pixel_scales"] = [mg.pixel_scales[0], mg.pixel_scales[1]], [sy, sx]
    A["origin"], E["origin"] = [mg.origin[0], mg.origin[1]], [(y1 + y0) / 2.0, (x1 + x0) / 2.0]
    cen = np.asarray(hx.unwrap(mg))
    A["centres_shape"], E["centres_shape"] = list(cen.shape), [H * W, 2]
    if list(cen.shape) == [H * W, 2]:
        for r in range(H):
            for c in range(W):
                A["centre_%d_%d" % (r, c)] = [cen[r * W + c, 0], cen[r * W + c, 1]]
                E["centre_%d_%d" % (r, c)] = [top - (r + 0.5) * sy, left + (c + 0.5) * sx]
    # every point lies strictly inside the mesh extent published by the mesh object (extent = origin +- shape * scales / 2)
    oy, ox, py, px = mg.origin[0], mg.origin[1], mg.pixel_scales[0], mg.pixel_scales[1]
    A["points_strictly_inside_mesh"] = [_and(oy - H * py / 2.0 < ys[s], ys[s] < oy + H * py / 2.0,
                                             ox - W * px / 2.0 < xs[s], xs[s] < ox + W * px / 2.0) for s in range(N)]
    E["points_strictly_inside_mesh"] = [True] * N
    return A, E


def case_overlay(ctx, H, W, N, via="mesh", buffer=None, ext=None, span=64.0):
    """ext = indices of the points attaining y_max, y_min, x_max, x_min (enumerated); ext None: if-then-else min/max (small N only)"""
    pos = V.real_array("p", (N, 2))
    for e in pos.reshape(-1):
        ctx.assume(z3.And(e.t >= -V.rval(span), e.t <= V.rval(span)))
    if ext == "all":
        ks = [z3.Int("ext_%d" % i) for i in range(4)]
        ctx.assume(z3.And(*[z3.And(k >= 0, k < N) for k in ks]))
        ext = [ctx.concretize_int(k) for k in ks]
        ctx.set_case(ext=ext)
    if ext is not None:
        for s in range(N):
            ctx.assume(z3.And(pos[s, 0].t <= pos[ext[0], 0].t, pos[s, 0].t >= pos[ext[1], 0].t,
                              pos[s, 1].t <= pos[ext[2], 1].t, pos[s, 1].t >= pos[ext[3], 1].t))
    old = _MINMAX_MODE[0]
    _MINMAX_MODE[0] = "ite" if ext is None else "fork"
    try:
        hx.run_body(ctx, body_overlay, {"pos": pos}, {"H": H, "W": W, "N": N, "via": via, "buffer": buffer, "ext": ext}, tol=None, validate_every=1)
    finally:
        _MINMAX_MODE[0] = old


def _mask_from(ctx, mshape, mask):
    if mask is not None:
        return np.array(mask, dtype=bool).reshape(mshape)
    mb = V.bool_array("m", tuple(mshape))
    ctx.assume(z3.Or(*[z3.Not(b.t) for b in mb.reshape(-1)]))
    return ctx.concrete_bools(mb)


def case_rect(ctx, mshape, sub, H, W, box, anchors, regions, mask=None, span=8.0, order=None, scale=1.0, adapt=None):
    """anchors: indices (into the sub-pixel list, modulo its length) of the sub-pixels attaining y_max, y_min, x_max, x_min;
    box: name of a concrete bounding box (those four coordinates are then concrete) or None (every coordinate symbolic, the
    anchors are only assumed to be the extremes);
    regions: per sub-pixel either None (anywhere in the box) or [r0, r1, c0, c1] = block of mesh cells it is confined to"""
    mask = _mask_from(ctx, mshape, mask)
    D = int((~mask).sum())
    sub_list = SUB_PATTERNS[sub][:D]
    N = sum(s * s for s in sub_list)
    Nmax = sum(s * s for s in SUB_PATTERNS[sub][:int(np.prod(mshape))])
    if N < 2:
        raise PathAbort()     # a single sub-pixel: degenerate box (extent = 2 * buffer), not a meaningful overlay
    pos = V.real_array("p", (Nmax, 2))
    a = [k % N for k in anchors]
    if a[0] == a[1]:
        a[1] = (a[1] + 1) % N
    if a[2] == a[3]:
        a[3] = (a[3] + 1) % N
    if box is not None:
        y0, y1, x0, x1 = BOXES[box]
        pos[a[0], 0], pos[a[1], 0], pos[a[2], 1], pos[a[3], 1] = np.float64(y1), np.float64(y0), np.float64(x1), np.float64(x0)
        Yl, Xl, sy, sx = _rect_lines(BOXES[box], H, W, exact=True)
        rv = lambda f: z3.RealVal(f.numerator) / z3.RealVal(f.denominator)
        bnd = [(V.rval(y0), V.rval(y1)), (V.rval(x0), V.rval(x1))]
    else:
        bx = (pos[a[1], 0], pos[a[0], 0], pos[a[3], 1], pos[a[2], 1])
        Yl, Xl, sy, sx = _rect_lines(bx, H, W)
        rv = V.to_real_term
        bnd = [(bx[0].t, bx[1].t), (bx[2].t, bx[3].t)]
        for v in bx:
            ctx.assume(z3.And(v.t >= -V.rval(span), v.t <= V.rval(span)))
        ctx.assume(z3.And(bx[1].t - bx[0].t >= V.rval(2.0 ** -6), bx[3].t - bx[2].t >= V.rval(2.0 ** -6)))
    band = []
    for s in range(Nmax):
        reg = regions[s % len(regions)] if regions else None
        for d, lines, n in ((0, Yl, H), (1, Xl, W)):
            e = pos[s, d]
            if not _sym(e):
                continue
            if not any(e is b_ for b_ in (pos[a[0], 0], pos[a[1], 0], pos[a[2], 1], pos[a[3], 1])):
                ctx.assume(z3.And(e.t >= bnd[d][0], e.t <= bnd[d][1]))
            if reg is not None and s < N:
                # confined to a block of cells, at least BAND pixel inside the block's outer lines
                step = rv((sy if d == 0 else sx) * Fraction(BAND))
                if d == 0:
                    ctx.assume(z3.And(e.t <= rv(lines[min(reg[0], H - 1)]) - step, e.t >= rv(lines[min(reg[1], H - 1) + 1]) + step))
                else:
                    ctx.assume(z3.And(e.t >= rv(lines[min(reg[2], W - 1)]) + step, e.t <= rv(lines[min(reg[3], W - 1) + 1]) - step))
            if s < N:
                step = sy if d == 0 else sx
                for ln in lines:
                    band.append(z3.Or(e.t - rv(ln) >= rv(step * Fraction(BAND)), rv(ln) - e.t >= rv(step * Fraction(BAND))))
    for b in band:
        ctx.assume(b, group="e2e")
    ctx.set_case(mask=mask.tolist())
    inputs = {"pos": pos}
    ad = _adapt_input(ctx, adapt, int(np.prod(mshape)))
    if ad is not None:
        inputs["adapt"] = ad
    kw = {"mask": mask.tolist(), "sub": sub, "H": H, "W": W, "box": box, "ext": a, "order": order, "scale": scale}
    hx.run_body(ctx, body_rect, inputs, kw, tol=TOLS, validate_every=8, groups=lambda k: "e2e" if k.startswith("e2e") else None)


def _in_child(fn):
    """run fn() in a forked copy of this process and return its (picklable) result: every history of meshes is then evaluated on
    the process image of a worker that has not built any mesh yet, so process-wide state (module-level caches) created by one
    history cannot leak into the next path - the outcome depends on the history alone and reproduces in the replay process"""
    import os
    import pickle
    r, w = os.pipe()
    pid = os.fork()
    if pid == 0:
        code = 0
        try:
            os.close(r)
            try:
                data = pickle.dumps(("ok", fn()))
            except BaseException as e:  # noqa
                data = pickle.dumps(("err", type(e).__name__, str(e)[:300]))
            with os.fdopen(w, "wb") as f:
                f.write(data)
        except BaseException:  # noqa
            code = 1
        finally:
            os._exit(code)
    os.close(w)
    with os.fdopen(r, "rb") as f:
        data = f.read()
    os.waitpid(pid, 0)
    if not data:
        return hx.Raised("ChildCrashed")
    out = pickle.loads(data)
    if out[0] == "err":
        return hx.Raised(out[1])
    return out[1]


def _nb_lists(nb):
    arr, sizes = np.asarray(nb), np.asarray(nb.sizes)
    return [[int(v) for v in row] for row in arr], [int(v) for v in sizes]


VIAS = ("overlay", "mapper", "direct")


def _rect_history(shapes, vias):
    """build the meshes one after the other through public entry points and collect their neighbour lists"""
    import autoarray as aa
    grid = np.array([[0.0, 0.0], [1.0, 2.0], [0.5, -1.0], [-0.75, 0.25]])
    out = []
    for (H, W), via in zip(shapes, vias):
        if via == "overlay":
            nb = aa.Mesh2DRectangular.overlay_grid(shape_native=(H, W), grid=grid).neighbors
        elif via == "direct":
            vals = aa.Grid2D.uniform(shape_native=(H, W), pixel_scales=(0.5, 0.25)).slim.array
            nb = aa.Mesh2DRectangular(values=np.array(vals), shape_native=(H, W), pixel_scales=(0.5, 0.25)).neighbors
        else:
            m = aa.Mask2D(mask=np.array([[False, False], [False, False]]), pixel_scales=1.0)
            mg = aa.mesh.Rectangular(shape=(H, W)).mapper_grids_from(mask=m, source_plane_data_grid=aa.Grid2DIrregular(values=grid), border_relocator=None)
            mapper = aa.Mapper(mapper_grids=mg, over_sampler=aa.OverSamplerUniform(mask=m, sub_size=1), regularization=None)
            nb = mapper.neighbors
            nb2 = mapper.source_plane_mesh_grid.neighbors
            if _nb_lists(nb) != _nb_lists(nb2):
                raise AssertionError("mapper.neighbors differs from source_plane_mesh_grid.neighbors")
        out.append(_nb_lists(nb))
    return out


def _adjacency_obligations(A, E, tag, lists, want):
    """neighbour table (arr, sizes) of one mesh against the independently derived adjacency `want` (list of sorted lists)"""
    P = len(want)
    arr, sizes = lists
    ok_shape = len(arr) == P and len(sizes) == P and all(0 <= sizes[k] <= len(arr[k]) for k in range(P))
    A[tag + "_table_well_formed"], E[tag + "_table_well_formed"] = ok_shape, True
    if not ok_shape:
        return
    got = [sorted(arr[k][: sizes[k]]) for k in range(P)]
    A[tag + "_neighbors_equal_mesh_adjacency"], E[tag + "_neighbors_equal_mesh_adjacency"] = got, want
    A[tag + "_neighbors_symmetric"] = all(0 <= j < P and k in got[j] for k in range(P) for j in got[k])
    E[tag + "_neighbors_symmetric"] = True
    A[tag + "_padding_is_minus_one"], E[tag + "_padding_is_minus_one"] = all(v == -1 for k in range(P) for v in arr[k][sizes[k]:]), True


def body_rect_history(inp, vias, **_):
    """every mesh of a history of rectangular meshes built in one process publishes the 4-connectivity of ITS OWN shape"""
    shapes = [(int(h), int(w)) for (h, w) in inp["shapes"]]
    res = _in_child(lambda: _rect_history(shapes, vias))
    if isinstance(res, hx.Raised):
        return {"history_built": res}, {"history_built": "no exception"}
    A, E = {}, {}
    for n, ((H, W), lists) in enumerate(zip(shapes, res)):
        want = [sorted(rr * W + cc for (rr, cc) in ((k // W - 1, k % W), (k // W + 1, k % W), (k // W, k % W - 1), (k // W, k % W + 1))
                       if 0 <= rr < H and 0 <= cc < W) for k in range(H * W)]
        _adjacency_obligations(A, E, "mesh%d" % n, lists, want)
    return A, E


def case_rect_history(ctx, L, lo, hi, vias, same_pixels=False):
    """mesh shapes are solver integers in [lo, hi], concretised by forking (every history of L shapes; same_pixels: only histories
    whose meshes all have the same number of pixels - the situation in which state shared between meshes would be confused)"""
    hs = [(V.integer("H%d" % n), V.integer("W%d" % n)) for n in range(L)]
    for (H, W) in hs:
        ctx.assume(z3.And(H.t >= lo, H.t <= hi, W.t >= lo, W.t <= hi))
    shapes = []
    for n, (H, W) in enumerate(hs):
        Hc = ctx.concretize_int(H.t)
        if same_pixels and n > 0:
            P0 = shapes[0][0] * shapes[0][1]
            if P0 % Hc != 0 or not (lo <= P0 // Hc <= hi):
                raise PathAbort()
            ctx.assume(W.t == P0 // Hc)
        Wc = ctx.concretize_int(W.t)
        shapes.append([Hc, Wc])
    ctx.set_case(shapes=shapes)
    hx.run_body(ctx, body_rect_history, {"shapes": shapes}, {"vias": list(vias)}, validate_every=0)
    ctx.twin()


DEL_SETS = ["v4", "v5", "v5b", "v6", "v6b", "v7"]


def _del_history(names, vias):
    import autoarray as aa
    out = []
    for name, via in zip(names, vias):
        mesh = aa.Mesh2DDelaunay(values=np.array(VERTS[name], dtype=float))
        if via == "mapper":
            m = aa.Mask2D(mask=np.array([[False, False]]), pixel_scales=1.0)
            mg = aa.MapperGrids(mask=m, source_plane_data_grid=aa.Grid2DIrregular(values=np.array([[0.5, 0.5], [1.0, 1.0]])), source_plane_mesh_grid=mesh)
            nb = aa.Mapper(mapper_grids=mg, over_sampler=aa.OverSamplerUniform(mask=m, sub_size=1), regularization=None).neighbors
        else:
            nb = mesh.neighbors
        out.append(_nb_lists(nb))
    return out


def body_del_history(inp, vias, **_):
    """every mesh of a history of Delaunay meshes publishes the edges of ITS OWN triangulation (triangulation: scipy, natively)"""
    names = [DEL_SETS[int(k)] for k in inp["sets"]]
    res = _in_child(lambda: _del_history(names, vias))
    if isinstance(res, hx.Raised):
        return {"history_built": res}, {"history_built": "no exception"}
    A, E = {}, {}
    for n, (name, lists) in enumerate(zip(names, res)):
        P = len(VERTS[name])
        want = [set() for _ in range(P)]
        for (a, b, c) in _tri(name).simplices:
            for (u, w) in ((a, b), (b, c), (a, c)):
                want[int(u)].add(int(w))
                want[int(w)].add(int(u))
        _adjacency_obligations(A, E, "mesh%d" % n, lists, [sorted(w) for w in want])
    return A, E


def case_del_history(ctx, L, vias):
    ks = [z3.Int("set%d" % n) for n in range(L)]
    ctx.assume(z3.And(*[z3.And(k >= 0, k < len(DEL_SETS)) for k in ks]))
    sets = [ctx.concretize_int(k) for k in ks]
    ctx.set_case(sets=sets)
    hx.run_body(ctx, body_del_history, {"sets": sets}, {"vias": list(vias)}, validate_every=0)
    ctx.twin()


# --------------------------------------------------------------------------------------------- Delaunay meshes

class _DelaunayStub:
    """stands in for the scipy.spatial.Delaunay object of the mesh during symbolic runs: everything is delegated to the real
    (natively computed) triangulation except find_simplex on symbolic points, which returns the simplex indices chosen by the
    harness under the contract 'the point lies in that (closed) simplex' / '-1 and the point lies in no simplex'."""

    def __init__(self, real, chosen):
        self._real, self._chosen = real, chosen

    def __getattr__(self, name):
        return getattr(self._real, name)

    def find_simplex(self, xi, *a, **kw):
        from symx import shim
        if shim.has_sym(xi):
            return np.array(self._chosen, dtype=self._real.simplices.dtype)
        return self._real.find_simplex(np.asarray(shim.normalise(xi), dtype=float), *a, **kw)


def _bary(v0, v1, v2, p):
    """barycentric coordinates of p w.r.t. the triangle (v0, v1, v2) by Cramer's rule (reference, independent of the repo)"""
    e1 = (v1[0] - v0[0], v1[1] - v0[1])
    e2 = (v2[0] - v0[0], v2[1] - v0[1])
    q = (p[0] - v0[0], p[1] - v0[1])
    det = e1[0] * e2[1] - e1[1] * e2[0]
    l1 = (q[0] * e2[1] - q[1] * e2[0]) / det
    l2 = (e1[0] * q[1] - e1[1] * q[0]) / det
    return [1 - l1 - l2, l1, l2]


def _verts(name, exact, cexp=0):
    """vertex set scaled by the dyadic factor 2**-cexp (exact in float64 and as rationals)"""
    vs = VERTS[name]
    if exact:
        f = Fraction(1, 2 ** cexp)
        return [(Fraction(v[0]) * f, Fraction(v[1]) * f) for v in vs]
    f = 2.0 ** -cexp
    return [(float(v[0]) * f, float(v[1]) * f) for v in vs]


def _tri(name, cexp=0):
    import scipy.spatial
    return scipy.spatial.Delaunay(np.array(VERTS[name], dtype=float) * 2.0 ** -cexp)


def _dist2_lin(v, p):
    """|v - p|^2 - |p|^2 (linear in p): enough to compare distances of one point to several vertices"""
    return v[0] * v[0] + v[1] * v[1] - 2 * (v[0] * p[0] + v[1] * p[1])


def body_del(inp, mask, sub, verts, order=None, scale=1.0, cexp=0, vlist=False, **_):
    import autoarray as aa
    m, os_, sub_list, ref_slim, ref_frac = _setup(mask, sub)
    D, N = len(sub_list), len(ref_slim)
    pos = np.asarray(inp["pos"], dtype=object).reshape(-1, 2)[:N]
    symbolic = any(_sym(e) for e in pos.reshape(-1))
    if not symbolic:
        pos = pos.astype(float)
    vs = _verts(verts, symbolic, cexp)
    P = len(vs)
    A, E = {}, {}
    supplied = np.array(VERTS[verts], dtype=float) * 2.0 ** -cexp
    # vlist: the public list-of-vertices variant of the constructor instead of an ndarray
    mesh = aa.Mesh2DDelaunay(values=[[float(a), float(b)] for (a, b) in supplied] if vlist else supplied)
    tri = mesh.delaunay
    # source pixel p is the p-th supplied vertex; the triangles of the reference come from an independent triangulation of the supplied set
    A["mesh_vertices_in_supplied_order"] = hx.attempt(lambda: np.asarray(mesh.array if hasattr(mesh, "array") else mesh, dtype=float))
    E["mesh_vertices_in_supplied_order"] = supplied
    simplices = [[int(a) for a in row] for row in _tri(verts, cexp).simplices]
    if symbolic:
        chosen = [int(t) for t in inp["simplex"]][:N]
        mesh.__dict__["delaunay"] = _DelaunayStub(tri, chosen)
    else:
        # own containment search (first simplex all of whose barycentric coordinates are >= 0, else -1)
        chosen = []
        for s in range(N):
            t_found = -1
            for t, (a, b, c) in enumerate(simplices):
                if min(_bary(vs[a], vs[b], vs[c], pos[s])) >= -1e-12:
                    t_found = t
                    break
            chosen.append(t_found)

    def build():
        grid = aa.Grid2DIrregular(values=pos)
        mg = aa.MapperGrids(mask=m, source_plane_data_grid=grid, source_plane_mesh_grid=mesh, adapt_data=_adapt(inp, D))
        return aa.Mapper(mapper_grids=mg, over_sampler=os_, regularization=None)

    mapper = hx.attempt(build)
    if isinstance(mapper, hx.Raised):
        return {"mapper_constructed": mapper}, {"mapper_constructed": "no exception"}
    A["mapper_type"], E["mapper_type"] = type(mapper).__name__, "MapperDelaunay"
    _run_order(A, E, mapper, order, scale)
    psw = hx.attempt(lambda: mapper.pix_sub_weights)
    if isinstance(psw, hx.Raised):
        return {"pix_sub_weights": psw}, {"pix_sub_weights": "no exception"}
    mp, sz, wt = np.asarray(hx.unwrap(psw.mappings)), np.asarray(hx.unwrap(psw.sizes)), np.asarray(hx.unwrap(psw.weights))
    A["psw_shapes"], E["psw_shapes"] = [list(mp.shape), list(sz.shape), list(wt.shape)], [[N, 3], [N], [N, 3]]
    if A["psw_shapes"] != E["psw_shapes"]:
        return A, E
    Eref = np.zeros((D, P), dtype=object)
    Eref.fill(np.float64(0.0))
    zero = np.float64(0.0)
    for s in range(N):
        i, t = ref_slim[s], chosen[s]
        row = [int(mp[s, k]) for k in range(3)]
        n = int(sz[s])
        ok_idx = all(0 <= row[k] < P for k in range(n)) and all(row[k] == -1 for k in range(n, 3))
        A["sub%d_sizes_indices_valid" % s], E["sub%d_sizes_indices_valid" % s] = [n, ok_idx], [3 if t >= 0 else 1, True]
        if not ok_idx or n not in (1, 3):
            continue
        A["sub%d_weights_nonnegative" % s], E["sub%d_weights_nonnegative" % s] = [_ge0(wt[s, k]) for k in range(n)], [True] * n
        A["sub%d_weights_sum_to_one" % s], E["sub%d_weights_sum_to_one" % s] = _sum(wt[s, k] for k in range(n)), 1.0
        wvec = [zero] * P
        for k in range(n):
            wvec[row[k]] = wvec[row[k]] + wt[s, k]
        ref = [zero] * P
        if t >= 0:
            a, b, c = simplices[t]
            lam = _bary(vs[a], vs[b], vs[c], pos[s])
            for vtx, l in zip((a, b, c), lam):
                ref[vtx] = ref[vtx] + l
            A["sub%d_weights_are_barycentric" % s], E["sub%d_weights_are_barycentric" % s] = wvec, ref
            A["sub%d_barycentric_reproduction" % s] = [_sum(wt[s, k] * vs[row[k]][d] for k in range(n)) for d in (0, 1)]
            E["sub%d_barycentric_reproduction" % s] = [pos[s, 0], pos[s, 1]]
        else:
            j = row[0]
            dl = [_dist2_lin(v, pos[s]) for v in vs]
            A["sub%d_outside_nearest_vertex_weight_one" % s] = [_and(*[dl[j] <= dl[k] for k in range(P) if k != j]), wt[s, 0]]
            E["sub%d_outside_nearest_vertex_weight_one" % s] = [True, 1.0]
            for p_ in range(P):
                ref[p_] = _ind(_and(*[dl[p_] < dl[k] for k in range(P) if k != p_]))
        for p_ in range(P):
            Eref[i, p_] = Eref[i, p_] + ref_frac[i] * ref[p_]
    _matrix_checks(A, E, mapper, Eref, D, P, ref_slim, ref_frac)
    # by-product, executed concretely (not part of the solver claim): neighbour lists = edges of the triangulation, symmetric
    nb = hx.attempt(lambda: (np.asarray(mapper.neighbors), np.asarray(mapper.neighbors.sizes)))
    if isinstance(nb, hx.Raised):
        A["neighbors_concrete"], E["neighbors_concrete"] = nb, "no exception"
    else:
        got = [sorted(int(v) for v in nb[0][k][: int(nb[1][k])]) for k in range(P)]
        want = [set() for _ in range(P)]
        for (a, b, c) in simplices:
            for (u, w) in ((a, b), (b, c), (a, c)):
                want[u].add(w)
                want[w].add(u)
        A["neighbors_concrete"], E["neighbors_concrete"] = got, [sorted(w) for w in want]
    return A, E


def case_del(ctx, mshape, sub, verts, plan, mask=None, span=4.0, order=None, scale=1.0, adapt=None, cexp=0, vlist=False):
    """plan: per sub-pixel (cyclic) either "free" (fork over every simplex and 'outside') or a simplex index / -1 it is pinned to"""
    mask = _mask_from(ctx, mshape, mask)
    D = int((~mask).sum())
    sub_list = SUB_PATTERNS[sub][:D]
    N = sum(s * s for s in sub_list)
    Nmax = sum(s * s for s in SUB_PATTERNS[sub][:int(np.prod(mshape))])
    # cexp: the whole source plane (vertices and sub-pixel positions) is scaled by 2**-cexp - the interpolation is scale free
    vs = _verts(verts, True, cexp)
    span = Fraction(span) / 2 ** cexp
    simplices = [[int(a) for a in row] for row in _tri(verts, cexp).simplices]
    S, P = len(simplices), len(vs)
    pos = V.real_array("p", (Nmax, 2))
    cy = sum(v[0] for v in vs) / P
    cx = sum(v[1] for v in vs) / P
    spread = []
    if plan == "spread":
        # per data pixel: give its sub-pixels the triangles that together touch as many distinct vertices as possible
        for sz in SUB_PATTERNS[sub][:int(np.prod(mshape))]:
            seen, used = set(), []
            for _ in range(sz * sz):
                best = max((t for t in range(S) if t not in used), key=lambda t: (len(set(simplices[t]) - seen), -t), default=0)
                used.append(best)
                seen |= set(simplices[best])
                spread.append(best)
    chosen = []
    for s in range(Nmax):
        y, x = pos[s, 0], pos[s, 1]
        ctx.assume(z3.And(y.t >= V.rval(cy - Fraction(span)), y.t <= V.rval(cy + Fraction(span)),
                          x.t >= V.rval(cx - Fraction(span)), x.t <= V.rval(cx + Fraction(span))))
        if s >= N:
            chosen.append(-1)
            continue
        pl = spread[s] if plan == "spread" else plan[s % len(plan)]
        if pl == "free":
            k = z3.Int("simplex_%d" % s)
            ctx.assume(z3.And(k >= -1, k < S))
            t = ctx.concretize_int(k)
        else:
            t = int(pl) % (S + 1) - 1 if int(pl) >= S else int(pl)
        lams = [[V.to_real_term(l) for l in _bary(vs[a], vs[b], vs[c], (y, x))] for (a, b, c) in simplices]
        if t >= 0:
            ctx.assume(z3.And(*[l >= 0 for l in lams[t]]))
        else:
            ctx.assume(z3.And(*[z3.Or(*[l < 0 for l in lam]) for lam in lams]))
            dl = [V.to_real_term(_dist2_lin(v, (y, x))) for v in vs]
            for a in range(P):
                for b in range(a + 1, P):
                    ctx.assume(dl[a] != dl[b], group="e2e")
        chosen.append(t)
    ctx.set_case(mask=mask.tolist(), simplex=chosen)
    inputs = {"pos": pos, "simplex": chosen}
    ad = _adapt_input(ctx, adapt, int(np.prod(mshape)))
    if ad is not None:
        inputs["adapt"] = ad
    kw = {"mask": mask.tolist(), "sub": sub, "verts": verts, "order": order, "scale": scale, "cexp": cexp, "vlist": vlist}
    hx.run_body(ctx, body_del, inputs, kw, tol=TOLS, validate_every=8, groups=lambda k: "e2e" if k.startswith("e2e") else None)



# --------------------------------------------------------------------------------------------- kernels with symbolic index tables

def body_tables(inp, sub, K, P, sizes):
    """kernel level (merge interpreter): dense and sparse encodings for arbitrary index tables and weights"""
    from autoarray.inversion.pixelization.mappers import mapper_util
    sub_list = list(sub)
    D = len(sub_list)
    ref_slim = [i for i, s in enumerate(sub_list) for _ in range(s * s)]
    ref_frac = [1.0 / (s * s) for s in sub_list]
    N = len(ref_slim)
    idx = np.asarray(inp["idx"], dtype=object).reshape(N, K)
    w = np.asarray(inp["w"], dtype=object).reshape(N, K)
    symbolic = any(_sym(e) for e in idx.reshape(-1)) or any(_sym(e) for e in w.reshape(-1))
    if not symbolic:
        idx, w = idx.astype(int), w.astype(float)
    sizes = np.array(sizes, dtype=int)
    A, E = {}, {}
    mm = hx.attempt(mapper_util.mapping_matrix_from, pix_indexes_for_sub_slim_index=idx, pix_size_for_sub_slim_index=sizes,
                    pix_weights_for_sub_slim_index=w, pixels=P, total_mask_pixels=D,
                    slim_index_for_sub_slim_index=np.array(ref_slim), sub_fraction=np.array(ref_frac))
    um = hx.attempt(mapper_util.data_slim_to_pixelization_unique_from, data_pixels=D, pix_indexes_for_sub_slim_index=idx,
                    pix_sizes_for_sub_slim_index=sizes, pix_weights_for_sub_slim_index=w, pix_pixels=P, sub_size=np.array(sub_list))
    zero = np.float64(0.0)
    for i in range(D):
        for p_ in range(P):
            acc = zero
            for s in range(N):
                if ref_slim[s] != i:
                    continue
                for k in range(int(sizes[s])):
                    acc = acc + ref_frac[i] * (w[s, k] * _ind(idx[s, k] == p_))
            E["dense_%d_%d" % (i, p_)] = acc
            E["unique_%d_%d" % (i, p_)] = acc
            A["dense_%d_%d" % (i, p_)] = mm if isinstance(mm, hx.Raised) else mm[i, p_]
    if isinstance(um, hx.Raised):
        for i in range(D):
            for p_ in range(P):
                A["unique_%d_%d" % (i, p_)] = um
        return A, E
    uidx, uw, ulen = (np.asarray(hx.unwrap(x), dtype=object) for x in um)
    J = uidx.shape[1]
    A["unique_table_shapes"], E["unique_table_shapes"] = [list(uidx.shape), list(uw.shape), list(ulen.shape)], [[D, J], [D, J], [D]]
    for i in range(D):
        for p_ in range(P):
            acc = zero
            for j in range(J):
                acc = acc + uw[i, j] * _ind(_and(ulen[i] > j, uidx[i, j] == p_))
            A["unique_%d_%d" % (i, p_)] = acc
        A["unique_row_%d_distinct_in_range" % i] = _and(
            ulen[i] >= 0, ulen[i] <= J,
            *[_or(ulen[i] <= j, _and(uidx[i, j] >= 0, uidx[i, j] <= P - 1)) for j in range(J)],
            *[_or(ulen[i] <= j2, uidx[i, j1] != uidx[i, j2]) for j1 in range(J) for j2 in range(j1 + 1, J)])
        E["unique_row_%d_distinct_in_range" % i] = True
    return A, E


def case_tables(ctx, sub, K, P, sizes, mode="fork", distinct=False):
    """mode "merge": index tables stay symbolic integers, the two kernels run through the merge interpreter (one path);
    mode "fork": every index is concretised by forking (all P^n tables are enumerated), weights stay symbolic"""
    from symx import merge
    sub_list = list(sub)
    N = sum(s * s for s in sub_list)
    idx = np.empty((N, K), dtype=object)
    w = V.real_array("w", (N, K))
    for s in range(N):
        for k in range(K):
            if k < sizes[s]:
                t = z3.Int("idx_%d_%d" % (s, k))
                ctx.assume(z3.And(t >= 0, t < P))
                if distinct:
                    ctx.assume(z3.And(*[t != idx[s, k2].t for k2 in range(k)]))
                idx[s, k] = V.SymInt(t, bounds=(0, P - 1))
            else:
                idx[s, k] = -1
                w[s, k] = np.float64(0.0)
    kw = {"sub": sub_list, "K": K, "P": P, "sizes": list(sizes)}
    if mode == "merge":
        with merge.merging() as ev:
            hx.run_body(ctx, body_tables, {"idx": idx, "w": w}, kw, tol=None, validate_every=1)
            ctx.check("no exception event reachable in the kernels", [z3.Not(g) for (g, n, m) in ev])
    else:
        for s in range(N):
            for k in range(int(sizes[s])):
                idx[s, k] = ctx.concretize_int(idx[s, k].t)
        ctx.set_case(idx=[[int(v) for v in r] for r in idx])
        hx.run_body(ctx, body_tables, {"idx": idx.astype(int), "w": w}, kw, tol=None, validate_every=64)


BODIES = {"case_rect": body_rect, "case_del": body_del, "case_tables": body_tables, "case_overlay": body_overlay, "case_rect_history": body_rect_history, "case_del_history": body_del_history}




def cases(tier):
    q = tier == "quick"
    out = []
    M12, M13 = [[False, False]], [[False, False, False]]
    # --- overlay geometry, everything symbolic; "all" = every assignment of the four extremes to the N points (by forking)
    ov = [(3, 3, 2, "mesh", None, "all"), (3, 5, 2, "overlay", 0.25, "all"), (4, 3, 3, "mesh", None, [0, 1, 2, 0]), (3, 4, 3, "overlay", None, [2, 2, 1, 0]),
          (3, 7, 6, "mesh", None, [4, 1, 1, 3])]
    if not q:
        ov += [(3, 3, 3, "mesh", None, "all"), (4, 6, 2, "mesh", None, "all"), (5, 3, 3, "overlay", 0.25, [1, 0, 0, 2]), (5, 3, 3, "overlay", 0.5, [2, 1, 2, 1]),
               (3, 5, 4, "mesh", None, [3, 0, 1, 2]), (3, 5, 4, "mesh", None, [0, 0, 3, 3]), (6, 3, 5, "overlay", None, [4, 2, 0, 1])]
    for (H, W, N, via, buf, ext) in ov:
        out.append(("case_overlay", {"H": H, "W": W, "N": N, "via": via, "buffer": buf, "ext": ext}))
    # --- rectangular mapper, concrete bounding box attained by the anchors, other coordinates symbolic
    rect = [
        dict(mshape=[1, 2], sub="a", H=3, W=3, box="A", anchors=[0, 1, 2, 3], regions=[[0, 1, 0, 1], None, [1, 2, 1, 2], [2, 2, 0, 2], [1, 1, 1, 1]], mask=M12),
        dict(mshape=[1, 2], sub="b", H=3, W=4, box="B", anchors=[4, 0, 0, 3], regions=[[0, 0, 1, 3], [1, 1, 0, 1], None, [2, 2, 2, 3], [0, 1, 3, 3]], mask=M12),
        dict(mshape=[1, 3], sub="c", H=4, W=3, box="C", anchors=[0, 1, 1, 2], regions=[None, None, None], mask=M13),
        dict(mshape=[1, 2], sub="d", H=3, W=3, box="D", anchors=[9, 3, 5, 0], regions=[[0, 0, 0, 0], [0, 1, 1, 2], [1, 1, 0, 0], [2, 2, 2, 2], [1, 2, 1, 1], [0, 0, 2, 2]], mask=M12),
        dict(mshape=[2, 2], sub="b", H=3, W=3, box="A", anchors=[0, 2, 1, 0], regions=[[0, 0, 0, 1], [1, 1, 1, 1], [2, 2, 0, 0], [1, 2, 2, 2]], mask=None),
    ]
    if not q:
        rect += [
            dict(mshape=[1, 2], sub="e", H=5, W=3, box="B", anchors=[7, 2, 3, 6], regions=[[0, 1, 0, 0], [4, 4, 1, 2], [2, 2, 1, 1], [3, 3, 0, 1]], mask=M12),
            dict(mshape=[1, 2], sub="f", H=3, W=5, box="C", anchors=[15, 3, 16, 0], regions=[[0, 0, 0, 1], [1, 1, 2, 2], [2, 2, 1, 1], [0, 1, 3, 3], [1, 1, 0, 0]], mask=M12),
            dict(mshape=[1, 3], sub="g", H=4, W=4, box="D", anchors=[0, 9, 10, 1], regions=[None, [0, 1, 0, 0], [2, 2, 2, 3], [1, 1, 1, 1], [3, 3, 0, 0], [0, 0, 3, 3]], mask=M13),
            dict(mshape=[2, 3], sub="a", H=3, W=3, box="B", anchors=[0, 2, 1, 0], regions=[[0, 0, 0, 0], [1, 1, 1, 2], [2, 2, 0, 0], [1, 1, 2, 2]], mask=None),
            dict(mshape=[1, 3], sub="a", H=6, W=3, box="A", anchors=[5, 1, 1, 4], regions=[None, [0, 1, 0, 0], [3, 3, 1, 2], [4, 5, 2, 2], [2, 2, 1, 1], [5, 5, 0, 0]], mask=M13),
            dict(mshape=[1, 2], sub="c", H=7, W=8, box="D", anchors=[0, 1, 1, 0], regions=[None, None], mask=M12),
        ]
    for c in rect:
        out.append(("case_rect", c, {"split": 3}) if c["sub"] == "g" else ("case_rect", c))
    # --- rectangular mapper, symbolic bounding box (designated extremes), non-linear index arithmetic
    out.append(("case_rect", dict(mshape=[1, 2], sub="c", H=3, W=4, box=None, anchors=[0, 1, 1, 0], regions=[None, None], mask=M12)))
    if not q:
        out.append(("case_rect", dict(mshape=[1, 3], sub="c", H=3, W=3, box=None, anchors=[0, 1, 0, 1], regions=[None, None, [0, 1, 1, 2]], mask=M13), {"timeout_ms": 60000}))
    # --- Delaunay mapper: one free point over the whole plane for every vertex set
    for vn in ["v4", "v5", "v6", "v7"] + ([] if q else ["v9"]):
        out.append(("case_del", dict(mshape=[1, 1], sub="c", verts=vn, plan=["free"], mask=[[False]])))
    dl = [
        dict(mshape=[1, 2], sub="b", verts="v5", plan=["free", 0, 1, 3, 2], mask=M12),
        dict(mshape=[1, 2], sub="a", verts="v6", plan=[0, 4, 2, 3, -1], mask=M12),
        dict(mshape=[1, 2], sub="d", verts="v7", plan=[0, 1, 2, 3, 4, 5, 6, 0, 3, "free", 5, 2], mask=M12),
        dict(mshape=[1, 2], sub="c", verts="v4", plan=["free", "free"], mask=M12),
        dict(mshape=[2, 2], sub="b", verts="v5", plan=[0, 1, 2, 0, 1, 2, 1], mask=None),
    ]
    if not q:
        dl += [
            dict(mshape=[1, 2], sub="c", verts="v5", plan=["free", -1], mask=M12),
            dict(mshape=[1, 2], sub="c", verts="v5", plan=["free", "free"], mask=M12),
            dict(mshape=[1, 2], sub="a", verts="v6", plan=[0, "free", 2, 3, 1], mask=M12),
            dict(mshape=[1, 2], sub="f", verts="v9", plan=[0, 1, 2, 3, 4, 5, 6, 7, "free", 1, 3, 5, 7, 0, 2, 4, 6], mask=M12),
            dict(mshape=[2, 3], sub="a", verts="v7", plan=[0, 1, 2, 3, 4, 5, 6, 5, 4, 3, 2, 1], mask=None),
            dict(mshape=[1, 3], sub="g", verts="v6", plan=[-1, 0, 1, 2, 3, 0, 1, 2, 3, 4, 1, 2, 3, 0, 2], mask=M13),
        ]
    for c in dl:
        out.append(("case_del", c))
    # --- the same interpolation on a source plane scaled by 2**-cexp (coordinates ~1e-3 / ~1e-6, triangle areas ~1e-7 / ~1e-12)
    sc = [dict(mshape=[1, 1], sub="c", verts="v5", plan=["free"], mask=[[False]], cexp=12),
          dict(mshape=[1, 2], sub="b", verts="v6", plan=["free", 0, 1, 3, 2], mask=M12, cexp=12),
          dict(mshape=[1, 1], sub="e", verts="fan7", plan="spread", mask=[[False]], cexp=20)]
    if not q:
        sc += [dict(mshape=[1, 1], sub="c", verts="v7", plan=["free"], mask=[[False]], cexp=20),
               dict(mshape=[1, 2], sub="d", verts="fan14", plan="spread", mask=M12, cexp=12),
               dict(mshape=[1, 2], sub="a", verts="v6", plan=[0, 4, 2, 3, -1], mask=M12, cexp=8)]
    for c in sc:
        out.append(("case_del", c))
    # --- public variants: vertices supplied as a python list; sub-size 4 (the largest of the property's range) also in the quick tier
    var = [dict(mshape=[1, 1], sub="c", verts="v5", plan=["free"], mask=[[False]], vlist=True),
           dict(mshape=[1, 2], sub="a", verts="v7", plan=[0, "free", 2, 3, 5], mask=M12, vlist=True),
           dict(mshape=[1, 2], sub="f", verts="v5", plan=[0, 1, 2, 0, 1, 2, "free", 2, 1, 0, 2, 1, 0, 1, 2, 0, 1], mask=M12)]
    if not q:
        var += [dict(mshape=[1, 2], sub="b", verts="v6", plan=["free", 0, 1, 3, 2], mask=M12, vlist=True, cexp=12)]
    for c in var:
        out.append(("case_del", c))
    out.append(("case_rect", dict(mshape=[1, 2], sub="f", H=3, W=3, box="A", anchors=[15, 3, 16, 0],
                                  regions=[[0, 0, 0, 0], [1, 1, 2, 2], [2, 2, 1, 1], [0, 0, 1, 1], [1, 1, 0, 0]], mask=M12)))
    # --- data pixels whose sub-pixels touch many distinct vertices (fan around a degree-6 vertex): the sparse encoding needs more
    #     than sub_size**2 + 2 columns (7 of fan7 for sub 2; 13 of fan14 for sub 3)
    wide = [dict(mshape=[1, 1], sub="e", verts="fan7", plan="spread", mask=[[False]]),
            dict(mshape=[1, 2], sub="d", verts="fan14", plan="spread", mask=M12),
            dict(mshape=[1, 2], sub="a", verts="fan14", plan=["free", 0, 3, 7, 11], mask=M12)]
    if not q:
        wide += [dict(mshape=[1, 2], sub="e", verts="fan14", plan="spread", mask=M12),
                 dict(mshape=[1, 2], sub="f", verts="fan14", plan="spread", mask=M12),
                 dict(mshape=[1, 1], sub="e", verts="fan7", plan=["free", 1, 3, 4], mask=[[False]])]
    for c in wide:
        out.append(("case_del", c))
    # --- histories on ONE mapper object: pixel_signals_from (adapt data symbolic where the arithmetic stays tractable) before / between
    #     the evaluations of pix_sub_weights, mapping_matrix and unique_mappings; same references as everywhere else
    O1, O2, O3 = ["signals", "matrix", "unique", "psw"], ["matrix", "signals", "unique"], ["signals", "unique", "matrix"]
    hist = [("case_del", dict(mshape=[1, 1], sub="e", verts="v5", plan=[0, 1, 2, -1], mask=[[False]], order=O1, adapt="sym", scale=2.0)),
            ("case_del", dict(mshape=[1, 2], sub="b", verts="v6", plan=["free", 1, 2, 3, 0], mask=M12, order=O2, adapt=[2.0, 0.5], scale=1.0)),
            ("case_del", dict(mshape=[1, 1], sub="e", verts="fan7", plan="spread", mask=[[False]], order=O3, adapt="sym", scale=1.0)),
            ("case_rect", dict(mshape=[1, 2], sub="a", H=3, W=3, box="A", anchors=[0, 1, 2, 3], regions=[[0, 1, 0, 1], None, [1, 2, 1, 2], [2, 2, 0, 2], [1, 1, 1, 1]],
                               mask=M12, order=O3, adapt="sym", scale=1.0))]
    if not q:
        hist += [("case_del", dict(mshape=[1, 2], sub="a", verts="v5", plan=[0, "free", 2, 1, -1], mask=M12, order=O1, adapt=[3.0, 0.25], scale=2.0)),
                 ("case_del", dict(mshape=[1, 1], sub="d", verts="v7", plan=[0, 1, 2, 3, 4, 5, 6, 0, "free"], mask=[[False]], order=O2, adapt="sym", scale=1.0)),
                 ("case_del", dict(mshape=[2, 2], sub="b", verts="v5", plan=[0, 1, 2, 0, 1, 2, 1], mask=None, order=O3, adapt=[0.5, 2.0, 4.0, 1.5], scale=1.0)),
                 ("case_rect", dict(mshape=[1, 2], sub="b", H=3, W=4, box="B", anchors=[4, 0, 0, 3], regions=[[0, 0, 1, 3], [1, 1, 0, 1], None, [2, 2, 2, 3], [0, 1, 3, 3]],
                                    mask=M12, order=O2, adapt="sym", scale=2.0))]
    out += hist
    # --- dense / sparse kernels on index tables: all tables by forking, or symbolic tables through the merge interpreter
    tb = [
        (dict(sub=[1, 2], K=1, P=3, sizes=[1, 1, 1, 1, 1]), {}),
        (dict(sub=[2, 1], K=2, P=2, sizes=[2, 1, 2, 1, 1]), {}),
        (dict(sub=[1, 1], K=3, P=3, sizes=[3, 2], distinct=True), {}),
        (dict(sub=[1, 1, 1], K=1, P=3, sizes=[1, 1, 1], mode="merge"), {}),
        (dict(sub=[1, 1], K=2, P=3, sizes=[2, 1], mode="merge"), {}),
    ]
    if not q:
        tb += [
            (dict(sub=[2, 1], K=2, P=3, sizes=[2, 1, 2, 1, 1]), {"split": 3}),
            (dict(sub=[1, 1], K=3, P=4, sizes=[3, 3], distinct=True), {}),
            (dict(sub=[2, 1, 2], K=1, P=2, sizes=[1] * 9), {"split": 2}),
            (dict(sub=[1, 2], K=3, P=3, sizes=[3, 1, 1, 1, 1], distinct=True), {}),
            (dict(sub=[3, 1], K=1, P=2, sizes=[1] * 10), {"split": 3}),
            (dict(sub=[1, 1], K=3, P=3, sizes=[2, 2], mode="merge"), {}),
        ]
    for c, o in tb:
        out.append(("case_tables", c, o) if o else ("case_tables", c))
    # --- neighbour lists: histories of meshes built one after the other in one process (shapes / vertex sets = solver integers
    #     concretised by forking); each mesh must publish the adjacency of its own geometry
    out.append(("case_rect_history", {"L": 2, "lo": 3, "hi": 6 if q else 8, "vias": ["overlay", "mapper"]}, {} if q else {"split": 3}))
    out.append(("case_rect_history", {"L": 3, "lo": 3, "hi": 8 if q else 10, "vias": ["mapper", "direct", "overlay"], "same_pixels": True}))
    out.append(("case_rect_history", {"L": 1, "lo": 3, "hi": 8 if q else 12, "vias": ["direct"]}))
    out.append(("case_del_history", {"L": 2, "vias": ["direct", "mapper"]}))
    if not q:
        out.append(("case_del_history", {"L": 3, "vias": ["mapper", "direct", "direct"]}))
    return out


def replay(cand):
    kw = dict(cand["case_kwargs"])
    c2 = dict(cand)
    case = dict(cand["case"])
    if "mask" in case:
        kw["mask"] = case["mask"]
    for k in ("mshape", "anchors", "regions", "plan", "span", "mode", "distinct", "lo", "hi", "L", "same_pixels", "adapt"):
        kw.pop(k, None)
    if cand["case_fn"] == "case_rect":
        kw.pop("ext", None)
    for k in ():
        kw.pop(k, None)
    c2["case_kwargs"] = kw
    c2["case"] = case
    # Delaunay obligations are exact identities on dyadic vertices: a tight replay tolerance lets deviations of 1e-8 reproduce
    return hx.replay_body(BODIES[cand["case_fn"]], c2, tol=1e-10 if cand["case_fn"] == "case_del" else 1e-7)
